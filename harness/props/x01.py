"""X01 (coverage beyond the listed properties) - the command-line driver bare_script.bare.main.

leg A  MC_Cli: every command line of <= N scripts over the script alphabet x {file, inline} x flags x -v sets, stepped by the
       BareCli machine; invariants StatusRange / StopAtFirstFailure / StaticNeverExecutes / ErrorMeansOne / ErrorIsLast /
       DebugReports, action properties FrozenAfterDone / InOrder, liveness Terminates.
leg B  the same family (alphabet obtained from TLC) run through the REAL main() in a scratch directory with captured stdout;
       every recorded run validated against Trace_Cli step by step.
leg C  random command lines with random terminating scripts (shared globals, return values of every type, lint shapes)."""
import contextlib
import io
import itertools
import json
import os
import random
import re
import shutil
import signal
import tempfile

from .. import framework as F
from .. import gen_jump, realrun, tlc
from .. import abstraction as A

MC_CFG = '''SPECIFICATION FairSpec
CONSTANT N = %d
INVARIANT StatusRange
INVARIANT StopAtFirstFailure
INVARIANT StaticNeverExecutes
INVARIANT ExecutedBound
INVARIANT ErrorMeansOne
INVARIANT ErrorIsLast
INVARIANT DebugReports
PROPERTY FrozenAfterDone
PROPERTY InOrder
PROPERTY Terminates
CHECK_DEADLOCK FALSE
'''
BROKEN = 'if x\n'
RE_STATIC = re.compile(r'^BareScript: Static analysis "(.*)" \.\.\. (OK|(\d+) warnings?:)$')
RE_TIMING = re.compile(r'^BareScript: Script executed in [0-9.]+ milliseconds$')
RE_DBGFAIL = re.compile(r'^BareScript: Function "(.*)" failed with error: ')
RE_WARN = re.compile(r'^BareScript: {5}')
RE_UNDEF = re.compile(r'^Undefined function "(.*)"$')
RE_LABEL = re.compile(r'^Unknown jump label "(.*)"$')
RE_LOAD = re.compile(r'^Failed to load "(.*)"$')


class CliTimeout(BaseException):
    """not an Exception: the driver's own `except Exception` must not swallow it"""


def _alarm(_sig, _frm):
    raise CliTimeout()


def script_text(sc):
    if sc['src'] == 'broken':
        return BROKEN
    return ''.join(line + '\n' for line in A.jump_text(sc['model']))


def classify(lines, names):
    """stdout lines -> events (the projection the specification talks about)"""
    ev = []
    i = 0
    n = len(lines)

    def error_at(j):
        """(kind, arg, consumed) if an error message starts at line j"""
        if j >= n:
            return None
        ln = lines[j]
        m = RE_UNDEF.match(ln)
        if m:
            return 'undefined', m.group(1), 1
        m = RE_LABEL.match(ln)
        if m:
            return 'label', m.group(1), 1
        m = RE_LOAD.match(ln)
        if m:
            return 'load', m.group(1), 1
        if ln.startswith('Syntax error, line number'):
            return 'syntax', '', n - j
        if ln == 'Syntax error:':
            return 'varsyntax', '', n - j
        return None

    while i < n:
        ln = lines[i]
        m = RE_STATIC.match(ln)
        if m:
            cnt = int(m.group(3)) if m.group(3) else 0
            k = 0
            while i + 1 + k < n and RE_WARN.match(lines[i + 1 + k]):
                k += 1
            ev.append({'ev': 'static', 'name': m.group(1), 'n': cnt, 'lines': k})
            i += 1 + k
            continue
        if RE_TIMING.match(ln):
            ev.append({'ev': 'timing'})
            i += 1
            continue
        m = RE_DBGFAIL.match(ln)
        if m:
            ev.append({'ev': 'dbgfail', 'name': m.group(1)})
            i += 1
            continue
        if ln.endswith(':') and ln[:-1] in names and error_at(i + 1) and i + 1 + error_at(i + 1)[2] == n:
            kind, arg, _ = error_at(i + 1)
            ev.append({'ev': 'error', 'hasName': True, 'name': ln[:-1], 'kind': kind, 'arg': arg})
            break
        e = error_at(i)
        if e and i + e[2] == n:
            ev.append({'ev': 'error', 'hasName': False, 'name': '', 'kind': e[0], 'arg': e[1]})
            break
        ev.append({'ev': 'log', 'text': A.cps(ln)})
        i += 1
    return ev


def run_real(cfg):
    """the real driver on the command line `cfg` describes -> obs"""
    from bare_script import bare
    tmp = tempfile.mkdtemp(prefix='x01_')
    cwd = os.getcwd()
    argv = []
    if cfg['debug']:
        argv.append('-d')
    if cfg['static']:
        argv.append('-s')
    for v in cfg['vars']:
        argv += ['-v', v['name'], A.expr_text(v['e']) if v['ok'] else '1 +']
    names = set()
    inl = 0
    try:
        os.chdir(tmp)
        for sc in cfg['scripts']:
            if sc['type'] == 'file':
                names.add(sc['name'])
                if sc['src'] != 'missing':
                    with open(sc['name'], 'w', encoding='utf-8') as fh:
                        fh.write(script_text(sc))
                argv.append(sc['name'])
            else:
                inl += 1
                names.add(f'-c {inl}')
                argv += ['-c', script_text(sc)]
        buf = io.StringIO()
        status, raised = None, ''
        signal.signal(signal.SIGALRM, _alarm)
        signal.alarm(30)
        try:
            with contextlib.redirect_stdout(buf), contextlib.redirect_stderr(io.StringIO()):
                bare.main(argv)
            raised = 'main returned without sys.exit'
        except CliTimeout:
            raised = 'the driver did not finish within 30 s'
        except SystemExit as exc:
            status = exc.code if isinstance(exc.code, int) else (0 if exc.code is None else -1)
        except BaseException as exc:  # pylint: disable=broad-except
            raised = f'{type(exc).__name__}: {exc}'[:200]
        out = buf.getvalue()
    finally:
        signal.alarm(0)
        os.chdir(cwd)
        shutil.rmtree(tmp, ignore_errors=True)
    lines = out.split('\n')
    if lines and lines[-1] == '':
        lines.pop()
    return {'events': classify(lines, names), 'status': status if status is not None else -1, 'raised': raised,
            'argv': argv, 'stdout': out[:2000]}


def names_of(cfg):
    acc = set(v['name'] for v in cfg['vars'])
    for v in cfg['vars']:
        realrun.collect_names([{'k': 'expr', 'name': '', 'e': v['e']}], acc)
    for sc in cfg['scripts']:
        realrun.collect_names(sc['model'], acc)
    return {n: A.cps(n) for n in sorted(acc) if n}


def make_case(cfg):
    cfg = json.loads(json.dumps(cfg))
    return {'cfg': cfg, 'names': names_of(cfg) or {'x': A.cps('x')}, 'obs': run_real(cfg)}


def one(args):
    return make_case(args)


def canaries(case):
    out = []
    c = json.loads(json.dumps(case))
    c['obs']['status'] = (c['obs']['status'] + 1) % 256
    out.append(c)
    if case['obs']['events']:
        c = json.loads(json.dumps(case))
        c['obs']['events'].pop()
        out.append(c)
        c = json.loads(json.dumps(case))
        e = c['obs']['events'][0]
        if e['ev'] == 'log':
            e['text'] = e['text'] + [33]
            out.append(c)
        elif e['ev'] == 'static':
            e['name'] = e['name'] + '!'
            out.append(c)
    return out


def describe(case):
    return {'argv': case['obs']['argv'], 'status': case['obs']['status'], 'stdout': case['obs']['stdout'][:300]}


# ---- random terminating scripts (leg C)
RET_VALUES = [gen_jump.num(0), gen_jump.num(1), gen_jump.num(7), gen_jump.num(255), gen_jump.num(256), gen_jump.num(5, 2),
              gen_jump.s(''), gen_jump.s('no'), gen_jump.var('true'), gen_jump.var('false'), gen_jump.var('null'),
              gen_jump.var('g'), gen_jump.var('h'), gen_jump.call('arrayNew'), gen_jump.call('arrayNew', gen_jump.num(0)),
              gen_jump.call('objectNew'), {'k': 'un', 'op': '-', 'e': gen_jump.num(1)},
              {'k': 'bin', 'op': '-', 'l': gen_jump.var('g'), 'r': gen_jump.num(7)}]


def rscript(rnd):
    m = []
    fn = False
    for _ in range(rnd.randint(0, 5)):
        r = rnd.random()
        if r < 0.25:
            m.append({'k': 'expr', 'name': '', 'e': gen_jump.call('systemLog', rnd.choice(
                [gen_jump.s('hello'), {'k': 'bin', 'op': '+', 'l': gen_jump.s('g='), 'r': gen_jump.var('g')},
                 {'k': 'bin', 'op': '+', 'l': gen_jump.s('h='), 'r': gen_jump.var('h')}, gen_jump.var('x')]))})
        elif r < 0.5:
            n = rnd.choice(['g', 'h'])
            m.append({'k': 'expr', 'name': n, 'e': rnd.choice(
                [gen_jump.num(rnd.randint(0, 9)),
                 {'k': 'bin', 'op': '+', 'l': gen_jump.call('if', gen_jump.var(n), gen_jump.var(n), gen_jump.num(0)), 'r': gen_jump.num(1)},
                 gen_jump.s('t'), gen_jump.call('arrayNew', gen_jump.num(1))])})
        elif r < 0.6:
            lab = f'J{len(m)}'                                  # forward jumps only: every script terminates
            m.append({'k': 'jump', 'label': lab, 'hasE': rnd.random() < 0.5, 'e': gen_jump.var(rnd.choice(['g', 'h', 'true']))})
            if rnd.random() < 0.6:
                m.append({'k': 'expr', 'name': '', 'e': gen_jump.call('systemLog', gen_jump.s('skipped?'))})
            if rnd.random() < 0.9:
                m.append({'k': 'label', 'v': lab})
        elif r < 0.7:
            m.append({'k': 'function', 'name': rnd.choice(['ff', 'f2']), 'args': rnd.choice([[], ['p'], ['p', 'p']]), 'last': False,
                      'body': [{'k': 'return', 'hasE': True, 'e': rnd.choice([gen_jump.num(2), gen_jump.var('p'), gen_jump.var('g')])}]})
            fn = True
        elif r < 0.78:
            m.append({'k': 'expr', 'name': '', 'e': gen_jump.call(rnd.choice(['arrayGet', 'stringLength', 'nosuch', 'ff']),
                                                                  gen_jump.call('arrayNew'), gen_jump.num(3))})
        elif r < 0.84:
            m.append({'k': 'expr', 'name': '', 'e': {'k': 'bin', 'op': '+', 'l': gen_jump.var('g'), 'r': gen_jump.num(1)}})   # pointless
        elif r < 0.9:
            m.append({'k': 'label', 'v': rnd.choice(['L1', 'L3'])})
    if rnd.random() < 0.75:
        e = rnd.choice(RET_VALUES)
        if fn and rnd.random() < 0.3:
            e = gen_jump.call('ff', gen_jump.num(rnd.choice([0, 4, 300])))
        m.append({'k': 'return', 'hasE': True, 'e': e})
    return m


def rconfig(rnd):
    scripts = []
    for p in range(rnd.randint(1, 4)):
        typ = rnd.choice(['file', 'code'])
        r = rnd.random()
        src = 'ok' if r < 0.88 else ('broken' if r < 0.94 or typ == 'code' else 'missing')
        scripts.append({'type': typ, 'name': f'r{p}.bare' if typ == 'file' else '', 'src': src,
                        'model': rscript(rnd) if src == 'ok' else []})
    vs = []
    for n in rnd.sample(['x', 'g', 'h'], rnd.randint(0, 2)):
        r = rnd.random()
        if r < 0.1:
            vs.append({'name': n, 'ok': False, 'e': gen_jump.num(0)})
        else:
            vs.append({'name': n, 'ok': True, 'e': rnd.choice(
                [gen_jump.num(rnd.randint(0, 300)), gen_jump.s('v'), gen_jump.call('len', gen_jump.s('abc')),
                 {'k': 'bin', 'op': '*', 'l': gen_jump.num(3), 'r': gen_jump.num(5, 2)}, gen_jump.call('arrayNew'),
                 gen_jump.var('true'), gen_jump.var('g')])})
    return {'debug': rnd.random() < 0.35, 'static': rnd.random() < 0.2, 'vars': vs, 'scripts': scripts}


def run(ctx, replay=None):
    if replay is not None:
        F.judge(ctx, 'Trace_Cli', [make_case(replay['case']['cfg'])], None, invariants=('StatusRange', 'StopAtFirstFailure', 'SeenInv'),
                describe=describe, key_fields=('cfg',))
        return F.finish(ctx, rule='replay')
    rnd = random.Random(ctx.seed)
    n = ctx.pick(2, 3)
    r = tlc.check_model('MC_Cli', MC_CFG % n, ctx.work, tag='cli')
    ctx.mc_runs.append({'module': 'MC_Cli', 'N': n, 'states': r['states'], 'ok': r['ok'], 'seconds': round(r['seconds'], 1)})
    ctx.add_stats(r)
    if not r['ok']:
        ctx.violation('design-level: MC_Cli property violated', {'property': ctx.pid, 'mc': 'MC_Cli', 'out': r['out'][-3000:]})
    alpha = tlc.printed_json(r['out'], 'CLIALPHABET')
    if not alpha:
        raise tlc.MachineryError('MC_Cli did not print its alphabet')
    alpha = alpha[0]
    occ = [(i, t) for i in range(len(alpha['scripts'])) for t in ('file', 'code')
           if not (alpha['scripts'][i]['src'] == 'missing' and t == 'code')]
    cfgs = []
    for k in range(1, n + 1):
        for line in itertools.product(occ, repeat=k):
            for d, s in ((False, False), (True, False), (False, True), (True, True)):
                for vi, vs in enumerate(alpha['vars']):
                    if ctx.quick and k == n and (len(cfgs) % 3):      # quick: a third of the longest lines
                        cfgs.append(None)
                        continue
                    cfgs.append({'debug': d, 'static': s, 'vars': vs, 'scripts': [
                        {'type': t, 'name': f's{p + 1}_{i + 1}.bare' if t == 'file' else '', 'src': alpha['scripts'][i]['src'],
                         'model': alpha['scripts'][i]['model']} for p, (i, t) in enumerate(line)]})
    family = [c for c in cfgs if c is not None]
    cfgs = family + [rconfig(rnd) for _ in range(ctx.pick(3000, 60000))]
    cases = F.pmap(one, [(c,) for c in cfgs])
    F.judge(ctx, 'Trace_Cli', cases, canaries, invariants=('StatusRange', 'StopAtFirstFailure', 'SeenInv'), describe=describe,
            key_fields=('cfg',), nontrivial=lambda c: len(c['cfg']['scripts']) > 1)
    st = {}
    kinds = {}
    for c in cases:
        st[c['obs']['status']] = st.get(c['obs']['status'], 0) + 1
        for e in c['obs']['events']:
            k = e['ev'] + (':' + e['kind'] if e['ev'] == 'error' else '')
            kinds[k] = kinds.get(k, 0) + 1
    ctx.notes['exit_status_counts'] = {str(k): v for k, v in sorted(st.items())}
    ctx.notes['output_line_classes'] = kinds
    ctx.notes['family'] = f'{len(family)} command lines of <= {n} scripts over the {len(alpha["scripts"])}-script alphabet of MC_Cli'
    for need in ('log', 'static', 'timing', 'dbgfail', 'error:undefined', 'error:syntax', 'error:load', 'error:varsyntax'):
        if not kinds.get(need):
            ctx.vacuous(f'vacuity: no run printed a line of class {need}')
    return F.finish(ctx, rule='command lines over the MC_Cli alphabet (files and inline code, -d / -s, -v sets; exhaustive to length n) '
                    'plus random command lines of 1-4 random terminating scripts; each run through the real main() in a scratch '
                    'directory and validated against the BareCli machine one critical section per step', exhaustive=True)
