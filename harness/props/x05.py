"""X05 (coverage beyond the listed properties) - statement recognition: what parse_script makes of one source line.

Random lines are written token by token for every statement form (assignment, function header, if / elif / else / endif, while,
for, break, continue, label, jump, jumpif, return, both include forms, expression) with random blanks and near-misses (missing
colon, glued keywords, bad names, extra tokens), placed alone or in the slot of the construct they were written for, and parsed by
the REAL parse_script.  The driver also records every substring of the line the real parse_expression accepts.  TLC classifies the
line character by character (BareStatement), builds the program the wrapper denotes, lowers it (BareLower) and compares with the
real model, or demands a parser error when the expression part or the block structure (BareLines.Machine) is wrong
(Trace_Statement)."""
import json
import random
import re

from .. import framework as F
from .. import tlc
from .. import abstraction as A

MC_CFG = '''SPECIFICATION Spec
CONSTANT MaxLen = %d
INVARIANT Total
INVARIANT SpanInside
INVARIANT NamesAreIdentifiers
INVARIANT HeaderShape
INVARIANT AssignShape
INVARIANT BlankInsensitive
INVARIANT CommentIff
CHECK_DEADLOCK FALSE
'''
WRAP = {
    'plain': ([], []), 'if': ([], ['endif']), 'while': ([], ['endwhile']), 'for': ([], ['endfor']),
    'function': ([], ['x1 = 1', 'endfunction']), 'elif': (['if c0:'], ['endif']), 'else': (['if c0:', 'x1 = 1'], ['x2 = 2', 'endif']),
    'endif': (['if c0:', 'x1 = 1'], []), 'endwhile': (['while c0:', 'x1 = 1'], []), 'endfor': (['for v0 in a0:', 'x1 = 1'], []),
    'break': (['for v0 in a0:'], ['endfor']), 'continue': (['for v0 in a0:'], ['endfor']), 'endfunction': (['function f0():', 'x1 = 1'], []),
}
EXPRS = ['x', 'a + 1', "f1('a:b', 2)", "'s)'", '"q:"', '(a)', '!a', '-1', '[v w]', 'a == b', 'g2(  b )', 'a * (b - 1)', "'it\\'s'", '1.5',
         'a ? b', '1 +', "'open", 'f1(a', ')', 'a b', '']
NAMES = ['a', 'b1', '_x', 'lbl', 'in', 'if', 'jump', 'endif', 'return', 'f1', 'Z9', 'include']
BADNAMES = ['1a', 'a-b', 'a.b', '', '9']          # ASCII only: the host's \w also takes non-ASCII letters, BareStatement does not model them


def ws(rnd, must=False):
    return rnd.choice([' ', ' ', '  ', '\t'] if must else ['', '', ' ', '  ', '\t'])


def gen_line(rnd, kind):
    """a line meant to be `kind`, usually well formed, sometimes a near-miss"""
    e = rnd.choice(EXPRS[:14]) if rnd.random() < 0.8 else rnd.choice(EXPRS)
    n = rnd.choice(NAMES) if rnd.random() < 0.9 else rnd.choice(BADNAMES)
    w = lambda must=False: ws(rnd, must)      # noqa: E731
    bad = rnd.random() < 0.22
    if kind == 'assign':
        return f'{w()}{n}{w()}{rnd.choice(["=", "=", "==", "= ="] if bad else ["="])}{w()}{e}{w()}'
    if kind == 'expr':
        return f'{w()}{e}{w()}'
    if kind == 'comment':
        return rnd.choice(['', '   ', '\t', '# c', '  # if x:', '#', ' #x = 1'])
    if kind == 'label':
        return f'{w()}{n}{w()}:{w()}' + (rnd.choice(['x', ':', ' a']) if bad else '')
    if kind == 'jump':
        return f'{w()}jump{w(not bad)}{n}{w()}' + (rnd.choice([' b', ':']) if bad and rnd.random() < 0.5 else '')
    if kind == 'jumpif':
        return f'{w()}jumpif{w()}({e}){w(not bad)}{n}{w()}'
    if kind == 'return':
        return f'{w()}return' + rnd.choice(['', w(True) + e + w(), w(True), '(' + e + ')' if bad else w(True) + e])
    if kind == 'include':
        url = rnd.choice(['a.bare', "it\\'s.bare", 'dir/b c.bare', '', "x\\\\", "q'uote", 'a>b'])
        return f"{w()}include{w(not bad)}'{url}'{w()}" + (' x' if bad and rnd.random() < 0.4 else '')
    if kind == 'includesys':
        url = rnd.choice(['a.bare', 'dir/b.bare', '', "it's", 'a>b', 'a b'])
        return f'{w()}include{w(not bad)}<{url}>{w()}'
    if kind == 'function':
        args = [rnd.choice(['a', 'b1', '_c', 'in']) for _ in range(rnd.randint(0, 3))]
        if bad and rnd.random() < 0.4:
            args.append(rnd.choice(['1a', '', 'a b']))
        al = (w() + ',' + w()).join(args)
        dots = rnd.choice(['', '', '...', ' ...', '. . .' if bad else '...'])
        head = rnd.choice(['', '', 'async ', 'async', '  async  '])
        colon = rnd.choice([':', ':', ' :', '' if bad else ':'])
        return f'{w()}{head}function{w(not bad)}{n}{w()}({w()}{al}{dots}{w()}){w()}{colon}{w()}'
    if kind in ('if', 'elif', 'while'):
        colon = rnd.choice([':', ':', ' :', '::' if bad else ':', '' if bad else ':'])
        return f'{w()}{kind}{w(not bad)}{e}{w()}{colon}{w()}'
    if kind == 'for':
        v = rnd.choice(['v', 'item', 'in', '_e'])
        ix = rnd.choice(['', '', f'{w()},{w()}{rnd.choice(["i", "ix", "in", "1x" if bad else "k"])}'])
        mid = rnd.choice([' in ', '  in\t', ' in' if bad else ' in ', 'in ' if bad else ' in '])
        colon = rnd.choice([':', ':', ' :', '' if bad else ':'])
        return f'{w()}for{w(not bad)}{v}{ix}{mid}{e}{w()}{colon}{w()}'
    if kind == 'else':
        return f'{w()}else{w()}{rnd.choice([":", ":", " :", "" if bad else ":"])}{w()}' + ('x' if bad and rnd.random() < 0.4 else '')
    # keyword alone
    tail = rnd.choice(['', '', ' ', '\t', ' x' if bad else '', ':' if bad else '', ';' if bad else ''])
    kw = kind if not bad or rnd.random() < 0.5 else rnd.choice([kind + 's', kind[:-1], kind.upper(), kind + '1'])
    return f'{w()}{kw}{tail}'


KINDS = ['assign', 'expr', 'comment', 'label', 'jump', 'jumpif', 'return', 'include', 'includesys', 'function', 'if', 'elif', 'while', 'for',
         'else', 'endif', 'endwhile', 'endfor', 'break', 'continue', 'endfunction']
SLOTTED = {'function', 'if', 'elif', 'while', 'for', 'else', 'endif', 'endwhile', 'endfor', 'break', 'continue', 'endfunction'}


def one_case(seed):
    from bare_script import parse_script, parse_expression, BareScriptParserError
    rnd = random.Random(seed)
    kind = rnd.choice(KINDS)
    line = gen_line(rnd, kind)
    while line.rstrip().endswith('\\') or '\n' in line or len(line) > 46:
        kind = rnd.choice(KINDS)
        line = gen_line(rnd, kind)
    r = rnd.random()
    if kind in SLOTTED:
        ctx = kind if r < 0.75 else ('plain' if r < 0.9 else rnd.choice(sorted(SLOTTED)))
    else:
        ctx = 'plain' if r < 0.8 else rnd.choice(sorted(SLOTTED))
    pre, post = WRAP[ctx]
    text = '\n'.join(pre + [line] + post)
    obs = {'outcome': '', 'model': [], 'async': False}
    try:
        script = parse_script(text)
        obs['outcome'] = 'model'
        obs['model'] = A.amodel(script)
        fns = [s['function'] for s in script['statements'] if 'function' in s]
        obs['async'] = bool(fns and fns[0].get('async'))
    except BareScriptParserError:
        obs['outcome'] = 'error'
    except Exception as exc:  # pylint: disable=broad-except
        obs['outcome'] = 'raised ' + type(exc).__name__
    # every substring the real expression parser accepts
    table, index, spans = [], {}, []
    n = len(line)
    for s in range(n):
        for e in range(s + 1, n + 1):
            try:
                ae = A.aexpr(parse_expression(line[s:e]))
            except Exception:  # pylint: disable=broad-except
                continue
            key = json.dumps(ae, sort_keys=True)
            if key not in index:
                table.append(ae)
                index[key] = len(table)
            spans.append({'s': s + 1, 'e': e, 'id': index[key]})
    names = set(re.findall(r'[A-Za-z_]\w*', line)) | {'c0', 'a0', 'x1', 'x2', 'v0', 'f0'}
    return {'line': A.cps(line), 'ctx': ctx, 'names': {x: A.cps(x) for x in sorted(names)}, 'okSpans': spans, 'exprs': table or [{'k': 'var', 'v': 'null'}],
            'obs': obs, 'meant': kind, 'text': text}


def canaries(case):
    out = []
    if case['obs']['outcome'] == 'model':
        c = json.loads(json.dumps(case))
        c['obs']['outcome'] = 'error'
        c['obs']['model'] = []
        out.append(c)
        if case['obs']['model']:
            c = json.loads(json.dumps(case))
            c['obs']['model'] = c['obs']['model'] + [{'k': 'label', 'v': 'extra'}]
            out.append(c)
    elif case['obs']['outcome'] == 'error':
        c = json.loads(json.dumps(case))
        c['obs']['outcome'] = 'model'
        out.append(c)
    return out


def run(ctx, replay=None):
    if replay is not None:
        F.judge(ctx, 'Trace_Statement', [replay['case']], None, cfg_consts='CONSTANT Dev = {}\n', key_fields=('line', 'ctx'))
        return F.finish(ctx, rule='replay (recorded case re-judged)')
    ml = ctx.pick(4, 5)
    r = tlc.check_model('MC_Statement', MC_CFG % ml, ctx.work, tag='stmt')
    ctx.mc_runs.append({'module': 'MC_Statement', 'MaxLen': ml, 'states': r['states'], 'ok': r['ok'], 'seconds': round(r['seconds'], 1)})
    ctx.add_stats(r)
    if not r['ok']:
        ctx.violation('design-level: MC_Statement property violated', {'property': ctx.pid, 'mc': 'MC_Statement', 'out': r['out'][-3000:]})
    cases = F.pmap(one_case, [(ctx.seed * 15485863 + i,) for i in range(ctx.pick(9000, 200000))])
    F.judge(ctx, 'Trace_Statement', cases, canaries, cfg_consts='CONSTANT Dev = {}\n', key_fields=('line', 'ctx'),
            describe=lambda c: {'line': A.uncps(c['line']), 'placed': c['ctx'], 'written_as': c['meant'], 'outcome': c['obs']['outcome'],
                                'model': A.jump_text(c['obs']['model'])[:12] if c['obs']['outcome'] == 'model' else []},
            nontrivial=lambda c: True)
    stats = {}
    for c in cases:
        k = c['meant'] + ':' + c['obs']['outcome']
        stats[k] = stats.get(k, 0) + 1
    ctx.notes['lines_by_intended_form_and_outcome'] = stats
    for k in KINDS:
        if k != 'comment' and not (stats.get(k + ':model') and (stats.get(k + ':error') or k in ('expr',))):
            ctx.vacuous(f'vacuity: form {k} was not seen both accepted and rejected')
    return F.finish(ctx, rule='random spellings of the 21 statement forms (blanks, tabs, glued / misspelt keywords, bad names, missing colons, '
                    'trailing tokens; expressions incl. strings with ":" and ")" and invalid ones), alone or in the slot of their construct; '
                    'real parse_script model / error compared with Classify + Lower, every substring accepted by the real parse_expression '
                    'supplied as the expression oracle')
