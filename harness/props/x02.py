"""X02 (coverage beyond the listed properties) - the regex library functions against a reference backtracking semantics.

leg A  MC_Regex: the reference semantics (BareRegex) satisfies its algebraic laws on every pattern of a small family x every
       text over {a, b, LF} up to MaxLen x flags m, s.
leg C  random patterns of the modelled subset (literals incl. metacharacters, '.', classes, sequences, alternations, greedy and
       lazy repetitions, numbered and named groups, anchors; flags i m s and invalid flags) rendered to pattern text and run
       through the REAL regexNew + regexMatch / regexMatchAll / regexReplace / regexSplit inside execute_script; TLC judges
       every recorded result (Trace_Regex)."""
import json
import random

from .. import framework as F
from .. import tlc
from .. import abstraction as A

MC_CFG = '''SPECIFICATION Spec
CONSTANT MaxLen = %d
INVARIANT Ordered
INVARIANT ReplaceSelf
INVARIANT SplitRejoins
INVARIANT FirstIsSearch
INVARIANT CapsInside
CHECK_DEADLOCK FALSE
'''
INF = 99
CHARS = 'abcAB.$\n-'
META = set('.^$*+?{}[]\\|()')


class Gen:
    def __init__(self, rnd):
        self.rnd = rnd
        self.ng = 0
        self.names = []

    def atom(self):
        r = self.rnd.random()
        if r < 0.55:
            return {'k': 'lit', 'c': ord(self.rnd.choice(CHARS))}
        if r < 0.7:
            return {'k': 'any'}
        return {'k': 'cls', 'neg': self.rnd.random() < 0.3,
                'set': [ord(c) for c in self.rnd.sample('abcAB.$-', self.rnd.randint(1, 3))]}

    def consuming(self, d):
        """a pattern that cannot match the empty string"""
        r = self.rnd.random()
        if d >= 2 or r < 0.4:
            return self.atom()
        if r < 0.55:
            return {'k': 'seq', 'ps': [self.consuming(d + 1), self.any_pattern(d + 1)]}
        if r < 0.7:
            return {'k': 'alt', 'ps': [self.consuming(d + 1) for _ in range(self.rnd.randint(2, 3))]}
        if r < 0.85:
            return self.group(lambda: self.consuming(d + 1))
        return {'k': 'rep', 'p': self.consuming(d + 1), 'min': 1, 'max': self.rnd.choice([1, 2, INF]), 'greedy': self.rnd.random() < 0.7}

    def group(self, body):
        """numbering is by the position of the opening parenthesis: the number is reserved BEFORE the body is built"""
        n = self.ng = self.ng + 1
        name = self.rnd.choice(['x', 'yy', 'grp']) + str(n) if self.rnd.random() < 0.3 else ''
        self.names.append(name)
        return {'k': 'grp', 'n': n, 'name': name, 'p': body()}

    def any_pattern(self, d):
        r = self.rnd.random()
        if d >= 3 or r < 0.3:
            return self.atom()
        if r < 0.5:
            return {'k': 'seq', 'ps': [self.any_pattern(d + 1) for _ in range(self.rnd.randint(2, 3))]}
        if r < 0.62:
            return {'k': 'alt', 'ps': [self.any_pattern(d + 1) for _ in range(self.rnd.randint(2, 3))]}
        if r < 0.8:
            mn, mx = self.rnd.choice([(0, 1), (0, INF), (1, INF), (0, 2), (1, 2), (2, 3)])
            return {'k': 'rep', 'p': self.consuming(d + 1), 'min': mn, 'max': mx, 'greedy': self.rnd.random() < 0.65}
        if r < 0.93:
            return self.group(lambda: self.any_pattern(d + 1))
        return {'k': self.rnd.choice(['bol', 'eol'])}


def esc(c):
    ch = chr(c)
    if ch == '\n':
        return '\\n'
    return '\\' + ch if ch in META or ch == '-' else ch


def render(p, ctx='top'):
    """pattern tree -> pattern text; ctx: 'top' | 'seq' | 'rep' (what may need a non-capturing group)"""
    k = p['k']
    if k == 'lit':
        return esc(p['c'])
    if k == 'any':
        return '.'
    if k == 'cls':
        return '[' + ('^' if p['neg'] else '') + ''.join('\\' + chr(c) if chr(c) in '\\]^-' else chr(c) for c in p['set']) + ']'
    if k == 'seq':
        t = ''.join(render(q, 'seq') for q in p['ps'])
        return '(?:' + t + ')' if ctx == 'rep' else t
    if k == 'alt':
        t = '|'.join(render(q, 'top') for q in p['ps'])
        return '(?:' + t + ')' if ctx != 'top' else t
    if k == 'rep':
        body = render(p['p'], 'rep')
        if p['p']['k'] == 'rep':
            body = '(?:' + body + ')'
        mn, mx = p['min'], p['max']
        q = {(0, 1): '?', (0, INF): '*', (1, INF): '+'}.get((mn, mx)) or ('{%d}' % mn if mn == mx else '{%d,%s}' % (mn, '' if mx == INF else mx))
        return body + q + ('' if p['greedy'] else '?')
    if k == 'grp':
        return '(' + ('?<' + p['name'] + '>' if p['name'] else '') + render(p['p'], 'top') + ')'
    return '^' if k == 'bol' else '$'


def render_tpl(tpl):
    out = ''
    for it in tpl:
        if it['k'] == 'lit':
            out += '$$' if it['c'] == 36 else chr(it['c'])
        else:
            out += '$' + str(it['n'])
    return out


def rtemplate(rnd, ng):
    tpl = []
    for _ in range(rnd.randint(0, 4)):
        if rnd.random() < 0.45 and (not tpl or tpl[-1]['k'] != 'ref'):
            n = rnd.randint(1, max(1, ng)) if rnd.random() < 0.85 else ng + 1
            tpl.append({'k': 'ref', 'n': n})
        else:
            c = rnd.choice('xy-$\\n <g')
            if tpl and tpl[-1]['k'] == 'ref' and c.isdigit():
                c = '-'
            tpl.append({'k': 'lit', 'c': ord(c)})
    return tpl


def to_item(v):
    return {'null': v is None, 'v': A.cps(v) if isinstance(v, str) else []}


def to_match(m):
    if not isinstance(m, dict):
        return {'null': True, 'index': 0, 'input': [], 'groups': []}
    return {'null': False, 'index': int(m['index']), 'input': A.cps(m['input']),
            'groups': [{'key': A.cps(k), **to_item(v)} for k, v in m['groups'].items()]}


SCRIPTS = {'match': 'return regexMatch(regexNew(p, f), s)', 'matchall': 'return regexMatchAll(regexNew(p, f), s)',
           'replace': 'return regexReplace(regexNew(p, f), s, t)', 'split': 'return regexSplit(regexNew(p, f), s)'}
PARSED = {}


def one_case(seed):
    from bare_script import parse_script, execute_script
    rnd = random.Random(seed)
    g = Gen(rnd)
    pat = g.any_pattern(0)
    kind = rnd.choice(['match', 'matchall', 'replace', 'split'])
    flags = ''.join(rnd.sample('ims', rnd.randint(0, 2))) if rnd.random() < 0.6 else ''
    if rnd.random() < 0.04:
        flags += rnd.choice('xgu')
    text = ''.join(rnd.choice(CHARS) for _ in range(rnd.randint(0, 9)))
    tpl = rtemplate(rnd, g.ng) if kind == 'replace' else []
    ptext = render(pat)
    if kind not in PARSED:
        PARSED[kind] = parse_script(SCRIPTS[kind])
    status, res = 'done', None
    try:
        res = execute_script(PARSED[kind], {'globals': {'p': ptext, 'f': flags or None, 's': text, 't': render_tpl(tpl)}})
    except Exception as exc:  # pylint: disable=broad-except
        status = f'failed: {type(exc).__name__}: {exc}'[:150]
    if kind == 'match':
        obs = to_match(res)
    elif kind == 'matchall':
        obs = {'null': not isinstance(res, list), 'ms': [to_match(m) for m in res] if isinstance(res, list) else []}
    elif kind == 'replace':
        obs = to_item(res if isinstance(res, str) else None)
    else:
        obs = {'null': not isinstance(res, list), 'items': [to_item(x) for x in res] if isinstance(res, list) else []}
    return {'kind': kind, 'pat': pat, 'ng': g.ng, 'gnames': [A.cps(n) for n in g.names],
            'flags': {'i': 'i' in flags, 'm': 'm' in flags, 's': 's' in flags}, 'flagsOK': all(c in 'ims' for c in flags),
            'text': A.cps(text), 'tpl': tpl, 'obs': obs, 'status': status, 'ptext': ptext, 'ftext': flags, 'ttext': render_tpl(tpl)}


def canaries(case):
    c = json.loads(json.dumps(case))
    k = case['kind']
    if not case['flagsOK']:
        return []
    if k == 'match' and not case['obs']['null']:
        c['obs']['index'] += 1
        c2 = json.loads(json.dumps(case))
        c2['obs']['groups'][0]['v'] = c2['obs']['groups'][0]['v'] + [33]
        return [c, c2]
    if k == 'matchall' and case['obs']['ms']:
        c['obs']['ms'].pop()
        return [c]
    if k == 'replace' and not case['obs']['null']:
        c['obs']['v'] = c['obs']['v'] + [33]
        return [c]
    if k == 'split' and case['obs']['items']:
        c['obs']['items'].append({'null': False, 'v': []})
        return [c]
    return []


def describe(c):
    return {'kind': c['kind'], 'pattern': c['ptext'], 'flags': c['ftext'], 'text': A.uncps(c['text']), 'template': c['ttext'],
            'result': c['obs']}


def run(ctx, replay=None):
    if replay is not None:
        F.judge(ctx, 'Trace_Regex', [replay['case']], None, key_fields=('kind', 'pat', 'flags', 'text', 'tpl'), describe=describe)
        return F.finish(ctx, rule='replay (recorded case re-judged)')
    ml = ctx.pick(2, 3)
    r = tlc.check_model('MC_Regex', MC_CFG % ml, ctx.work, tag='regex')
    ctx.mc_runs.append({'module': 'MC_Regex', 'MaxLen': ml, 'states': r['states'], 'ok': r['ok'], 'seconds': round(r['seconds'], 1)})
    ctx.add_stats(r)
    if not r['ok']:
        ctx.violation('design-level: MC_Regex law violated', {'property': ctx.pid, 'mc': 'MC_Regex', 'out': r['out'][-3000:]})
    cases = F.pmap(one_case, [(ctx.seed * 104729 + i,) for i in range(ctx.pick(6000, 120000))])
    F.judge(ctx, 'Trace_Regex', cases, canaries, key_fields=('kind', 'pat', 'flags', 'text', 'tpl'), describe=describe,
            nontrivial=lambda c: c['pat']['k'] in ('seq', 'alt', 'rep', 'grp'))
    kinds = {}
    for c in cases:
        key = c['kind'] + (':null' if c['obs']['null'] else '')
        kinds[key] = kinds.get(key, 0) + 1
    ctx.notes['calls_by_function_and_outcome'] = kinds
    for need in ('match', 'match:null', 'matchall', 'replace', 'replace:null', 'split'):
        if not kinds.get(need):
            ctx.vacuous(f'vacuity: no case of class {need}')
    return F.finish(ctx, rule='random patterns of the modelled subset (depth <= 3, <= 9 groups, named groups, lazy / bounded repetition, '
                    'anchors, flags i m s, invalid flags) x random texts <= 9 characters over "abcAB.$\\n-" x templates with $n, $$, '
                    'backslashes and references to missing groups; executed by the real library through execute_script')
