"""C09 - the statement budget is exact, complete and monotone.

leg A  MC_Jump under several limits (BudgetInv, liveness Terminates) and MC_Budget: self-composition
       of a limited and an unlimited run of every statement list <= N (Exact, SameWhileRunning,
       PrefixInv, SameWhenWithin, AbortJustified).
leg B/C  real programs (jump-level lists, loops, recursion, library callbacks, data-helper
       expressions with and without `variables`, nested includes) x every limit 1..N+2 (sampled for
       large N) and 0: each run validated against Trace_Core (exact count at every probe and at the
       end, exact abort point); each family validated against Trace_Budget (laws on recorded runs)."""
import itertools
import json
import random

from .. import framework as F
from .. import gen_jump, realrun, tlc
from .. import abstraction as A
from . import c08

MC_JUMP_CFG = '''SPECIFICATION FairSpec
CONSTANT N = %d
CONSTANT Limit = %d
INVARIANT PcInRange
INVARIANT BudgetInv
INVARIANT EndInv
PROPERTY CountMonotone
PROPERTY Terminates
CHECK_DEADLOCK FALSE
'''
MC_BUDGET_CFG = '''SPECIFICATION Spec
CONSTANT N = %d
CONSTANT MaxL = %d
CONSTANT Cap = 40
CONSTRAINT Bounded
INVARIANT Exact
INVARIANT SameWhileRunning
INVARIANT PrefixInv
INVARIANT SameWhenWithin
INVARIANT AbortJustified
CHECK_DEADLOCK FALSE
'''

FUNCS = '''function work(n):
    i = 0
    while i < n:
        probe(100, i)
        i = i + 1
    endwhile
    return i
endfunction
function fib(n):
    probe(101, n)
    if n < 2:
        return n
    endif
    return fib(n - 1) + fib(n - 2)
endfunction
function isBig(x):
    probe(102, x)
    return x > %(k)d
endfunction
function cmp(l, r):
    probe(103, l)
    return systemCompare(r, l)
endfunction
function addn(n, x):
    probe(104, n)
    return n + x
endfunction
function one(x):
    return x + 1
endfunction
function none():
endfunction
'''

BODIES = [
    # loops / recursion
    'probe(105, work(%(k)d))\nprobe(106, fib(%(j)d))',
    'for x, ix in arrayNew(3, 1, 2, 5):\n    probe(107, work(x))\n    if ix == %(j)d:\n        continue\n    endif\n    probe(108, ix)\nendfor',
    # library callbacks
    'arr = arrayNew(1, 5, 3, 8, 2)\nprobe(109, arrayIndexOf(arr, isBig))\nprobe(110, arrayLastIndexOf(arr, isBig))',
    'arr = arrayNew(4, 1, 3)\nadd2 = systemPartial(addn, %(k)d)\nprobe(111, add2(1))\nprobe(112, arrayIndexOf(arr, systemPartial(addn, 0 - 1)))',
    'arr = arrayNew(4, 1, 3, 2)\narraySort(arr, cmp)\nprobe(113, arrayGet(arr, 0))',
    # data helper expressions calling script functions (unmodelled functionally: family laws only)
    "data = arrayNew(objectNew('a', 1), objectNew('a', 5), objectNew('a', 9))\nr1 = dataFilter(data, 'isBig(a)')\nprobe(114, arrayLength(r1))",
    "data = arrayNew(objectNew('a', 1), objectNew('a', 5), objectNew('a', 9))\nr1 = dataFilter(data, 'isBig(a + vv)', objectNew('vv', 1))\nprobe(115, arrayLength(r1))\nprobe(116, 0)",
    "data = arrayNew(objectNew('a', 1), objectNew('a', 5))\ndataCalculatedField(data, 'b', 'work(a)')\nprobe(117, 0)\ndataCalculatedField(data, 'c', 'work(a + vv)', objectNew('vv', 1))\nprobe(118, 0)",
    "l = arrayNew(objectNew('a', 1), objectNew('a', 2))\nr = arrayNew(objectNew('a', 1, 'b', 3), objectNew('a', 2, 'b', 4))\nj1 = dataJoin(l, r, 'addn(a, 0)')\nprobe(119, arrayLength(j1))\nj2 = dataJoin(l, r, 'addn(a, vv)', null, false, objectNew('vv', 0))\nprobe(120, arrayLength(j2))",
    # functions whose whole body is one return / nothing: every executed statement counts
    'a1 = one(1)\na2 = one(one(a1))\nnone()\nprobe(123, one(a2))\narr = arrayNew(3, 1, 2)\nprobe(124, arrayIndexOf(arr, one))\nprobe(125, none())',
    # never ending
    'i = 0\nwhile true:\n    probe(121, i)\n    i = i + 1\nendwhile',
    'function rec(n):\n    probe(122, n)\n    return rec(n + 1)\nendfunction\nrec(0)',
]


def include_programs(rnd):
    """nested includes: statements of included scripts count against the one budget (F8)"""
    leaf = 'probe(130, 1)\nprobe(131, work(2))\n'
    mid = "probe(132, 0)\ninclude 'sub/leaf.bare'\nprobe(133, 0)\nfunction midf():\n    probe(134, 0)\nendfunction\n"
    top = FUNCS % {'k': 2} + "probe(135, 0)\ninclude 'lib/mid.bare'\nprobe(136, 0)\nmidf()\ninclude 'lib/sub/leaf.bare'\nprobe(137, 0)\n"
    vfs = {'lib/mid.bare': mid, 'lib/sub/leaf.bare': leaf}
    # a partial (and a plain function value) created INSIDE an include and called from the including script and from a
    # library callback: its statements count against the same budget
    part = ("function incf(n, x):\n    probe(140, n)\n    t = n + x\n    probe(141, t)\n    return t > 3\nendfunction\n"
            "pinc = systemPartial(incf, 2)\nfval = incf\nprobe(142, pinc(0))\n")
    top2 = ("probe(143, 0)\ninclude 'lib/part.bare'\nprobe(144, pinc(1))\nprobe(145, pinc(5))\nprobe(146, fval(1, 1))\n"
            "arr = arrayNew(0, 1, 2, 3)\nprobe(147, arrayIndexOf(arr, pinc))\nprobe(148, arrayLastIndexOf(arr, systemPartial(pinc)))\nprobe(149, 0)\n")
    return [(top, vfs), (top2, {'lib/part.bare': part})]


def parse(text):
    return realrun.bare_script.parse_script(text)


def build(text, vfs, limit):
    inc = None
    if vfs is not None:
        inc = {'vfs': [{'url': A.cps(u), 'kind': 'text', 'text': t, 'model': A.amodel(parse(t))} for u, t in vfs.items()],
               'sys': [], 'hasSys': False, 'base': [], 'hasBase': False, 'hasFetch': True}
    script = parse(text)
    c = {'kind': 'script', 'model': A.amodel(script), 'real_model': script, 'globals': [realrun.host_global('probe')],
         'limit': limit, 'dbg': False, 'inc': inc, 'source': text}
    return realrun.observe(c)


def family_of(make, big=400, sweep=40, rnd=None):
    """make(limit) -> observed case; returns list of cases, reference first"""
    ref = make(0) if big is None else None
    if ref is None:
        ref = make(big)
        if ref['fin']['status'] != 'limit':
            ref = make(0)
    n = ref['fin']['cnt']
    if ref['limit'] == 0:
        ls = list(range(1, n + 3)) if n <= sweep else sorted(set(
            [1, 2, n - 1, n, n + 1, n + 2] + [rnd.randint(1, n) for _ in range(sweep // 2)]))
    else:
        ls = sorted(set([1, 2, 3, big - 1] + [rnd.randint(1, big - 1) for _ in range(12)]))
    return [ref] + [make(L) for L in ls]


def family_case(runs, source):
    def ev(e):
        e = dict(e)
        if e['ev'] == 'probe':
            a0 = e['args'][0] if e['args'] else None
            e['own'] = bool(a0 and a0.get('t') == 'num' and a0.get('f') == 'q' and a0['n'] >= 100)
        return e
    return {'source': source, 'runs': [{'L': r['limit'], 'trace': [ev(e) for e in r['trace']],
                                        'fin': {k: r['fin'][k] for k in ('status', 'arg', 'ret', 'cnt', 'globals')}}
                                       for r in runs]}


def fam_canaries(fc):
    out = []
    c = json.loads(json.dumps(fc))
    if len(c['runs']) > 2:
        c['runs'][-1]['fin']['cnt'] += 1
        out.append(c)
    c = json.loads(json.dumps(fc))
    for r in c['runs'][1:]:
        if r['fin']['status'] == 'limit' and r['trace']:
            r['trace'][-1] = {'ev': 'log', 'text': [120]}
            out.append(c)
            break
    return out


def apalache_inductive(ctx):
    """unbounded argument for the exactness clause: IndInv of spec/BudgetInd.tla is inductive (Apalache)"""
    import os
    import shutil
    import subprocess
    exe = shutil.which('apalache-mc')
    if exe is None:
        ctx.mc_runs.append({'module': 'BudgetInd', 'engine': 'apalache', 'ok': None, 'note': 'apalache-mc not installed: skipped'})
        return
    ok = True
    for tag, init, length in (('base', 'Init', 0), ('step', 'IndInit', 1)):
        out_dir = os.path.join(ctx.work, 'apalache_' + tag)
        try:
            p = subprocess.run([exe, 'check', f'--init={init}', '--inv=IndInv', f'--length={length}', f'--out-dir={out_dir}', 'BudgetInd.tla'],
                               cwd=tlc.SPEC_DIR, stdout=subprocess.PIPE, stderr=subprocess.STDOUT, text=True, timeout=600)
        except subprocess.TimeoutExpired:
            raise tlc.MachineryError('apalache timed out on BudgetInd')
        good = 'EXITCODE: OK' in p.stdout
        if not good and 'violat' not in p.stdout.lower() and 'EXITCODE: ERROR (12)' not in p.stdout:
            raise tlc.MachineryError('apalache failed on BudgetInd: ' + p.stdout[-600:])
        ok = ok and good
        shutil.rmtree(out_dir, ignore_errors=True)
    ctx.mc_runs.append({'module': 'BudgetInd', 'engine': 'apalache', 'obligations': ['Init => IndInv', 'IndInv /\\ Next => IndInv\''], 'ok': ok})
    if not ok:
        ctx.violation('design-level: the budget invariant is not inductive (BudgetInd)', {'property': ctx.pid, 'mc': 'BudgetInd'})


def run(ctx, replay=None):
    rnd = random.Random(ctx.seed)
    if replay is not None:
        if 'family' in replay:
            src = replay['family']
            fam = family_of(lambda L: build(src['text'], src.get('vfs'), L), rnd=rnd)
            F.judge(ctx, 'Trace_Budget', [family_case(fam, src)], None, tag='fam', key_fields=('source',))
            F.judge(ctx, 'Trace_Core', fam, None, invariants=c08.INVS, describe=c08.describe)
        else:
            case = c08.make_case(replay['case']['model'], replay['case']['limit'], False, replay['case']['globals'], twice=False)
            F.judge(ctx, 'Trace_Core', [case], None, invariants=c08.INVS, describe=c08.describe)
        return F.finish(ctx, rule='replay')

    # ---- leg A
    for n, lim in ctx.pick(((2, 1), (2, 5), (3, 12)), ((3, 1), (3, 7), (4, 25))):
        r = tlc.check_model('MC_Jump', MC_JUMP_CFG % (n, lim), ctx.work, tag=f'jN{n}L{lim}')
        ctx.mc_runs.append({'module': 'MC_Jump', 'N': n, 'Limit': lim, 'states': r['states'], 'ok': r['ok']})
        ctx.add_stats(r)
        if not r['ok']:
            ctx.violation('design-level: MC_Jump budget property violated', {'property': ctx.pid, 'mc': 'MC_Jump', 'out': r['out'][-3000:]})
    n, maxl = ctx.pick((3, 8), (4, 10))
    r = tlc.check_model('MC_Budget', MC_BUDGET_CFG % (n, maxl), ctx.work, tag='budget', timeout=3400)
    ctx.mc_runs.append({'module': 'MC_Budget', 'N': n, 'MaxL': maxl, 'states': r['states'], 'ok': r['ok']})
    ctx.add_stats(r)
    if not r['ok']:
        ctx.violation('design-level: MC_Budget self-composition violated', {'property': ctx.pid, 'mc': 'MC_Budget', 'out': r['out'][-3000:]})
    alpha = tlc.printed_json(r['out'], 'ALPHABET')[0]
    apalache_inductive(ctx)

    # ---- leg B/C
    families = []
    core_cases = []

    def add_family(fam, src):
        families.append(family_case(fam, src))
        core_cases.extend(fam)

    # jump-level lists: exhaustive length <= 2 (quick) / 3 (thorough), sampled beyond, random models
    progs = []
    for k in range(1, ctx.pick(2, 3) + 1):
        progs.extend([alpha[i] for i in ix] for ix in itertools.product(range(len(alpha)), repeat=k))
    progs.extend([alpha[rnd.randrange(len(alpha))] for _ in range(rnd.choice([3, 4, 5, 6]))] for _ in range(ctx.pick(150, 3000)))
    progs.extend(gen_jump.rmodel(rnd, maxlen=rnd.choice([6, 14]), ops=['+', '-', '<', '==', '&&', '||']) for _ in range(ctx.pick(150, 3000)))
    for m in progs:
        pre = rnd.random() < 0.3      # some families re-use one options object: a run before the observed one
        fam = family_of(lambda L, m=m, pre=pre: c08.make_case(m, L, twice=False, prerun=pre), big=120, sweep=ctx.pick(30, 60), rnd=rnd)
        add_family(fam, {'model': A.jump_text(m)})
    # structured programs through the real parser
    nbody = 0
    for body in BODIES:
        for k, j in ctx.pick(((2, 3),), ((1, 2), (2, 3), (3, 5), (6, 1))):
            text = FUNCS % {'k': k} + body % {'k': k, 'j': j} + '\n'
            fam = family_of(lambda L, text=text: build(text, None, L), big=150, sweep=ctx.pick(40, 120), rnd=rnd)
            add_family(fam, {'text': text})
            nbody += 1
    for text, vfs in include_programs(rnd):
        fam = family_of(lambda L, text=text, vfs=vfs: build(text, vfs, L), big=150, sweep=ctx.pick(40, 120), rnd=rnd)
        add_family(fam, {'text': text, 'vfs': vfs})

    F.judge(ctx, 'Trace_Budget', families, fam_canaries, tag='fam', key_fields=('source',),
            describe=lambda f: {'source': f['source'], 'limits': [r['L'] for r in f['runs']][:12],
                                'reference_count': f['runs'][0]['fin']['cnt']})
    for c in core_cases:
        c.pop('source', None)
    F.judge(ctx, 'Trace_Core', core_cases, c08.canaries, invariants=c08.INVS, describe=c08.describe,
            nontrivial=lambda c: c['fin']['cnt'] > 1)
    lim_hits = sum(1 for c in core_cases if c['fin']['status'] == 'limit')
    if not lim_hits or not any(c['limit'] == 0 for c in core_cases):
        ctx.vacuous('vacuity: no aborted run or no unlimited run in the sample')
    ctx.notes['families'] = len(families)
    ctx.notes['runs_aborted_at_limit'] = lim_hits
    ctx.notes['structured_programs'] = nbody
    return F.finish(ctx, rule='program families: one program x every limit 1..N+2 (sampled for N > sweep) and 0; programs = '
                    'all MC_Jump statement lists up to a length + random jump models + loop/recursion/callback/data-helper/'
                    'include programs; each run validated against Trace_Core (exact counters), each family against '
                    'Trace_Budget (Exact/Monotone/Complete/Prefix); non-trivial = more than one statement started',
                    exhaustive=False)
