"""C16 - datetime construction, arithmetic and ISO text are correct in any time zone.

leg A  MC_Datetime: calendar arithmetic self-consistency (CivilFromDays / DaysFromCivil inverse, the code-shaped
       month-by-month roll-over equals Normalize on a boundary grid, zone conversion round trip around a gap, a fold
       and a 30-minute rule).
leg B/C  one subprocess per TZ in {UTC, America/New_York, Europe/London, Asia/Kolkata, Asia/Kathmandu,
       Australia/Lord_Howe, Pacific/Chatham, Etc/GMT+12}; the zone table (transitions 1900-2100, whole-minute
       offsets) is extracted with zoneinfo and handed to TLC inside the cases; datetimeNew + getters, d + n - d,
       ISO format / parse around every transition, ISO texts and near-misses (Trace_Datetime)."""
import json
import os
import random
import subprocess
import sys
from concurrent.futures import ThreadPoolExecutor

from .. import framework as F
from .. import tlc
from .. import abstraction as A

ZONES = ['UTC', 'America/New_York', 'Europe/London', 'Asia/Kolkata', 'Asia/Kathmandu', 'Australia/Lord_Howe', 'Pacific/Chatham', 'Etc/GMT+12']
MC_CFG = 'SPECIFICATION Spec\nINVARIANT RollOver\nINVARIANT Inverse\nINVARIANT ZoneRoundTrip\nCHECK_DEADLOCK FALSE\n'


def worker(tz, seed, count):
    env = dict(os.environ)
    env['TZ'] = tz
    p = subprocess.run([sys.executable, '-m', 'harness.tzworker', tz, str(seed), str(count)], cwd=tlc.VERIF, env=env,
                       stdout=subprocess.PIPE, stderr=subprocess.PIPE, text=True, timeout=3000)
    if p.returncode != 0:
        raise tlc.MachineryError(f'tzworker {tz} failed: {p.stderr[-800:]}')
    return json.loads(p.stdout)


def canaries(case):
    c = json.loads(json.dumps(case))
    if case['kind'] == 'new' and case['res'].get('t') == 'dt':
        c['res']['d'] += 1
        return [c]
    if case['kind'] == 'addsub' and case['sum'].get('t') == 'dt':
        c['sum']['ms'] = (c['sum']['ms'] + 1) % 86400000
        return [c]
    if case['kind'] == 'iso' and case['back'].get('t') == 'dt' and case['text'] and case['back'] == case['d']:  # not a gap time (the law says nothing there)
        c['back']['ms'] = (c['back']['ms'] + 60000) % 86400000
        c2 = json.loads(json.dumps(case))
        c2['text'][-1] = 57 if c2['text'][-1] != 57 else 56
        return [c, c2]
    if case['kind'] == 'isotext' and case['back'].get('t') == 'dt':
        c['back'] = {'t': 'null'}
        return [c]
    return []


def run(ctx, replay=None):
    if replay is not None:
        F.judge(ctx, 'Trace_Datetime', [replay['case']], None, key_fields=('kind', 'tz', 'args', 'd', 'n', 'text'))
        return F.finish(ctx, rule='replay (recorded case re-judged)')
    r = tlc.check_model('MC_Datetime', MC_CFG, ctx.work, tag='datetime', timeout=3400)
    ctx.mc_runs.append({'module': 'MC_Datetime', 'states': r['states'], 'ok': r['ok'], 'seconds': round(r['seconds'], 1)})
    ctx.add_stats(r)
    if not r['ok']:
        ctx.violation('design-level: MC_Datetime violated', {'property': ctx.pid, 'mc': 'MC_Datetime', 'out': r['out'][-3000:]})
    count = ctx.pick(700, 4000)
    with ThreadPoolExecutor(max_workers=8) as ex:
        batches = list(ex.map(lambda tz: worker(tz, ctx.seed, count), ZONES))
    cases = [c for b in batches for c in b]
    F.judge(ctx, 'Trace_Datetime', cases, canaries, key_fields=('kind', 'tz', 'args', 'd', 'n', 'text'),
            describe=lambda c: {k: c[k] for k in ('kind', 'tz', 'args', 'd', 'n', 'res', 'sum', 'back') if k in c} | {'text': A.uncps(c['text'])},
            nontrivial=lambda c: True, timeout=3400)
    ctx.notes['zones'] = {b[0]['tz']: {'cases': len(b), 'transitions': len(b[0]['zone'])} for b in batches if b}
    return F.finish(ctx, rule='per zone: datetimeNew over boundary and random components (years 100-9000, months -30..40, days +-10000, time '
                    'components +-5000, int and float spellings) with all getters; d + n - d with |n| <= 1e12; ISO format/parse at +-3h '
                    'around every transition 1921-2099 and at random; ISO texts incl. invalid calendar dates, bad field ranges, missing '
                    'offsets, odd offsets', exhaustive=False)
