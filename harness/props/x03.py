"""X03 (coverage beyond the listed properties) - the documentation tool bare_script.baredoc.main.

leg A  MC_Doc: every source of <= N lines over the line alphabet, as one file or split in two at every position, stepped by
       the BareDoc machine one line per TLC step (NamesUnique, NoLeadingBlank, CurValid, OutputSound; ErrorsGrow,
       FunctionsGrow, OneEffect, GroupSetOnce).
leg B  the same family (alphabet obtained from TLC) through the REAL main() in a scratch directory; every run validated
       against Trace_Doc line by line.
leg C  random sources written character by character (comment markers, blanks, keywords and near-keywords, names, colons),
       1-3 files, missing files, output to stdout or to a file."""
import contextlib
import io
import itertools
import json
import os
import random
import re
import shutil
import tempfile

from .. import framework as F
from .. import tlc
from .. import abstraction as A

MC_CFG = '''SPECIFICATION Spec
CONSTANT N = %d
INVARIANT NamesUnique
INVARIANT NoLeadingBlank
INVARIANT CurValid
INVARIANT OutputSound
PROPERTY ErrorsGrow
PROPERTY FunctionsGrow
PROPERTY OneEffect
PROPERTY GroupSetOnce
CHECK_DEADLOCK FALSE
'''
ERRS = [
    (re.compile(r'^Failed to load "(.*)"$'), 'load'),
    (re.compile(r'^(.*?):(\d+): (function|group|doc|return) keyword outside function$'), 'outside'),
    (re.compile(r'^(.*?):(\d+): Invalid function group name "(.*)"$'), 'badgroup'),
    (re.compile(r'^(.*?):(\d+): Function "(.*)" group redefinition$'), 'groupredef'),
    (re.compile(r'^(.*?):(\d+): Invalid function name "(.*)"$'), 'badname'),
    (re.compile(r'^(.*?):(\d+): Function "(.*)" redefinition$'), 'redef'),
    (re.compile(r'^(.*?):(\d+): Function argument "(.*)" outside function$'), 'argoutside'),
    (re.compile(r'^(.*?):(\d+): Invalid documentation comment "(.*)"$'), 'unknown'),
    (re.compile(r'^error: No library functions$'), 'nofuncs'),
    (re.compile(r'^error: Function "(.*)" missing group$'), 'missinggroup'),
    (re.compile(r'^error: Function "(.*)" missing documentation$'), 'missingdoc'),
]


def classify_error(line):
    for rx, kind in ERRS:
        m = rx.match(line)
        if m:
            g = m.groups()
            if kind == 'load':
                return {'file': A.cps(g[0]), 'line': 0, 'kind': kind, 'arg': A.cps(g[0])}
            if kind in ('nofuncs',):
                return {'file': [], 'line': 0, 'kind': kind, 'arg': []}
            if kind in ('missinggroup', 'missingdoc'):
                return {'file': [], 'line': 0, 'kind': kind, 'arg': A.cps(g[0])}
            return {'file': A.cps(g[0]), 'line': int(g[1]), 'kind': kind, 'arg': A.cps(g[2])}
    return {'file': [], 'line': -1, 'kind': 'unparsed', 'arg': A.cps(line[:80])}


def norm_func(f):
    return {'name': A.cps(f.get('name', '')), 'hasGroup': 'group' in f, 'group': A.cps(f.get('group', '')),
            'doc': [A.cps(t) for t in f.get('doc', [])], 'ret': [A.cps(t) for t in f.get('return', [])],
            'args': [{'name': A.cps(a['name']), 'doc': [A.cps(t) for t in a['doc']]} for a in f.get('args', [])]}


def run_real(files, to_file=False):
    from bare_script import baredoc
    tmp = tempfile.mkdtemp(prefix='x03_')
    cwd = os.getcwd()
    argv = []
    try:
        os.chdir(tmp)
        for f in files:
            name = A.uncps(f['name'])
            argv.append(name)
            if not f['missing']:
                with open(name, 'w', encoding='utf-8', newline='') as fh:
                    fh.write(f.get('eol', '\n').join(A.uncps(ln) for ln in f['lines']))
        if to_file:
            argv += ['-o', 'out.json']
        buf = io.StringIO()
        status, raised = 0, ''
        try:
            with contextlib.redirect_stdout(buf), contextlib.redirect_stderr(io.StringIO()):
                baredoc.main(argv)
        except SystemExit as exc:
            status = exc.code if isinstance(exc.code, int) else (0 if exc.code is None else -1)
        except BaseException as exc:  # pylint: disable=broad-except
            raised = f'{type(exc).__name__}: {exc}'[:200]
        out = buf.getvalue()
        if to_file and status == 0 and not raised:
            if out.strip():
                raised = 'output was asked to go to a file but something was printed'
            elif os.path.exists('out.json'):
                out = open('out.json', encoding='utf-8').read()
            else:
                raised = 'output file was not written'
    finally:
        os.chdir(cwd)
        shutil.rmtree(tmp, ignore_errors=True)
    errors, funcs = [], []
    if not raised:
        if status == 0:
            try:
                lib = json.loads(out)
                funcs = [norm_func(f) for f in lib['functions']]
                if set(lib) != {'functions'}:
                    raised = 'unexpected members in the library model'
            except Exception as exc:  # pylint: disable=broad-except
                raised = f'output is not the library model: {exc}'[:200]
        else:
            lines = out.split('\n')
            if lines and lines[-1] == '':
                lines.pop()
            errors = [classify_error(ln) for ln in lines]
    return {'status': status, 'errors': errors, 'funcs': funcs, 'raised': raised, 'stdout': out[:1500]}


def make_case(files, to_file=False):
    files = json.loads(json.dumps(files))
    return {'files': files, 'obs': run_real(files, to_file), 'toFile': to_file}


def rline(rnd):
    r = rnd.random()
    if r < 0.12:
        return rnd.choice(['x = 1', '', 'function f():', '# plain comment', '// plain', '#', '$doc: not a comment', '# doc: no dollar'])
    ind = rnd.choice(['', '', '  ', '\t'])
    cm = rnd.choice(['#', '#', '//'])
    sp = rnd.choice(['', ' ', ' ', '  '])
    if r < 0.34:
        kw = 'function'
        text = rnd.choice(['f1', 'f2', 'g', ' f1 ', 'f3  ', '', ' ', 'two words', 'f2'])
    elif r < 0.46:
        kw = 'group'
        text = rnd.choice(['G', 'Group Two', '', '  ', ' G '])
    elif r < 0.64:
        kw = rnd.choice(['doc', 'doc', 'return'])
        text = rnd.choice(['text', '', ' ', '  indented', 'more: text', 'a $doc: inside'])
    elif r < 0.84:
        name = rnd.choice(['a', 'a', 'b_1', 'rest...', '_x', '1x', 'a b', 'a..', ''])
        text = rnd.choice(['the arg', '', ' ', 'more', ' spaced'])
        return ind + cm + sp + '$arg' + rnd.choice([' ', '  ', '\t', '']) + name + ':' + rnd.choice([' ', ' ', '', '  ']) + text
    else:
        kw = rnd.choice(['functions', 'docs', 'Function', 'bogus', 'arg', 'ret urn', 'group ', ''])
        text = rnd.choice(['z', '', 'x: y'])
    return ind + cm + sp + '$' + kw + rnd.choice([':', ':', ':', '', ' :']) + rnd.choice([' ', ' ', '', '  ']) + text


def valid_block(rnd, names):
    """a well-formed function block (with occasional noise), the way library sources are written"""
    cm = rnd.choice(['#', '//'])
    name = rnd.choice([n for n in ['f1', 'f2', 'g', 'zeta', 'Alpha', 'f10'] if n not in names] or ['f1'])
    names.add(name)
    out = [f'{cm} $function: {name}', f'{cm} $group: {rnd.choice(["G", "Group Two"])}']
    for _ in range(rnd.randint(1, 3)):
        out.append(f'{cm} $doc:{rnd.choice([" text", " more text", "", "   indented", " a: b"])}')
    for a in rnd.sample(['a', 'b_1', 'rest...'], rnd.randint(0, 3)):
        for _ in range(rnd.randint(1, 2)):
            out.append(f'{cm} $arg {a}:{rnd.choice([" the arg", " more", "", "  x"])}')
    if rnd.random() < 0.6:
        out.append(f'{cm} $return:{rnd.choice([" the result", "", " r"])}')
    out.append(f'function {name}():')
    if rnd.random() < 0.25:
        out.insert(rnd.randint(0, len(out)), rline(rnd))
    return out


def rfiles(rnd):
    files = []
    names = set()
    mostly_valid = rnd.random() < 0.5
    for k in range(rnd.randint(1, 3)):
        missing = rnd.random() < (0.03 if mostly_valid else 0.08)
        if mostly_valid:
            lines = [ln for _ in range(rnd.randint(0 if k else 1, 3)) for ln in valid_block(rnd, names)]
        else:
            lines = [rline(rnd) for _ in range(rnd.randint(0, 9))]
        if missing:
            lines = []
        files.append({'name': A.cps('abc'[k] + '.bare'), 'missing': missing, 'lines': [A.cps(ln) for ln in lines],
                      'eol': rnd.choice(['\n', '\n', '\r\n'])})
    return files


def one(files, to_file):
    return make_case(files, to_file)


def canaries(case):
    out = []
    c = json.loads(json.dumps(case))
    c['obs']['status'] = 1 - c['obs']['status'] if c['obs']['status'] in (0, 1) else 0
    out.append(c)
    if case['obs']['errors']:
        c = json.loads(json.dumps(case))
        c['obs']['errors'][-1]['line'] += 1
        out.append(c)
        c = json.loads(json.dumps(case))
        c['obs']['errors'].pop()
        out.append(c)
    if case['obs']['funcs']:
        c = json.loads(json.dumps(case))
        c['obs']['funcs'][0]['doc'] = c['obs']['funcs'][0]['doc'] + [[33]]
        out.append(c)
    return out


def describe(c):
    return {'files': [{'name': A.uncps(f['name']), 'missing': f['missing'], 'lines': [A.uncps(ln) for ln in f['lines']]} for f in c['files']],
            'status': c['obs']['status'], 'stdout': c['obs']['stdout'][:300]}


def run(ctx, replay=None):
    if replay is not None:
        rc = replay['case']
        F.judge(ctx, 'Trace_Doc', [make_case(rc['files'], rc.get('toFile', False))], None, invariants=('NamesUnique', 'CurValid'),
                describe=describe, key_fields=('files',))
        return F.finish(ctx, rule='replay')
    rnd = random.Random(ctx.seed)
    n = ctx.pick(3, 4)
    r = tlc.check_model('MC_Doc', MC_CFG % n, ctx.work, tag='doc')
    ctx.mc_runs.append({'module': 'MC_Doc', 'N': n, 'states': r['states'], 'ok': r['ok'], 'seconds': round(r['seconds'], 1)})
    ctx.add_stats(r)
    if not r['ok']:
        ctx.violation('design-level: MC_Doc property violated', {'property': ctx.pid, 'mc': 'MC_Doc', 'out': r['out'][-3000:]})
    alpha = tlc.printed_json(r['out'], 'DOCALPHABET')
    if not alpha:
        raise tlc.MachineryError('MC_Doc did not print its alphabet')
    alpha = alpha[0]
    jobs = []
    nb = ctx.pick(3, 4)
    for k in range(0, nb + 1):
        for src in itertools.product(range(len(alpha)), repeat=k):
            lines = [alpha[i] for i in src]
            jobs.append(([{'name': A.cps('a'), 'missing': False, 'lines': lines}], False))
            if k >= 2:
                cut = rnd.randint(1, k - 1)
                jobs.append(([{'name': A.cps('a'), 'missing': False, 'lines': lines[:cut]},
                              {'name': A.cps('b'), 'missing': False, 'lines': lines[cut:]}], False))
    nfam = len(jobs)
    jobs += [(rfiles(rnd), rnd.random() < 0.2) for _ in range(ctx.pick(4000, 80000))]
    cases = F.pmap(one, jobs)
    F.judge(ctx, 'Trace_Doc', cases, canaries, invariants=('NamesUnique', 'CurValid'), describe=describe, key_fields=('files', 'toFile'),
            nontrivial=lambda c: sum(len(f['lines']) for f in c['files']) > 1)
    kinds = {'ok': 0}
    for c in cases:
        if c['obs']['status'] == 0:
            kinds['ok'] += 1
        for e in c['obs']['errors']:
            kinds[e['kind']] = kinds.get(e['kind'], 0) + 1
    ctx.notes['outcomes'] = kinds
    ctx.notes['family'] = f'{nfam} sources of <= {nb} lines over the {len(alpha)}-line alphabet of MC_Doc (one file and split in two)'
    for need in ('ok', 'load', 'outside', 'badgroup', 'groupredef', 'badname', 'redef', 'argoutside', 'unknown', 'nofuncs', 'missinggroup', 'missingdoc'):
        if not kinds.get(need):
            ctx.vacuous(f'vacuity: no run with outcome {need}')
    return F.finish(ctx, rule='sources over the MC_Doc line alphabet (exhaustive to length n; one file / two files) plus random sources '
                    'written character by character (comment markers, blanks, keywords and near-keywords, argument names, colons), '
                    '1-3 files, missing files, LF / CRLF, stdout or -o file; each run through the real baredoc main() and validated '
                    'against the BareDoc machine line by line', exhaustive=True)
