"""C19 - data functions implement their relational meaning; CSV typing round-trips.

Recorded calls of the real dataFilter / dataCalculatedField / dataTop / dataAggregate / dataJoin / dataParseCSV
(through the script-function wrappers, counts as floats) on tables up to 12 rows x 5 fields with duplicate keys,
nulls, mixed key types, colliding field names (a, a2, a3), key strings containing JSON punctuation, datetimes next
to their own ISO text; TLC evaluates the relational definitions of Trace_Data on the recorded inputs and outputs
(expressions are evaluated by BareCore.Eval).  dataSort is judged with the row comparator law of Trace_Compare (kind "datasort"), here and in C11."""
import copy
import csv
import datetime
import io
import json
import random

from .. import framework as F
from .. import realrun, tlc
from .. import abstraction as A

FIELDS = ['a', 'b', 'k', 'a2', 'c']
KEYS = ['x', 'y', 'x,y', 'etc., z', '1.0]', '{"q":1.0}', '', 'x']
DT = datetime.datetime(2024, 3, 4, 5, 6, 7)
MIXED = [1, 1.0, '1', True, None, DT, '2024-03-04T05:06:07+00:00', 2, 'x', [1], [1.0]]
BASE = {'kind': '', 'rows': [], 'out': [], 'perm': [], 'expr': A.NULLVAR, 'vars': {'t': 'null'}, 'names': {}, 'field': [], 'count': 1, 'cats': [],
        'measures': [], 'left': [], 'right': [], 'lexpr': A.NULLVAR, 'rexpr': A.NULLVAR, 'isLeft': False, 'parsed': {'t': 'null'}, 'status': 'done',
        'text': ''}


def rand_table(rnd, nmax=12, mixed=False):
    rows = []
    for _ in range(rnd.randint(0, nmax)):
        r = {}
        for f in FIELDS:
            p = rnd.random()
            if p < 0.12:
                continue
            if f == 'k':
                r[f] = rnd.choice(KEYS)
            elif f == 'c' and mixed:
                r[f] = copy.deepcopy(rnd.choice(MIXED))
            else:
                r[f] = rnd.choice([0, 1, 2, 3, 1.5, 2.5, None, 1, 2])
        rows.append(r)
    return rows


def collide(rnd, rows):
    """rows whose TWO category values differ only in where a separator-looking text falls: (k, c) = ('a,string:b', 'c') and
    ('a', 'b,string:c') are different categories"""
    sep = rnd.choice([',string:', ',', '","', ':'])
    extra = [{'k': 'a' + sep + 'b', 'c': 'c', 'a': 1, 'b': 2}, {'k': 'a', 'c': 'b' + sep + 'c', 'a': 3, 'b': 4},
             {'k': 'a' + sep + 'b', 'c': 'c', 'a': 5, 'b': 6}]
    rows = list(rows) + extra
    rnd.shuffle(rows)
    return rows, ['k', 'c']


def names_of(*tables, extra=()):
    n = set(extra)
    for t in tables:
        for r in t:
            n.update(r)
    return {x: A.cps(x) for x in n if x}


def call(name, args, globs=None):
    from bare_script.library import SCRIPT_FUNCTIONS as SF
    from bare_script.value import ValueArgsError
    try:
        return 'done', SF[name](args, {'globals': globs if globs is not None else {}, 'statementCount': 0})
    except ValueArgsError as exc:
        return 'done', exc.return_value
    except Exception as exc:  # pylint: disable=broad-except
        return f'failed: {type(exc).__name__}: {exc}'[:150], None


def aexpr_of(text):
    from bare_script import parse_expression
    return A.aexpr(parse_expression(text))


FILTERS = [('a > 1', None), ('a == b', None), ("k == 'x,y'", None), ('a + vv > 2', {'vv': 1}), ('len(k) > 1', None), ('!a', None), ('a', None),
           ('b', None), ("k == 'etc., z' || a2 == 2", None), ('a >= vv && b < 3', {'vv': 1.5}), ('a2', None), ("k + '!' == 'x!'", None)]
CALCS = [('z', 'a + 1', None), ('a', 'a * 2', None), ('z', "k + '!'", None), ('z', "if(a > 1, 'big', 'small')", None), ('a2', 'a + vv', {'vv': 10}),
         ('z', 'a == b', None), ('z', 'abs(a - 3)', None), ('b', 'null', None)]
JOINS = [('a', None, None), ('a', 'a2', None), ('k', None, None), ('a + vv', 'a', {'vv': 1}), ('a', 'a - vv', {'vv': 1}), ('c', None, None)]


def one_case(seed):
    rnd = random.Random(seed)
    kind = rnd.choice(['filter', 'calc', 'top', 'top', 'aggregate', 'aggregate', 'join', 'join', 'csv'])
    c = copy.deepcopy(BASE)
    c['kind'] = kind
    if kind == 'filter':
        rows = rand_table(rnd)
        text, vs = rnd.choice(FILTERS)
        ids = {id(r): i + 1 for i, r in enumerate(rows)}
        c['rows'] = [A.aval(r) for r in rows]
        st, out = call('dataFilter', [rows, text] + ([vs] if vs else []))
        c.update({'status': st, 'expr': aexpr_of(text), 'vars': A.aval(vs), 'names': names_of(rows, extra=(vs or {})), 'text': text})
        if isinstance(out, list):
            c['out'] = [A.aval(r) for r in out]
            c['perm'] = [ids.get(id(r), 0) for r in out]
        elif st == 'done':
            c['status'] = 'returned ' + repr(out)[:60]
    elif kind == 'calc':
        rows = rand_table(rnd)
        field, text, vs = rnd.choice(CALCS)
        c['rows'] = [A.aval(r) for r in rows]
        st, out = call('dataCalculatedField', [rows, field, text] + ([vs] if vs else []))
        c.update({'status': st, 'expr': aexpr_of(text), 'vars': A.aval(vs), 'names': names_of(rows, extra=(vs or {})), 'field': A.cps(field), 'text': text})
        if isinstance(out, list):
            c['out'] = [A.aval(r) for r in out]
        elif st == 'done':
            c['status'] = 'returned ' + repr(out)[:60]
    elif kind == 'top':
        rows = rand_table(rnd, mixed=True)
        cats = rnd.sample(FIELDS, rnd.randint(0, 2))
        if rnd.random() < 0.15:
            rows, cats = collide(rnd, rows)
        count = rnd.randint(1, 3)
        ids = {id(r): i + 1 for i, r in enumerate(rows)}
        c['rows'] = [A.aval(r) for r in rows]
        st, out = call('dataTop', [rows, float(count)] + ([cats] if cats else []))
        c.update({'status': st, 'count': count, 'cats': [A.cps(x) for x in cats]})
        if isinstance(out, list):
            c['out'] = [A.aval(r) for r in out]
            c['perm'] = [ids.get(id(r), 0) for r in out]
        elif st == 'done':
            c['status'] = 'returned ' + repr(out)[:60]
    elif kind == 'aggregate':
        rows = rand_table(rnd, mixed=True)
        cats = rnd.sample(['k', 'c', 'a2', 'b'], rnd.randint(0, 2))
        if rnd.random() < 0.15:
            rows, cats = collide(rnd, rows)
        ms = []
        for i in range(rnd.randint(1, 3)):
            fn = rnd.choice(['count', 'sum', 'min', 'max', 'average', 'stddev'])
            ms.append({'field': rnd.choice(['a', 'b']), 'function': fn, 'name': f'm{i}'})
        agg = {'measures': ms}
        if cats:
            agg['categories'] = cats
        c['rows'] = [A.aval(r) for r in rows]
        st, out = call('dataAggregate', [rows, agg])
        c.update({'status': st, 'cats': [A.cps(x) for x in cats],
                  'measures': [{'field': A.cps(m['field']), 'fn': m['function'], 'name': A.cps(m['name'])} for m in ms]})
        if isinstance(out, list):
            c['out'] = [A.aval(r) for r in out]
        elif st == 'done':
            c['status'] = 'returned ' + repr(out)[:60]
    elif kind == 'join':
        left = rand_table(rnd, 6, mixed=True)
        right = rand_table(rnd, 6, mixed=True)
        if rnd.random() < 0.5:
            for r in right:
                if 'a' in r and rnd.random() < 0.5:
                    r['a3'] = r['a']
        lt, rt, vs = rnd.choice(JOINS)
        is_left = rnd.random() < 0.4
        c['left'] = [A.aval(r) for r in left]
        c['right'] = [A.aval(r) for r in right]
        args = [left, right, lt, rt, is_left] + ([vs] if vs else [])
        st, out = call('dataJoin', args)
        c.update({'status': st, 'lexpr': aexpr_of(lt), 'rexpr': aexpr_of(rt or lt), 'vars': A.aval(vs), 'isLeft': is_left,
                  'names': names_of(left, right, extra=(vs or {}))})
        if isinstance(out, list):
            c['out'] = [A.aval(r) for r in out]
        elif st == 'done':
            c['status'] = 'returned ' + repr(out)[:60]
    else:
        cols = rnd.sample(['n', 's', 'b', 'd', 'm'], rnd.randint(1, 4))
        rows = []
        for _ in range(rnd.randint(1, 8)):
            r = {}
            for col in cols:
                if rnd.random() < 0.15:
                    r[col] = None
                elif col == 'n':
                    r[col] = rnd.choice([0, 1, -2, 1.5, 1000000, 2.25, 1e21, 0.001])
                elif col == 's':
                    r[col] = rnd.choice(['x', 'a,b', 'say "hi"', 'x y', 'O\'Neil', 'True', 'FALSE', 'tRue', 'NULL', 'Null', 'back\\slash', 'ends with \\', '\\', 'a\\"b', '2024-02-30', '2023-13-01', '2024-02-30T10:00:00Z', '2023-04-31T00:00:00+02:00', '2024-01-01T24:30:00Z', '2024-06-01T10:61:00-05:00', 'twelve', '1.0]', 'etc., z', '12abc', 'tru'])
                elif col == 'b':
                    r[col] = rnd.choice([True, False])
                elif col == 'd':
                    r[col] = rnd.choice([datetime.datetime(2024, 2, 29), datetime.datetime(2024, 3, 4, 5, 6, 7), datetime.datetime(1999, 12, 31, 23, 59, 59, 123000)])
                else:
                    r[col] = rnd.choice(['2024-02-30', 'x1', 'zz'])
            rows.append(r)
        # the first non-null cell of a column fixes its type: make sure a string column starts with a non-date-like
        # string only when the test is not about date-like text (column m is: its first value may be 2024-02-30)
        buf = io.StringIO()
        w = csv.writer(buf, lineterminator='\n')
        w.writerow(cols)
        for r in rows:
            cells = []
            for col in cols:
                v = r[col]
                if v is None:
                    # an empty cell of a string column is the empty string; null is spelt "null" there
                    cells.append('null' if (col in ('s', 'm') or all(x[col] is None for x in rows)) else rnd.choice(['', 'null']))
                elif isinstance(v, bool):
                    cells.append('true' if v else 'false')
                elif isinstance(v, datetime.datetime):
                    cells.append(v.isoformat(timespec='milliseconds') + '+00:00' if (v.hour or v.microsecond) else v.date().isoformat())
                elif isinstance(v, float) and v == int(v) and abs(v) < 1e15:
                    cells.append(str(int(v)))
                else:
                    cells.append(str(v))
            w.writerow(cells)
        text = buf.getvalue()
        c['rows'] = [A.aval(r) for r in rows]
        st, out = call('dataParseCSV', [text] if rnd.random() < 0.7 else text.splitlines(keepends=True))
        c.update({'status': st, 'parsed': A.aval(out), 'text': text})
    return c


def canaries(case):
    c = json.loads(json.dumps(case))
    k = case['kind']
    if k in ('filter', 'top') and case['perm']:
        c['perm'] = c['perm'][:-1]
        c['out'] = c['out'][:-1]
        return [c]
    if k in ('calc', 'aggregate') and case['out']:
        c['out'] = c['out'][:-1]
        return [c]
    if k == 'join' and case['out']:
        # dropping a row could turn one allowed table (unmatched rows kept) into the other: corrupt a row instead
        c['out'][-1] = {'t': 'object', 'v': [{'key': A.cps('zz'), 'val': {'t': 'str', 'v': A.cps('corrupted')}}]}
        return [c]
    if k == 'csv' and case['parsed'].get('t') == 'array' and case['parsed']['v']:
        c['parsed']['v'][0] = {'t': 'object', 'v': []}
        return [c] if case['rows'][0]['v'] else []
    return []


def run(ctx, replay=None):
    rnd = random.Random(ctx.seed)
    if replay is not None:
        F.judge(ctx, 'Trace_Data', [replay['case']], None, key_fields=('kind', 'rows', 'left', 'right', 'text', 'cats', 'measures'))
        return F.finish(ctx, rule='replay (recorded case re-judged)')
    cases = F.pmap(one_case, [(ctx.seed * 7919 + i,) for i in range(ctx.pick(4000, 100000))])
    F.judge(ctx, 'Trace_Data', cases, canaries, key_fields=('kind', 'rows', 'left', 'right', 'text', 'cats', 'measures', 'count'),
            describe=lambda c: {k: c[k] for k in ('kind', 'text', 'count') if c.get(k)} | {'rows': len(c['rows']) or len(c['left'])},
            nontrivial=lambda c: bool(c['rows'] or c['left']))
    # dataSort: stably ordered by the keys and directions (law stated with Compare in Trace_Compare)
    from . import c11
    pool = c11.pool(rnd, 120)
    sorts = [c11.datasort_case(rnd, pool) for _ in range(ctx.pick(1500, 30000))]
    F.judge(ctx, 'Trace_Compare', sorts, c11.canaries, tag='sort', key_fields=('inp', 'fields'),
            describe=lambda c: {'kind': 'datasort', 'fields': c['fields'], 'rows': len(c['inp'])}, nontrivial=lambda c: len(c['inp']) > 1)
    kinds = {'datasort': len(sorts)}
    for c in cases:
        kinds[c['kind']] = kinds.get(c['kind'], 0) + 1
    ctx.notes['calls_by_function'] = kinds
    return F.finish(ctx, rule='random tables <= 12 rows x 5 fields (duplicate keys, nulls, mixed key types incl. a datetime next to its ISO '
                    'text, colliding names a/a2/a3, key strings with JSON punctuation), float counts, all six aggregate functions, '
                    'expression pools with and without variables; typed tables written as CSV incl. date-like invalid text')
