"""C14 - JSON serialisation is faithful: jsonParse(jsonStringify(v)) equals v.

leg A  MC_Json: the reference serialiser satisfies Acceptable and is injective on a bounded domain.
leg B  every string of length <= 4 over {a . 0 , ] }} as a value, as a key, nested in arrays / objects,
       x indent in {none, 1..8}: real jsonStringify -> TLC decides Acceptable(v, text) with the char-level
       JSON grammar of BareJson; jsonParse(text) and json.loads(text) must give back v (Trace_Json).
leg C  random values to depth 5 with quotes, backslashes, slashes, control characters, non-BMP code points
       and numbers from the C13 classes."""
import itertools
import json
import random

from .. import framework as F
from .. import tlc
from .. import abstraction as A

ALPHA = ['a', '.', '0', ',', ']', '}']
NASTY = ['"', '\\', '/', '\n', '\t', '\x00', '\x1f', '\x7f', 'é', ' ', '\U0001F600', ' ', ':', '[', '{', '.0', '.0]', '1.0,', 'e']
NUMS = [0, 1, -1, 2.5, -0.5, 100, 1e15, 1e16, 1.5e-7, 123456789012345678, 1e21, 5e-324, 1.7976931348623157e308, 0.1, 1 / 3, 2 ** 53,
        1000000.0, 1.0, -2.0, 12345.678,
        # fractions that start with zeros (".0" inside the number), small exponents, exponent texts
        1.05, 2.003, 10.01, 0.05, 100.001, 7.0625, 1e-7, 2e-5, 3.5e-10, 1e-05, 1.0e+22]
# strings / keys that look like pieces of numbers (a number clean-up must never reach inside a string)
NUMBERISH = ['NaN', 'Infinity', '-Infinity', 'is NaN?', 'null', 'true', '1e-07', 'version 2e-05', '3e-04', '1.0', 'v1.0]', '10.0e+01', '2.00', '-0.0', '1e+05', '5.0,', 'a.0e-03b']


def json_case(v, indent):
    from bare_script.library import SCRIPT_FUNCTIONS as SF
    import copy
    args = [copy.deepcopy(v)] + ([indent] if indent is not None else [])
    try:
        text = SF['jsonStringify'](args, None)
    except Exception:  # pylint: disable=broad-except
        text = None
    c = {'v': A.aval(v), 'indent': indent or 0, 'isText': isinstance(text, str), 'text': A.cps(text) if isinstance(text, str) else [],
         'back': {'t': 'null'}, 'std': {'t': 'null'}, 'fresh': True, 'shown': text if isinstance(text, str) else ''}
    if isinstance(text, str):
        try:
            c['back'] = A.aval(SF['jsonParse']([text], None))
        except Exception as exc:  # pylint: disable=broad-except
            c['back'] = {'t': 'alien', 'py': type(exc).__name__}
        # the result of jsonParse is FRESH: changing it does not change what parsing the same text gives next time
        try:
            first = SF['jsonParse']([text], None)
            if isinstance(first, list):
                first.append('changed')
            elif isinstance(first, dict):
                first['changed'] = 1
            c['fresh'] = A.aval(SF['jsonParse']([text], None)) == c['back']
        except Exception:  # pylint: disable=broad-except
            c['fresh'] = True
        try:
            c['std'] = A.aval(json.loads(text))
        except Exception as exc:  # pylint: disable=broad-except
            c['std'] = {'t': 'alien', 'py': type(exc).__name__}
    return c


def rand_value(rnd, d):
    r = rnd.random()
    if d <= 0 or r < 0.45:
        c = rnd.random()
        if c < 0.1:
            return None
        if c < 0.2:
            return rnd.choice([True, False])
        if c < 0.5:
            return rnd.choice(NUMS)
        if c < 0.58:
            return rnd.choice(NUMBERISH)
        return ''.join(rnd.choice(ALPHA + NASTY) for _ in range(rnd.randint(0, 6)))
    if r < 0.72:
        return [rand_value(rnd, d - 1) for _ in range(rnd.randint(0, 4))]
    return {(rnd.choice(NUMBERISH) if rnd.random() < 0.1 else ''.join(rnd.choice(ALPHA + NASTY) for _ in range(rnd.randint(0, 4)))): rand_value(rnd, d - 1)
            for _ in range(rnd.randint(0, 4))}


def canaries(case):
    if not case['isText'] or not case['text']:
        return []
    c = json.loads(json.dumps(case))
    # drop one character of the text (most likely makes it invalid or denote something else)
    i = max(k for k, ch in enumerate(c['text']) if ch not in (32, 9, 10, 13))
    del c['text'][i]
    c2 = json.loads(json.dumps(case))
    c2['back'] = {'t': 'str', 'v': A.cps('corrupted')} if c2['back'].get('t') != 'str' else {'t': 'null'}
    return [c, c2]


def run(ctx, replay=None):
    rnd = random.Random(ctx.seed)
    if replay is not None:
        rc = replay['case']
        c = json_case(A.gval(rc['v'], as_float=False), rc['indent'] or None)
        F.judge(ctx, 'Trace_Json', [c], None, key_fields=('v', 'indent'))
        return F.finish(ctx, rule='replay')
    r = tlc.check_model('MC_Json', 'SPECIFICATION Spec\nINVARIANT RoundTrip\nINVARIANT Injective\nCHECK_DEADLOCK FALSE\n', ctx.work, tag='json')
    ctx.mc_runs.append({'module': 'MC_Json', 'states': r['states'], 'ok': r['ok']})
    ctx.add_stats(r)
    if not r['ok']:
        ctx.violation('design-level: MC_Json violated', {'property': ctx.pid, 'mc': 'MC_Json', 'out': r['out'][-3000:]})
    strings = [''.join(t) for k in range(0, 5) for t in itertools.product(ALPHA, repeat=k)]
    jobs = []
    for i, s in enumerate(strings):
        ind = [None, 1 + i % 8]
        shapes = [s, {s: 1.0}, [s, 2.0], {'k': [1.5, s]}, {s: s}, [[s], {'a': s}]]
        if ctx.quick:
            shapes = [shapes[0], shapes[1 + i % 5]]
        for sh in shapes:
            for n in (ind if not ctx.quick else [ind[i % 2]]):
                jobs.append((sh, n))
    nexh = len(jobs)
    for _ in range(ctx.pick(4000, 150000)):
        jobs.append((rand_value(rnd, rnd.choice([1, 2, 3, 5])), rnd.choice([None, None, 1, 2, 4, 8])))
    for x in NUMS:
        jobs.append((x, None))
        jobs.append(([x, -x], 2))
        jobs.append(([x, [x, None, True]], None))            # string-free containers
        jobs.append(({'k': x}, None))
    for t in NUMBERISH:
        for sh in (t, [t], {t: 1.0}, {'k': [t, 2.5]}, [t, 1.05]):
            jobs.append((sh, None))
            jobs.append((sh, 2))
    cases = F.pmap(json_case, jobs)
    F.judge(ctx, 'Trace_Json', cases, canaries, key_fields=('v', 'indent'),
            describe=lambda c: {'text': c['shown'][:200] if c['shown'] else None, 'indent': c['indent']},
            nontrivial=lambda c: True)
    for c in cases:
        c.pop('shown', None)
    ctx.notes.update({'exhaustive_strings': len(strings), 'exhaustive_cases': nexh})
    return F.finish(ctx, rule='every string of length <= 4 over {a . 0 , ] }} (%d strings) as value / key / nested, indent none and 1..8; '
                    'random values to depth 5 over an alphabet with quotes, backslash, slash, control, non-BMP characters and boundary '
                    'numbers; the text is judged by the char-level JSON grammar in TLA+' % len(strings), exhaustive=True)
