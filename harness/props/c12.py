"""C12 - one number type: int and float spellings of a number are interchangeable.

Every function of the real SCRIPT_FUNCTIONS table (minus clock, random, fetch) x argument lists of 0-5
values of all types, generated from the function's own argument model (index / count / size / radix /
digit parameters at every boundary), each executed TWICE through execute_script: integral numbers as host
int and as float (recursively inside arrays / objects).  Both calls form one twin case judged by TLC
(Trace_Twin: equal outcome, result and post-call arguments under the abstraction).  For functions with a
functional model both runs are additionally validated against BareCore (Trace_Core); a third run goes
through rendered source text, where the parser produces the floats."""
import copy
import datetime
import json
import random
import re

from .. import framework as F
from .. import gen_jump, realrun, tlc
from .. import abstraction as A
from . import c03, c08

EXCLUDE = {'datetimeNow', 'datetimeToday', 'mathRandom', 'systemFetch', 'systemLog', 'systemLogDebug', 'schemaTypeModel',
           'systemGlobalSet', 'systemGlobalGet', 'systemPartial'}
STRINGS = ['', 'abc', 'Hello World', ' pad ', 'a,b', '12', '1.5', 'ff', '-7', '2024-03-04', '2024-03-04T05:06:07+00:00', '{"a":[1,2.5]}',
           'a+', '[', 'x', 'a\nb,"c"']


def args_model(fname):
    from bare_script import library
    m = re.sub(r'(?<!^)(?=[A-Z])', '_', fname).upper()
    m = m.replace('C_S_V', 'CSV').replace('I_S_O', 'ISO')
    for cand in ('_' + m + '_ARGS',):
        if hasattr(library, cand):
            return getattr(library, cand)
    return None


def gen_value(rnd, ty, spec=None, depth=0):
    if ty == 'number':
        spec = spec or {}
        if spec.get('integer') or rnd.random() < 0.75:
            lo = spec.get('gte', spec.get('gt', -3))
            hi = spec.get('lte', spec.get('lt', 12))
            cands = [0, 1, 2, 3, 5, 10, 16, 36, 100, 2024, -1, lo, hi, lo - 1 if isinstance(lo, int) else 0, hi + 1 if isinstance(hi, int) else 0]
            return int(rnd.choice([c for c in cands if isinstance(c, int)]))
        return rnd.choice([0.5, 1.5, -2.25, 3.75, 1e3, 12.125])
    if ty == 'string':
        return rnd.choice(STRINGS)
    if ty == 'boolean':
        return rnd.choice([True, False])
    if ty == 'datetime':
        return rnd.choice([datetime.datetime(2024, 2, 29, 13, 14, 15, 16000), datetime.date(2023, 12, 31), datetime.datetime(2000, 1, 1)])
    if ty == 'regex':
        return re.compile(rnd.choice(['a+', '(?P<x>\\d+)', ',']))
    if ty == 'function':
        return 'lib:' + rnd.choice(['arrayLength', 'mathAbs', 'systemCompare'])
    if ty == 'array':
        r = rnd.random()
        if r < 0.3 and depth == 0:
            return [{'a': rnd.randint(0, 3), 'b': rnd.choice([1, 2.5, 'x', None])} for _ in range(rnd.randint(0, 4))]
        return [gen_value(rnd, rnd.choice(['number', 'number', 'string', 'null']), None, depth + 1) for _ in range(rnd.randint(0, 4))]
    if ty == 'object':
        return {rnd.choice(['a', 'b', 'c']): gen_value(rnd, rnd.choice(['number', 'string', 'array' if depth == 0 else 'number']), None, depth + 1)
                for _ in range(rnd.randint(0, 3))}
    if ty == 'null':
        return None
    return gen_value(rnd, rnd.choice(['number', 'number', 'string', 'boolean', 'array', 'object', 'null', 'datetime']), None, depth)


def table(rnd):
    return [{'a': rnd.choice([1, 2, 2, 300, 300]), 'b': rnd.choice([1, 2, 5, 2.5, None]), 'k': rnd.choice(['x', 'y'])} for _ in range(rnd.randint(0, 6))]


SPECIAL = {
    'dataAggregate': lambda rnd: [table(rnd), {'categories': rnd.choice([['a'], ['a', 'k'], ['k']]),
                                               'measures': [{'field': 'b', 'function': rnd.choice(['count', 'sum', 'min', 'max', 'average'])}]}],
    'dataSort': lambda rnd: [table(rnd), [['a', rnd.random() < 0.5], ['b']]],
    'dataTop': lambda rnd: [table(rnd), rnd.choice([1, 2, 3]), rnd.choice([['a'], ['k'], ['a', 'k']])],
    'dataFilter': lambda rnd: [table(rnd), rnd.choice(['a > 1', 'a == 300', 'b', 'a == vv']), {'vv': 2}],
    'dataJoin': lambda rnd: [table(rnd), table(rnd), rnd.choice(['a', 'k', 'a + 0'])],
    'dataCalculatedField': lambda rnd: [table(rnd), 'c', rnd.choice(['a * 2', 'a == 2', "k + a"])],
    'dataValidate': lambda rnd: [table(rnd)],
    'systemIs': lambda rnd: rnd.choice([[1000, 1000], [65536, 65536], [300, 300], [2, 2], [1000, 1001], ['a', 'a'], [None, None]]),
    # (large neighbouring integers: equal-looking as floats only to a tolerance-based comparison)
    'systemCompare': lambda rnd: rnd.choice([[1000, 1000], [1000, 999], [[1000, 2], [1000, 2]], [{'a': 300}, {'a': 300}], [10 ** 9, 10 ** 9 + 1],
                                             [2 ** 40 + 1, 2 ** 40], [[10 ** 9 + 1], [10 ** 9]], [10 ** 15 - 1, 10 ** 15]]),
    'arraySort': lambda rnd: [rnd.sample([10 ** 9 + 1, 10 ** 9, 10 ** 9 + 2, 7, 2 ** 40, 2 ** 40 + 1], rnd.randint(2, 5))] if rnd.random() < 0.5
    else [rnd.sample([5, 3, 9, 1, 7, 2], rnd.randint(2, 6)), rnd.choice(['script:sub', 'script:rsub'])],
    'arrayIndexOf': lambda rnd: rnd.choice([[[1000, 300, 1000, 7], rnd.choice([1000, 300, 7, 8]), rnd.choice([0, 1, 2])],
                                            [[10 ** 9 + 1, 10 ** 9, 7], 10 ** 9, 0], [[2 ** 40, 2 ** 40 + 1], 2 ** 40 + 1]]),
    'arrayLastIndexOf': lambda rnd: [[1000, 300, 1000, 7], rnd.choice([1000, 300, 7, 8])],
    # digit counts around the point where 10 ** digits leaves the exactly representable integers (2 ** 53 ~ 9e15, 1e22) and the doubles
    'mathRound': lambda rnd: [rnd.choice([2.5, 1.005, 12345.678, 0, -0.5, 1e21, 7, 100, -3]), rnd.choice([0, 1, 2, 15, 16, 22, 23, 24, 30, 100, 308, 309])],
    'numberToFixed': lambda rnd: [rnd.choice([2.5, 1.005, 12345.678, 0, -0.5, 7, 100, -3, 1000000]), rnd.choice([0, 1, 2, 15, 16, 22, 23, 24, 30, 100]), rnd.choice([True, False])],
    'arraySlice': lambda rnd: rnd.choice([[[1, 2, 3, 4], rnd.choice([0, 1, 2, 3, 4])], [[1, 2, 3, 4], rnd.choice([0, 1, 2]), rnd.choice([2, 3, 4, None])]]),
    'objectGet': lambda rnd: [{'a': 1000, 'b': 2}, rnd.choice(['a', 'b', 'c']), 1000],
    'mathMax': lambda rnd: [rnd.choice([1000, 300, 2, 10 ** 9, 10 ** 9 + 1]) for _ in range(rnd.randint(1, 4))],
    'mathMin': lambda rnd: [rnd.choice([1000, 300, 2, 10 ** 9, 10 ** 9 + 1]) for _ in range(rnd.randint(1, 4))],
}


def gen_args(rnd, fname):
    if fname in SPECIAL and rnd.random() < 0.6:
        return SPECIAL[fname](rnd)
    model = args_model(fname)
    args = []
    if model is None:
        for _ in range(rnd.randint(0, 4)):
            args.append(gen_value(rnd, rnd.choice(['number', 'number', 'number', 'string', 'array', 'any'])))
        return args
    for spec in model:
        if spec.get('lastArgArray'):
            for _ in range(rnd.randint(0, 3)):
                args.append(gen_value(rnd, 'any'))
            break
        if ('default' in spec or spec.get('nullable')) and rnd.random() < 0.3:
            break
        ty = spec.get('type') or 'any'
        if rnd.random() < 0.08:
            ty = 'any'
        if spec.get('nullable') and rnd.random() < 0.15:
            args.append(None)
        else:
            args.append(gen_value(rnd, ty, spec))
    if rnd.random() < 0.04:
        args.append(gen_value(rnd, 'number'))
    return args


def to_float(v):
    if isinstance(v, bool):
        return v
    if isinstance(v, int):
        return float(v)
    if isinstance(v, list):
        return [to_float(x) for x in v]
    if isinstance(v, dict):
        return {k: to_float(x) for k, x in v.items()}
    return v


def fresh_ints(v):
    """distinct int objects for equal numbers (CPython shares small ints and constants)"""
    if isinstance(v, bool):
        return v
    if isinstance(v, int):
        return int(str(v))
    if isinstance(v, list):
        return [fresh_ints(x) for x in v]
    if isinstance(v, dict):
        return {k: fresh_ints(x) for k, x in v.items()}
    return v


def to_mixed(v, rnd):
    if isinstance(v, bool):
        return v
    if isinstance(v, int):
        return float(v) if rnd.random() < 0.5 else int(str(v))
    if isinstance(v, list):
        return [to_mixed(x, rnd) for x in v]
    if isinstance(v, dict):
        return {k: to_mixed(x, rnd) for k, x in v.items()}
    return v


def call_once(fname, args):
    from bare_script import execute_script, BareScriptRuntimeError
    from bare_script.library import SCRIPT_FUNCTIONS
    g = {}
    pre = []
    for i, a in enumerate(args):
        if isinstance(a, str) and a.startswith('script:'):
            # a SCRIPT function as the argument (its results are whatever number spelling its arithmetic produces)
            body = {'sub': {'binary': {'op': '-', 'left': {'variable': 'pa'}, 'right': {'variable': 'pb'}}},
                    'rsub': {'binary': {'op': '-', 'left': {'variable': 'pb'}, 'right': {'variable': 'pa'}}},
                    'gt2': {'binary': {'op': '>', 'left': {'variable': 'pa'}, 'right': {'number': 2}}}}[a[7:]]
            pre.append({'function': {'name': f'x{i}', 'args': ['pa', 'pb'], 'statements': [{'return': {'expr': body}}]}})
            continue
        g[f'x{i}'] = SCRIPT_FUNCTIONS[a[4:]] if isinstance(a, str) and a.startswith('lib:') else a
    model = {'statements': pre + [{'return': {'expr': {'function': {'name': fname, 'args': [{'variable': f'x{i}'} for i in range(len(args))]}}}}]}
    before = [A.aval(g.get(f'x{i}')) for i in range(len(args))]
    status, res = 'done', None
    try:
        res = execute_script(model, {'globals': g, 'maxStatements': 1000})
    except BareScriptRuntimeError as exc:
        status = 'runtime:' + str(exc)[:40]
    except Exception as exc:  # pylint: disable=broad-except
        status = 'host:' + type(exc).__name__
    return {'status': status, 'res': A.aval(res), 'before': before, 'after': [A.aval(g[f'x{i}']) for i in range(len(args))]}


OPERATORS = ['+', '-', '*', '/', '%', '**', '==', '!=', '<', '<=', '>', '>=', '&&', '||', 'neg', 'not']
OP_NUMS = [0, 1, 2, 3, 7, -7, -1, 10, 100, 255, 1000, 65536, 2 ** 31, 10 ** 9 + 1, 10 ** 9, 2.5, -0.5, 0.1]


def op_once(op, args):
    from bare_script import evaluate_expression, BareScriptRuntimeError
    g = {f'x{i}': a for i, a in enumerate(args)}
    if op == 'neg':
        e = {'unary': {'op': '-', 'expr': {'variable': 'x0'}}}
    elif op == 'not':
        e = {'unary': {'op': '!', 'expr': {'variable': 'x0'}}}
    else:
        e = {'binary': {'op': op, 'left': {'variable': 'x0'}, 'right': {'variable': 'x1'}}}
    before = [A.aval(g[f'x{i}']) for i in range(len(args))]
    status, res = 'done', None
    try:
        res = evaluate_expression(e, {'globals': g})
    except BareScriptRuntimeError as exc:
        status = 'runtime:' + str(exc)[:40]
    except Exception as exc:  # pylint: disable=broad-except
        status = 'host:' + type(exc).__name__
    # results are compared as doubles: an exact int beyond 2 ** 53 and its nearest double count as the same number (the operands
    # are |n| < 1e15, the products need not be), and so do 0 and -0 (a host int has no negative zero)
    if isinstance(res, (int, float)) and not isinstance(res, bool):
        try:
            res = float(res)
            if res == 0:
                res = 0.0
        except OverflowError:
            res = float('inf') if res > 0 else float('-inf')
    return {'status': status, 'res': A.aval(res), 'before': before, 'after': [A.aval(g[f'x{i}']) for i in range(len(args))]}


def op_twin_case(seed, op):
    """every operator: the operands as host ints, as floats, mixed (results of arrayLength / stringLength / jsonParse and loop indices
    are host ints, literals are floats)"""
    rnd = random.Random(seed)

    def operand():
        r = rnd.random()
        if r < 0.75:
            return rnd.choice(OP_NUMS)
        if r < 0.85:
            return [rnd.choice(OP_NUMS) for _ in range(rnd.randint(0, 3))]
        return rnd.choice(['a', '', None, True, datetime.datetime(2024, 2, 29, 13, 14, 15)])
    args = [operand()] if op in ('neg', 'not') else [operand(), operand()]
    if op in ('*', '**'):
        # products and powers stay well inside the doubles' exact integers (the property speaks of |n| < 1e15)
        small = [0, 1, 2, 3, 7, -7, -1, 10, 100, 255, 2.5, -0.5]
        args = [a if not (isinstance(a, (int, float)) and not isinstance(a, bool)) else rnd.choice(small) for a in args]
        if op == '**' and isinstance(args[1], (int, float)) and not isinstance(args[1], bool):
            args[1] = rnd.choice([0, 1, 2, 3, 5, -1, -2, 0.5])
    ri = op_once(op, fresh_ints(copy.deepcopy(args)))
    rf = op_once(op, to_float(copy.deepcopy(args)))
    rm = op_once(op, to_mixed(copy.deepcopy(args), rnd))
    return {'fn': 'operator ' + op, 'statusI': ri['status'], 'statusF': rf['status'], 'resI': ri['res'], 'resF': rf['res'],
            'argsBeforeI': ri['before'], 'argsBeforeF': rf['before'], 'argsAfterI': ri['after'], 'argsAfterF': rf['after'],
            'statusM': rm['status'], 'resM': rm['res'], 'argsAfterM': rm['after']}


def twin_case(seed, fname):
    if fname.startswith('op:'):
        return op_twin_case(seed, fname[3:])
    rnd = random.Random(seed)
    args = gen_args(rnd, fname)
    nums = [a for a in args if isinstance(a, int) and not isinstance(a, bool)]
    if nums and rnd.random() < 0.3:
        # equal numbers in several positions (identity vs equality, duplicate keys / categories)
        big = rnd.choice([300, 1000, 65536, 2024, nums[0]])
        args = [big if (isinstance(a, int) and not isinstance(a, bool) and rnd.random() < 0.7) else a for a in args]
    if rnd.random() < 0.3:
        for a in args:
            if isinstance(a, list) and a and isinstance(a[0], dict):
                for row in a:                      # rows of a table share category values
                    if 'a' in row and isinstance(row['a'], int):
                        row['a'] = rnd.choice([2, 300])
    ri = call_once(fname, fresh_ints(copy.deepcopy(args)))
    rf = call_once(fname, to_float(copy.deepcopy(args)))
    rm = call_once(fname, to_mixed(copy.deepcopy(args), rnd))
    return {'fn': fname, 'statusI': ri['status'], 'statusF': rf['status'], 'resI': ri['res'], 'resF': rf['res'],
            'argsBeforeI': ri['before'], 'argsBeforeF': rf['before'], 'argsAfterI': ri['after'], 'argsAfterF': rf['after'],
            'statusM': rm['status'], 'resM': rm['res'], 'argsAfterM': rm['after']}


def canaries(case):
    c = json.loads(json.dumps(case))
    c['resF'] = {'t': 'str', 'v': A.cps('corrupted')} if c['resF'].get('t') != 'str' else {'t': 'null'}
    c2 = json.loads(json.dumps(case))
    c2['statusF'] = 'host:TypeError'
    return [c, c2]


def literal_case(seed, fname):
    """script-literal style: the call is rendered to source text with number literals; validated against BareCore"""
    rnd = random.Random(seed)
    sig = None
    from .. import gen_lib
    if fname not in gen_lib.SIGS:
        return None
    e = gen_lib.call_for(fname, rnd)
    model = gen_lib.history(rnd, 0)[:-1] + [{'k': 'expr', 'name': 'x', 'e': e}, gen_lib.snapshot()]
    text = '\n'.join(A.jump_text(model)) + '\n'
    script = realrun.bare_script.parse_script(text)
    c = realrun.observe({'kind': 'script', 'model': A.amodel(script), 'real_model': script,
                         'globals': gen_lib.pool_globals() + [realrun.host_global('probe')], 'limit': 0, 'dbg': False})
    c['text'] = text
    return c


def run(ctx, replay=None):
    rnd = random.Random(ctx.seed)
    if replay is not None:
        rc = replay['case']
        if 'fn' in rc:
            F.judge(ctx, 'Trace_Twin', [rc], None, tag='twin', key_fields=('fn', 'argsBeforeI'))
        else:
            script = realrun.bare_script.parse_script(rc['text'])
            c = realrun.observe({'kind': 'script', 'model': A.amodel(script), 'real_model': script,
                                 'globals': rc['globals'], 'limit': 0, 'dbg': False})
            c['text'] = rc['text']
            F.judge(ctx, 'Trace_Core', [c], None, invariants=c08.INVS, key_fields=('text',))
        return F.finish(ctx, rule='replay')
    from bare_script.library import SCRIPT_FUNCTIONS
    names = sorted(n for n in SCRIPT_FUNCTIONS if n not in EXCLUDE)
    per = ctx.pick(60, 2000)
    jobs = [(rnd.randrange(1 << 30), n) for n in names for _ in range(per)]
    jobs += [(rnd.randrange(1 << 30), 'op:' + op) for op in OPERATORS for _ in range(per * 2)]
    twins = F.pmap(twin_case, jobs)
    F.judge(ctx, 'Trace_Twin', twins, canaries, tag='twin', key_fields=('fn', 'argsBeforeI'),
            describe=lambda c: {'function': c['fn'], 'args': c['argsBeforeI'], 'result_int': c['resI'], 'result_float': c['resF']},
            nontrivial=lambda c: any('"num"' in json.dumps(a) for a in c['argsBeforeI']))
    from .. import gen_lib
    lit = [c for c in F.pmap(literal_case, [(rnd.randrange(1 << 30), n) for n in sorted(gen_lib.SIGS) for _ in range(ctx.pick(25, 600))]) if c]
    F.judge(ctx, 'Trace_Core', lit, None, invariants=c08.INVS, tag='lit', key_fields=('text',),
            describe=lambda c: {'source': c['text'].split('\n')[-4:-1]})
    ctx.notes.update({'functions': len(names), 'operators': len(OPERATORS), 'twin_calls': len(twins), 'script_literal_calls': len(lit)})
    return F.finish(ctx, rule='every library function except clock/random/fetch/log x %d argument lists drawn from its own argument model and every operator x 2 x that many operand pairs '
                    '(integer parameters at their boundaries), executed with integral numbers as int and as float; twin judged by '
                    'Trace_Twin; modelled functions also through source text with number literals against BareCore; non-trivial = '
                    'the arguments contain a number' % per)
