"""C08 - jump-level models execute by the documented statement semantics.

leg A  MC_Jump: every statement list <= N over the alphabet, run by the BareCore machine one
       statement per TLC step; invariants PcInRange / BudgetInv / EndInv, action properties
       CountMonotone / ModelFixed / ProbeUntouched, liveness Terminates.
leg B  the same family (alphabet obtained from TLC), executed TWICE on one model object by the
       real execute_script; every recorded run is validated against Trace_Core.
leg C  random models (<= 40 statements, functions, duplicate labels, dangling jumps)."""
import itertools
import json
import random

from .. import framework as F
from .. import gen_jump, realrun, tlc
from .. import abstraction as A

MC_CFG = '''SPECIFICATION FairSpec
CONSTANT N = %d
CONSTANT Limit = 40
INVARIANT PcInRange
INVARIANT BudgetInv
INVARIANT EndInv
PROPERTY CountMonotone
PROPERTY ModelFixed
PROPERTY ProbeUntouched
PROPERTY Terminates
CHECK_DEADLOCK FALSE
'''
G0 = [{'name': 'a', 'val': {'t': 'num', 'f': 'q', 'n': 0, 'd': 1}}, {'name': 'b', 'val': {'t': 'null'}},
      realrun.host_global('probe')]
INVS = ('BudgetInv', 'ExcInv', 'LogInv')


def leg_a(ctx, n):
    r = tlc.check_model('MC_Jump', MC_CFG % n, ctx.work, tag=f'jumpN{n}')
    ctx.mc_runs.append({'module': 'MC_Jump', 'N': n, 'states': r['states'], 'ok': r['ok'], 'seconds': round(r['seconds'], 1)})
    ctx.add_stats(r)
    if not r['ok']:
        ctx.violation('design-level: MC_Jump property violated', {'property': ctx.pid, 'mc': 'MC_Jump', 'N': n,
                                                                 'out': r['out'][-3000:]})
    alpha = tlc.printed_json(r['out'], 'ALPHABET')
    if not alpha:
        raise tlc.MachineryError('MC_Jump did not print its alphabet')
    return alpha[0]


def canaries(case):
    out = []
    c = json.loads(json.dumps(case))
    c['fin']['cnt'] += 1
    out.append(c)
    if case['trace']:
        c = json.loads(json.dumps(case))
        c['trace'].pop()
        out.append(c)
    if case['fin']['status'] == 'done':
        c = json.loads(json.dumps(case))
        c['fin']['ret'] = {'t': 'str', 'v': A.cps('corrupted')}
        out.append(c)
    c = json.loads(json.dumps(case))
    c['fin']['modelUnchanged'] = False
    out.append(c)
    return out


def describe(case):
    return {'source': A.jump_text(case['model']), 'limit': case['limit'], 'status': case['fin']['status'],
            'statementCount': case['fin']['cnt'], 'events': len(case['trace'])}


def nontrivial(case):
    ks = {s['k'] for s in case['model']}
    return 'jump' in ks or 'function' in ks


def make_case(model, limit=60, dbg=False, globs=None, twice=True, prerun=False, pre_model=None):
    c = {'kind': 'script', 'model': model, 'globals': json.loads(json.dumps(globs or G0)), 'limit': limit, 'dbg': dbg, 'prerun': prerun}
    if pre_model is not None:
        c['pre_model'] = pre_model
    return realrun.observe(c, twice=twice)


def run(ctx, replay=None):
    if replay is not None:
        case = make_case(replay['case']['model'], replay['case']['limit'], replay['case'].get('dbg', False),
                         replay['case']['globals'])
        F.judge(ctx, 'Trace_Core', [case], None, invariants=INVS, describe=describe)
        return F.finish(ctx, rule='replay')
    rnd = random.Random(ctx.seed)
    alpha = leg_a(ctx, ctx.pick(3, 4))
    n_exh = ctx.pick(3, 4)
    cases = []
    for k in range(1, n_exh + 1):
        tuples = itertools.product(range(len(alpha)), repeat=k)
        if len(alpha) ** k > 70000:       # the longest length of the thorough tier: a 70 000-list sample (memory)
            allt = list(tuples)
            tuples = rnd.sample(allt, 70000)
            n_exh = k - 1
            ctx.notes['sampled_lists_of_length_%d' % k] = 70000
        for ix in tuples:
            cases.append(make_case([alpha[i] for i in ix]))
        if n_exh >= k:
            exhaustive_count = len(cases)
    for k, cnt in ctx.pick(((4, 1500), (5, 800), (6, 500)), ((5, 40000), (6, 40000))):
        for _ in range(cnt):
            cases.append(make_case([alpha[rnd.randrange(len(alpha))] for _ in range(k)]))
    # a model OBJECT that held another program before (edited in place by the host between the runs): same labels elsewhere
    for _ in range(ctx.pick(1200, 20000)):
        k = rnd.choice([3, 4, 5])
        m1 = [alpha[rnd.randrange(len(alpha))] for _ in range(k)]
        m2 = m1[:]
        rnd.shuffle(m2)
        if rnd.random() < 0.5:
            m2.insert(rnd.randrange(len(m2) + 1), alpha[rnd.randrange(len(alpha))])
        cases.append(make_case(m2, pre_model=m1))
    for _ in range(ctx.pick(1500, 30000)):
        m = gen_jump.rmodel(rnd, maxlen=rnd.choice([6, 14, 40]))
        cases.append(make_case(m, limit=rnd.choice([300, 300, 40, rnd.randint(1, 25)]), dbg=rnd.random() < 0.3,
                               globs=gen_jump.default_globals(rnd) + [realrun.host_global('probe')], prerun=rnd.random() < 0.3))
    F.judge(ctx, 'Trace_Core', cases, canaries, invariants=INVS, describe=describe, nontrivial=nontrivial)
    statuses = {}
    for c in cases:
        statuses[c['fin']['status']] = statuses.get(c['fin']['status'], 0) + 1
    ctx.notes['finish_status_counts'] = statuses
    ctx.notes['exhaustive_family'] = f'all {exhaustive_count} statement lists of length <= {n_exh} over the {len(alpha)}-symbol alphabet of MC_Jump'
    for need in ('done', 'label', 'limit'):
        if not statuses.get(need):
            ctx.vacuous(f'vacuity: no run ended with status {need}')
    return F.finish(ctx, rule='statement lists over the MC_Jump alphabet (exhaustive to length n, sampled beyond) plus '
                    'random jump-level models; each executed twice on one model object by the real execute_script and '
                    'validated step by step against BareCore; non-trivial = contains a jump or a function; distinct by '
                    '(model, globals, limit)', exhaustive=True)
