"""C01 - structured control flow runs with its source-level meaning.

leg A  MC_Struct: for every program of StructFamily(Depth) x input set, ExecBlock (structured big-step
       meaning) and Run(Lower(prog)) (jump machine on the lowering) agree on result, probe sequence and
       globals (invariant Equiv, Dev = {}); WellFormed(Lower(prog)); Terminating (vacuity guard).
leg B  every program of the family is pretty-printed, parsed and executed by the REAL parse_script /
       execute_script under a covering set of inputs; every recorded run validated against ExecBlock
       (Trace_Struct).
leg C  random structured programs (depth <= 5, <= 3 functions, recursion, functions as values).
A rejected trace is attributed to the open finding F7 iff it is accepted by the implementation-shaped
layer with exactly Dev = {"WhileContinueSkipsTest"}."""
import json
import random

from .. import framework as F
from .. import gen_struct, realrun, tlc
from .. import abstraction as A

MC_CFG = '''SPECIFICATION Spec
CONSTANT ShardI = %d
CONSTANT ShardN = %d
CONSTANT Depth = %d
CONSTANT InputMode = "%s"
CONSTANT Dev = {}
INVARIANT Equiv
INVARIANT WF
INVARIANT Terminating
%s
CHECK_DEADLOCK FALSE
'''
PROBE = realrun.host_global('probe')
DEV0 = 'CONSTANT Dev = {}\n'


def struct_case(prog, globs, limit=400, dbg=False):
    text = '\n'.join(A.struct_text(prog)) + '\n'
    try:
        script = realrun.bare_script.parse_script(text)
    except Exception as exc:  # pylint: disable=broad-except
        return {'parse_error': f'{type(exc).__name__}: {exc}', 'prog': prog, 'text': text}
    c = {'kind': 'script', 'model': A.amodel(script), 'real_model': script,
         'globals': json.loads(json.dumps(globs)) + [PROBE], 'limit': limit, 'dbg': dbg}
    c = realrun.observe(c)
    if c['fin']['status'] == 'limit' and limit < 5000:
        # long but finite, or really endless?  decide with a much larger budget
        c2 = realrun.observe({'kind': 'script', 'model': A.amodel(script), 'real_model': script,
                              'globals': json.loads(json.dumps(globs)) + [PROBE], 'limit': 5000, 'dbg': dbg})
        if c2['fin']['status'] != 'limit':
            c = c2
    c['prog'] = prog
    c['parsed'] = c.pop('model')
    c['text'] = text
    for k in ('expr', 'inc', 'bi', 'off', 'locals', 'hasLocals', 'containOnly', 'checkGlobals', 'real_model'):
        c.pop(k, None)            # (real_model: not needed after the observation; tens of thousands of cases are held until judged)
    return c


def family_inputs(rnd, inputs, pattern, rot):
    """pattern: 'T' / 'F' / ('flipT', var) / ('flipF', var) / 'rand'"""
    g = []
    for i, v in enumerate(inputs['vars']):
        if pattern == 'T':
            t = True
        elif pattern == 'F':
            t = False
        elif pattern == 'rand':
            t = rnd.random() < 0.5
        else:
            t = (pattern[0] == 'flipT') != (pattern[1] == v)
        vals = inputs['truthy'] if t else inputs['falsy']
        g.append({'name': v, 'val': vals[(i + rot) % len(vals)]})
    return g


def used_vars(prog):
    s = set()
    realrun.collect_names([{'k': 'expr', 'name': '', 'e': {'k': 'str', 'v': []}}], s)
    text = json.dumps(prog)
    return text


def canaries(case):
    out = []
    if 'trace' not in case or case['fin']['status'] != 'done':
        return out
    if case['trace']:
        c = json.loads(json.dumps(case))
        c['trace'].pop(len(c['trace']) // 2)
        out.append(c)
        c = json.loads(json.dumps(case))
        c['trace'].append(c['trace'][-1])
        out.append(c)
    c = json.loads(json.dumps(case))
    c['fin']['ret'] = {'t': 'str', 'v': A.cps('corrupted')}
    out.append(c)
    return out


def describe(c):
    return {'source': c['text'].split('\n')[:40], 'result': c['fin']['ret'], 'status': c['fin']['status'], 'events': len(c['trace'])}


def known_devs(ctx):
    out = []
    for kf in F.load_known(ctx.pid):
        if kf.get('deviation'):
            out.append({'finding': kf['finding'], 'what': kf['what'], 'cfg': 'CONSTANT Dev = {"%s"}\n' % kf['deviation']})
    return out


def judge(ctx, cases, tag):
    bad = [c for c in cases if 'parse_error' in c]
    for c in bad:
        ctx.violation('the real parser rejected a well-formed structured program: ' + c['parse_error'],
                      {'property': ctx.pid, 'prog': c['prog'], 'text': c['text']})
    good = [c for c in cases if 'parse_error' not in c]
    return F.judge(ctx, 'Trace_Struct', good, canaries, cfg_consts=DEV0, tag=tag, describe=describe,
                   known_dev=known_devs(ctx), key_fields=('text', 'globals'),
                   nontrivial=lambda c: any(k in c['text'] for k in ('while', 'for ', 'if ')))


def mc_struct(ctx, depth, mode, tag, shards=tlc.NCPU, emit=True):
    """leg A, sharded over JVMs (TLC evaluates initial states sequentially)"""
    from concurrent.futures import ThreadPoolExecutor

    def one(i):
        return tlc.check_model('MC_Struct', MC_CFG % (i, shards, depth, mode, 'INVARIANT EmitProg' if emit else ''), ctx.work,
                               tag=f'{tag}_{i}', workers=1, timeout=3 * 3400, heap='3g')
    with ThreadPoolExecutor(max_workers=shards) as ex:
        rs = list(ex.map(one, range(shards)))
    out = '\n'.join(x['out'] for x in rs)
    ok = all(x['ok'] for x in rs)
    states = sum(x['states'] for x in rs)
    ctx.mc_runs.append({'module': 'MC_Struct', 'Depth': depth, 'InputMode': mode, 'states': states, 'ok': ok,
                        'seconds': round(max(x['seconds'] for x in rs), 1), 'jvms': shards})
    ctx.add_stats({'states': states, 'transitions': sum(x['transitions'] for x in rs)})
    if not ok:
        bad = next(x for x in rs if not x['ok'])
        ctx.violation('design-level: MC_Struct violated (structured meaning vs lowering)',
                      {'property': ctx.pid, 'mc': 'MC_Struct', 'Depth': depth, 'out': bad['out'][-4000:]})
    return {'out': out, 'ok': ok, 'states': states}


def run(ctx, replay=None):
    rnd = random.Random(ctx.seed)
    if replay is not None:
        if 'mc' in replay:
            print(replay.get('out', '')[-2000:])
            return 1
        rc = replay.get('case') or replay
        case = struct_case(rc['prog'], [g for g in rc['globals'] if g['name'] != 'probe'], rc.get("limit", 400))
        judge(ctx, [case], 'replay')
        return F.finish(ctx, rule='replay')
    depth, mode = ctx.pick((2, 'two'), (2, 'cover'))
    r = mc_struct(ctx, depth, mode, 'struct')
    inputs = tlc.printed_json(r['out'], 'INPUTS')[0]
    progs = tlc.printed_json(r['out'], 'PROG')
    if len(progs) < 100:
        raise tlc.MachineryError(f'MC_Struct printed only {len(progs)} programs')
    if not ctx.quick:
        # (the depth-3 family is model checked only: printing and replaying a few hundred thousand programs does not fit in memory;
        # the real code meets depth-3 and deeper shapes through the random programs below)
        mc_struct(ctx, 3, 'two', 'struct3', emit=False)
    arrs = inputs['arrs']
    jobs = []
    nflip = ctx.pick(1, 2)
    for pi, prog in enumerate(progs):
        text = json.dumps(prog)
        used = [v for v in inputs['vars'] if ('"' + v + '"') in text]
        pats = ['T', 'F'] + [(rnd.choice(['flipT', 'flipF']), rnd.choice(used or inputs['vars'])) for _ in range(nflip)] + ([] if ctx.quick else ['rand'])
        for j, pat in enumerate(pats):
            g = family_inputs(rnd, inputs, pat, (pi + j) % 7)
            g = [x for x in g if x['name'] in used]
            g.append({'name': 'arr', 'val': arrs[(pi + j) % len(arrs)] if j else arrs[0]})
            jobs.append((prog, g, 200))
    cases = F.pmap(struct_case, jobs)
    nfam = len(cases)
    judge(ctx, cases, 'fam')
    # leg C: random programs
    jobs = []
    vals = inputs['truthy'] + inputs['falsy']
    for _ in range(ctx.pick(1000, 12000)):
        prog = gen_struct.rprogram(rnd, maxdepth=rnd.choice([2, 3, 4, 5]))
        g = [{'name': n, 'val': rnd.choice(vals)} for n in gen_struct.GVARS]
        g.append({'name': 'garr', 'val': rnd.choice(arrs)})
        g.append({'name': 'gdepth', 'val': {'t': 'num', 'f': 'q', 'n': 0, 'd': 1}})
        jobs.append((prog, g, 300, rnd.random() < 0.2))
    cases = F.pmap(struct_case, jobs)
    judge(ctx, cases, 'rand')
    ctx.notes['family_programs'] = len(progs)
    ctx.notes['family_cases'] = nfam
    return F.finish(ctx, rule='every program of StructFamily (all chains of the 11 positioned constructs to depth %d x loop tails x '
                    'contexts) x {all-truthy, all-falsy, single flips, random} inputs with values of all types in rotation, '
                    'plus random programs to depth 5 with up to 3 functions; source text -> real parse_script -> real '
                    'execute_script, validated against the structured meaning ExecBlock' % depth, exhaustive=True)
