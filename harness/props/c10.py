"""C10 - source layout does not change the parsed program.

leg A  MC_Lines invariant LayoutInvariant / EveryLineAccounted (shared with C06): logical-line construction is
       invariant under blank / comment insertion anywhere, CRLF, trailing blanks, indentation, chunking.
leg B/C  generated programs and every shipped .bare script x random layout rewrites (LF -> CRLF, passing the
       text as chunks split at line boundaries with up to 6 cuts, blank / comment lines with probability 0.3 per
       line also inside continued lines, indentation from {none, spaces, tab}, trailing blanks, a continuation
       backslash at blanks outside quotes and brackets): TLC decides from the two TEXTS whether the rewrite is
       layout-only (same logical lines up to blanks, char-level LogicalLines / Norm) and then requires the two real
       models to be deep-equal; parse_script must be deterministic and keep no state between calls."""
import json
import random
import re

from .. import framework as F
from .. import gen_struct, tlc
from .. import abstraction as A
from . import c06

BASE = dict(c06.BASE, orig=[], rewritten=[], chunked=False, chunks=[], same=True, again=True, rewrite='')


def blank_positions(line):
    """indices of blanks outside quotes / brackets where a continuation may be inserted"""
    out = []
    q = None
    i = 0
    while i < len(line):
        c = line[i]
        if q:
            if c == '\\':
                i += 2
                continue
            if c == q:
                q = None
        elif c in '\'"':
            q = c
        elif c == '[':
            q = ']'
        elif c == ' ' and 0 < i < len(line) - 1 and line[:i].strip():
            out.append(i)
        i += 1
    return out


def respace(rnd, line):
    """extra blanks where the grammar allows them: after "(", before ")", around "," (outside quotes / brackets)"""
    out = []
    q = None
    i = 0
    while i < len(line):
        c = line[i]
        if q:
            out.append(c)
            if c == '\\' and i + 1 < len(line):
                out.append(line[i + 1])
                i += 2
                continue
            if c == q:
                q = None
        elif c in '\'"':
            q = c
            out.append(c)
        elif c == '[':
            q = ']'
            out.append(c)
        elif c == ',' and rnd.random() < 0.6:
            out.append(rnd.choice([' ,', ', ', ' , ', '  ,  ']))
        elif c == '(' and out and (out[-1][-1:].isalnum() or out[-1][-1:] == '_') and rnd.random() < 0.3 and \
                not re.search(r'(^|[^\w])(return|if|elif|while|in|jumpif|include|jump)$', ''.join(out)):
            out.append(' (')          # a blank between a function name and its parenthesis (call or definition header)
        elif c == '(' and rnd.random() < 0.4:
            out.append('( ')
        elif c == ')' and rnd.random() < 0.4:
            out.append(' )')
        else:
            out.append(c)
        i += 1
    text = ''.join(out)
    # a blank before the colon that ends a block header (if x :, else :, while c :, for a in b :, function f() :)
    st = text.rstrip()
    if st.endswith(':') and q is None and rnd.random() < 0.5 and re.match(r'^\s*(if|elif|else|while|for|function|async)\b', st):
        text = st[:-1] + rnd.choice([' ', '  ', '\t']) + ':' + text[len(st):]
    return text


def rewrite(rnd, lines):
    """apply a random combination of layout rewrites; returns (kind names, new text or chunks, chunked)"""
    names = []
    out = []
    indent = rnd.choice([None, '', '  ', '\t', '      '])
    do_blank = rnd.random() < 0.6
    do_cont = rnd.random() < 0.5
    do_trail = rnd.random() < 0.4
    do_space = rnd.random() < 0.4
    for ln in lines:
        if do_blank and rnd.random() < 0.3:
            out.append(rnd.choice(['', '   ', '# inserted comment', '\t# c \\', '#']))
        body = ln
        if do_space and body.strip() and not body.lstrip().startswith('#') and not body.lstrip().startswith('include'):
            body = respace(rnd, body)
        if indent is not None and body.strip() and not body.lstrip().startswith('#'):
            body = indent + body.lstrip()
        parts = [body]
        if do_cont and body.strip() and not body.lstrip().startswith('#') and not body.rstrip().endswith('\\'):
            for _ in range(rnd.choice([1, 1, 2])):
                pos = blank_positions(parts[-1])
                if not pos:
                    break
                p = rnd.choice(pos)
                last = parts.pop()
                parts += [last[:p] + rnd.choice([' \\', '\\', '  \\']) + rnd.choice(['', ' ', '  ']), rnd.choice(['', '    ', '\t']) + last[p + 1:]]
        for k, prt in enumerate(parts):
            if k and do_blank and rnd.random() < 0.3:
                out.append(rnd.choice(['', '# inside a continued line', '   ']))
            out.append(prt + (rnd.choice([' ', '  ', '\t']) if do_trail and rnd.random() < 0.5 else ''))
    if indent is not None:
        names.append('indent')
    names += [n for n, f in (('blank/comment', do_blank), ('continuation', do_cont), ('trailing', do_trail), ('respace', do_space)) if f]
    eol = '\n'
    if rnd.random() < 0.3:
        eol = '\r\n'
        names.append('crlf')
    if rnd.random() < 0.35:
        names.append('chunks')
        cuts = sorted(rnd.sample(range(1, len(out)), min(len(out) - 1, rnd.randint(1, 6)))) if len(out) > 1 else []
        chunks = []
        prev = 0
        for ccut in cuts + [len(out)]:
            chunks.append(eol.join(out[prev:ccut]) + (eol if rnd.random() < 0.5 else ''))
            prev = ccut
        return names, chunks, True
    return names, eol.join(out), False


def layout_case(seed, text=None):
    from bare_script import parse_script
    rnd = random.Random(seed)
    if text is None:
        prog = gen_struct.rprogram(rnd, maxdepth=rnd.choice([1, 2, 3, 4]))
        lines0 = A.struct_text(prog)
        if rnd.random() < 0.4:
            # characters that str.splitlines() treats as line ends but the parser does not: only LF / CRLF end a line
            odd = rnd.choice(['\x0c', '\x0b', '\x1c', '\x1d', '\x1e', '\x85', '\u2028', '\u2029', '\r'])
            k = rnd.randint(0, len(lines0))
            lines0.insert(k, rnd.choice([f"# a comment with {odd} inside", f"odd{rnd.randint(0, 9)} = 'a{odd}b'", f'probe(700, "x{odd}")']))
        if rnd.random() < 0.2:
            # async function headers are function headers (also when indented by a rewrite)
            lines0 = [('async ' + ln if ln.startswith('function ') and rnd.random() < 0.7 else ln) for ln in lines0]
        if rnd.random() < 0.25:
            # consecutive include statements form ONE statement - also with blank lines, comments or continuations between them
            incs = [rnd.choice(["include 'a.bare'", "include 'lib/b c.bare'", 'include <sys.bare>', "include 'a.bare'"]) for _ in range(rnd.randint(2, 4))]
            k = rnd.randint(0, len(lines0)) if rnd.random() < 0.5 else 0
            if all(not ln.startswith((' ', '\t')) for ln in lines0[k:k + 1]):      # only at the top level of the block structure
                lines0[k:k] = incs
        text = '\n'.join(lines0)
    lines = text.split('\n')
    names, new, chunked = rewrite(rnd, lines)
    c = json.loads(json.dumps(BASE))
    c.update({'kind': 'layout', 'orig': A.cps(text), 'chunked': chunked, 'rewrite': '+'.join(names) or 'identity',
              'source': (new if not chunked else '|'.join(new))[:300]})
    if chunked:
        c['chunks'] = [A.cps(x) for x in new]
    else:
        c['rewritten'] = A.cps(new)
    try:
        m1 = parse_script(text)
        m2 = parse_script(new)
        other = parse_script('x = 1\nif x:\ny = 2\nendif\n')        # an unrelated parse in between
        m3 = parse_script(text)
        m4 = parse_script(iter(new) if chunked else new)
        c['same'] = m1 == m2
        c['again'] = m1 == m3 and m2 == m4 and bool(other)
    except Exception as exc:  # pylint: disable=broad-except
        # the original is a valid program: the rewritten one must parse too
        c['same'] = False
        c['rewrite'] += f' (raised {type(exc).__name__}: {exc})'[:200]
    return c


def shipped_texts():
    import importlib.resources
    out = []
    for entry in sorted(importlib.resources.files('bare_script.include').iterdir(), key=lambda e: e.name):
        if entry.name.endswith('.bare'):
            out.append(entry.read_text(encoding='utf-8').rstrip('\n'))
    return out


def canaries(case):
    c = json.loads(json.dumps(case))
    c['same'] = False
    c2 = json.loads(json.dumps(case))
    c2['again'] = False
    return [c, c2]


def run(ctx, replay=None):
    rnd = random.Random(ctx.seed)
    if replay is not None:
        F.judge(ctx, 'Trace_Lines', [replay['case']], None, cfg_consts='CONSTANT Dev = {}\n', key_fields=('orig', 'rewritten', 'chunks'))
        return F.finish(ctx, rule='replay (recorded case re-judged)')
    n, m = ctx.pick((3, 4), (4, 5))
    r = tlc.check_model('MC_Lines', c06.MC_CFG % (n, m), ctx.work, tag='lines', timeout=3400)
    ctx.mc_runs.append({'module': 'MC_Lines', 'N': n, 'M': m, 'states': r['states'], 'ok': r['ok'], 'seconds': round(r['seconds'], 1)})
    ctx.add_stats(r)
    if not r['ok']:
        ctx.violation('design-level: MC_Lines violated', {'property': ctx.pid, 'mc': 'MC_Lines', 'out': r['out'][-3000:]})
    jobs = [(ctx.seed * 7 + i, None) for i in range(ctx.pick(2500, 60000))]
    for t in shipped_texts():
        for i in range(ctx.pick(6, 60)):
            jobs.append((ctx.seed * 13 + i, t))
    cases = F.pmap(layout_case, jobs)
    F.judge(ctx, 'Trace_Lines', cases, canaries, cfg_consts='CONSTANT Dev = {}\n', key_fields=('orig', 'rewritten', 'chunks'),
            describe=lambda c: {'rewrite': c['rewrite'], 'rewritten_source': c['source']}, nontrivial=lambda c: c['rewrite'] != 'identity')
    kinds = {}
    for c in cases:
        for nme in c['rewrite'].split('+'):
            kinds[nme] = kinds.get(nme, 0) + 1
    if ctx.skips > len(cases) // 5:
        raise tlc.MachineryError(f'too many rewrites judged not layout-only by the specification ({ctx.skips} of {len(cases)})')
    ctx.notes.update({'rewrites_by_kind': kinds, 'shipped_script_cases': sum(1 for j in jobs if j[1] is not None)})
    return F.finish(ctx, rule='random structured programs and the shipped .bare scripts x random combinations of layout rewrites; TLC decides '
                    'from the texts that the rewrite is layout-only and then requires equal models', exhaustive=False)
