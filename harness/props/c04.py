"""C04 - scoping, calling convention and host globals.

leg A  MC_Scope: every statement list <= N over ScopeAlphabet (functions with 0-3 parameters and optional
       "..." parameter, calls with 0-4 arguments, local/global/library name collisions); action properties
       GlobalsFrame, FunctionBinds, NeverShrinks, invariant LibraryKept.
leg B  the same family through the real execute_script under several HOST CONFIGURATIONS (pre-populated
       globals that shadow library names with values and with functions); probes receive the variables of
       interest; the finish event carries the caller's globals object.
leg C  random programs with up to 4 functions, functions as values, systemPartial, match-function
       callbacks; expression-mode cases with locals / globals that shadow built-in expression functions."""
import itertools
import json
import random
import re

from .. import framework as F
from .. import gen_jump, realrun, tlc
from .. import abstraction as A
from . import c03, c08

MC_CFG = '''SPECIFICATION Spec
CONSTANT N = %d
CONSTANT Limit = 60
INVARIANT LibraryKept
INVARIANT EndInv
PROPERTY GlobalsFrame
PROPERTY FunctionBinds
PROPERTY NeverShrinks
CHECK_DEADLOCK FALSE
'''
PROBE = realrun.host_global('probe')
NUM = lambda n: {'t': 'num', 'f': 'q', 'n': n, 'd': 1}      # noqa: E731
HOST_CONFIGS = [
    [{'name': 'gv', 'val': NUM(0)}],
    [{'name': 'gv', 'val': NUM(0)}, {'name': 'arrayLength', 'val': NUM(5)}],
    [{'name': 'gv', 'val': NUM(0)}, {'name': 'arrayLength', 'val': {'t': 'fn', 'f': 'lib', 'name': 'arrayNew'}},
     {'name': 'arrayNew', 'val': {'t': 'fn', 'f': 'lib', 'name': 'arrayLength'}}],
    [{'name': 'gv', 'val': {'t': 'array', 'v': [NUM(1)]}}, {'name': 'x', 'val': {'t': 'str', 'v': A.cps('host')}},
     {'name': 'ff', 'val': {'t': 'fn', 'f': 'host', 'name': 'hostFail'}}, {'name': 'loc', 'val': NUM(3)}],
    # the host removes library functions by binding their names to null: the name stays null, the call is undefined
    [{'name': 'gv', 'val': NUM(0)}, {'name': 'arrayLength', 'val': {'t': 'null'}}, {'name': 'arrayNew', 'val': {'t': 'null'}},
     {'name': 'systemGlobalGet', 'val': {'t': 'null'}}],
    # the host shadows exactly ONE library name (the alphabetically first / last one): all the others are still added
    [{'name': 'gv', 'val': NUM(0)}, {'name': 'arrayCopy', 'val': NUM(5)}],
    [{'name': 'gv', 'val': NUM(0)}, {'name': 'urlEncodeComponent', 'val': {'t': 'str', 'v': A.cps('mine')}}],
]


def spaced_header(rnd, line):
    """blanks where a function header allows them: around the commas, inside the parentheses, before the colon"""
    m = re.match(r'^function (\w+)\((.*?)(\.\.\.)?\):$', line)
    if not m:
        return line
    b = lambda: rnd.choice(['', ' ', '  '])      # noqa: E731
    args = (b() + ',' + b()).join(a.strip() for a in m.group(2).split(',')) if m.group(2) else ''
    return f"function{rnd.choice([' ', '  '])}{m.group(1)}{b()}({b()}{args}{b() if m.group(3) else ''}{m.group(3) or ''}{b()}){b()}:{b()}"


def grpify(x):
    """make every tree parser-shaped: binary / unary operands that are binary expressions are written in parentheses"""
    if isinstance(x, list):
        return [grpify(y) for y in x]
    if not isinstance(x, dict):
        return x
    x = {k: grpify(v) for k, v in x.items()}
    g = lambda e: {'k': 'grp', 'e': e} if isinstance(e, dict) and e.get('k') == 'bin' else e      # noqa: E731
    if x.get('k') == 'bin':
        x['l'], x['r'] = g(x['l']), g(x['r'])
    elif x.get('k') == 'un':
        x['e'] = g(x['e']) if x['e'].get('k') == 'bin' else x['e']
    return x


def make(model, globs, limit=80, dbg=False, via_text=None):
    if via_text is not None:
        model = grpify(model)
    c = {'kind': 'script', 'model': model, 'globals': json.loads(json.dumps(globs)) + [PROBE], 'limit': limit, 'dbg': dbg}
    if via_text is not None:
        # the REAL side runs what the real parser makes of the source text (function headers written with free blanks);
        # the specification runs the intended model
        lines = [spaced_header(via_text, ln) for ln in A.jump_text(model)]
        try:
            c['real_model'] = realrun.bare_script.parse_script('\n'.join(lines) + '\n')
        except Exception:  # pylint: disable=broad-except
            return None
    return realrun.observe(c)


def rprog(rnd):
    """random program: up to 4 functions calling each other, functions as values, partials, callbacks"""
    fn = ['f1', 'f2', 'f3', 'f4'][:rnd.randint(1, 4)]
    params = ['p', 'q', 'r']
    gl = ['g1', 'g2', 'arrayLength', 'abs']
    stmts = []

    def e(d, scope):
        r = rnd.random()
        if d > 2 or r < 0.35:
            return rnd.choice([gen_jump.num(rnd.randint(0, 4)), gen_jump.var(rnd.choice(scope)), gen_jump.var(rnd.choice(fn))])
        if r < 0.55:
            return gen_jump.call(rnd.choice(fn + ['fv']), *[e(d + 1, scope) for _ in range(rnd.randint(0, 5))])
        if r < 0.65:
            return gen_jump.call('probe', gen_jump.num(rnd.randint(0, 50)), e(d + 1, scope))
        if r < 0.72:
            return gen_jump.call('systemPartial', gen_jump.var(rnd.choice(fn)), *[e(d + 1, scope) for _ in range(rnd.randint(0, 2))])
        if r < 0.80:
            return gen_jump.call(rnd.choice(['arrayIndexOf', 'arrayLastIndexOf']),
                                 gen_jump.call('arrayNew', *[gen_jump.num(rnd.randint(0, 3)) for _ in range(rnd.randint(0, 3))]),
                                 gen_jump.var(rnd.choice(fn)))
        if r < 0.815:
            # the branches of if() are ordinary expressions of the enclosing scope: they read the locals
            return gen_jump.call('if', e(d + 1, scope), gen_jump.var(rnd.choice(scope)), e(d + 1, scope))
        if r < 0.83:
            # in-place mutation of whatever the name holds (a "..." array, an argument array, a global)
            return gen_jump.call('arrayPush', gen_jump.var(rnd.choice(scope)), gen_jump.num(rnd.randint(0, 3)))
        if r < 0.88:
            return gen_jump.call(rnd.choice(['arrayLength', 'arrayNew', 'systemGlobalGet', 'systemGlobalSet']),
                                 *[rnd.choice([gen_jump.s(rnd.choice(gl)), e(d + 1, scope)]) for _ in range(rnd.randint(0, 2))])
        return {'k': 'bin', 'op': rnd.choice(['+', '<', '==', '&&', '||']), 'l': e(d + 1, scope), 'r': e(d + 1, scope)}

    def body(scope, infn):
        out = []
        for _ in range(rnd.randint(1, 5)):
            r = rnd.random()
            if r < 0.45:
                out.append({'k': 'expr', 'name': rnd.choice(scope + ['fv']), 'e': e(0, scope)})
            elif r < 0.8:
                out.append({'k': 'expr', 'name': '', 'e': gen_jump.call('probe', gen_jump.num(rnd.randint(50, 99)), gen_jump.var(rnd.choice(scope)))})
            elif infn:
                out.append({'k': 'return', 'hasE': True, 'e': e(0, scope)})
            else:
                out.append({'k': 'expr', 'name': '', 'e': e(0, scope)})
        return out
    for f in fn:
        k = rnd.randint(0, 3)
        args = rnd.sample(params + ['g1'] + [x for x in fn if x != f][:1], k)      # a parameter may carry the name of a global function: the local wins
        stmts.append({'k': 'function', 'name': f, 'args': args, 'last': bool(args) and rnd.random() < 0.3,
                      'body': body(args + gl[:2] + ['lv'], True)})
    rnd.shuffle(stmts)
    stmts[rnd.randint(0, len(stmts)):0] = body(gl, False)
    stmts.extend(body(gl, False))
    return stmts


def expr_shadow_cases(rnd, n):
    """expression mode: locals / globals named like built-in expression functions win over the built-in"""
    out = []
    names = ['abs', 'len', 'max', 'text', 'upper', 'floor']
    for _ in range(n):
        nm = rnd.choice(names)
        bind = rnd.choice([NUM(3), {'t': 'null'}, {'t': 'fn', 'f': 'lib', 'name': 'arrayNew'}, {'t': 'fn', 'f': 'host', 'name': 'probe'},
                           {'t': 'str', 'v': A.cps('s')}])
        e = rnd.choice([gen_jump.call(nm, gen_jump.num(2), gen_jump.s('Ab')), gen_jump.var(nm),
                        {'k': 'bin', 'op': '+', 'l': gen_jump.call(nm, gen_jump.s('Ab')), 'r': gen_jump.num(1)}])
        where = rnd.choice(['none', 'global', 'local', 'both'])
        c = {'kind': 'expr', 'expr': e, 'globals': [PROBE], 'limit': 0, 'bi': rnd.random() < 0.8}
        if where in ('global', 'both'):
            c['globals'] = [{'name': nm, 'val': bind}, PROBE]
        if where in ('local', 'both'):
            c['hasLocals'] = True
            c['locals'] = [{'name': nm, 'val': NUM(9) if where == 'both' else bind}]
        out.append(realrun.observe(c))
    return out


def run(ctx, replay=None):
    rnd = random.Random(ctx.seed)
    if replay is not None:
        rc = replay['case']
        keep = {k: rc[k] for k in ('kind', 'model', 'expr', 'globals', 'limit', 'dbg', 'bi', 'hasLocals', 'locals') if k in rc}
        F.judge(ctx, 'Trace_Core', [realrun.observe(keep)], None, invariants=c08.INVS, describe=c03.describe)
        return F.finish(ctx, rule='replay')
    n = ctx.pick(2, 3)
    r = tlc.check_model('MC_Scope', MC_CFG % ctx.pick(3, 4), ctx.work, tag='scope')
    ctx.mc_runs.append({'module': 'MC_Scope', 'states': r['states'], 'ok': r['ok']})
    ctx.add_stats(r)
    if not r['ok']:
        ctx.violation('design-level: MC_Scope violated', {'property': ctx.pid, 'mc': 'MC_Scope', 'out': r['out'][-3000:]})
    alpha = tlc.printed_json(r['out'], 'ALPHABET')[0]
    cases = []
    for k in range(1, n + 1):
        for ix in itertools.product(range(len(alpha)), repeat=k):
            m = [alpha[i] for i in ix]
            for hc in (HOST_CONFIGS if k < 3 else HOST_CONFIGS[:2] + HOST_CONFIGS[4:]):
                cases.append(make(m, hc))
    exhaustive = len(cases)
    for _ in range(ctx.pick(1200, 20000)):
        k = rnd.choice([3, 4, 5, 6])
        cases.append(make([alpha[rnd.randrange(len(alpha))] for _ in range(k)], rnd.choice(HOST_CONFIGS)))
    for _ in range(ctx.pick(2000, 30000)):
        hc = rnd.choice(HOST_CONFIGS[:3] + HOST_CONFIGS[4:]) + [{'name': 'g1', 'val': NUM(1)}]
        cases.append(make(rprog(rnd), hc, dbg=rnd.random() < 0.3, via_text=rnd if rnd.random() < 0.4 else None))
    nparse = sum(1 for c in cases if c is None)
    cases = [c for c in cases if c is not None]
    ctx.notes['random_programs_not_renderable_as_text'] = nparse
    cases.extend(expr_shadow_cases(rnd, ctx.pick(400, 4000)))
    F.judge(ctx, 'Trace_Core', cases, c08.canaries, invariants=c08.INVS, describe=c03.describe,
            key_fields=('kind', 'model', 'expr', 'globals', 'locals'), nontrivial=lambda c: True)
    ctx.notes['exhaustive_family'] = f'{exhaustive} (statement list <= {n} over the {len(alpha)}-symbol ScopeAlphabet) x host configurations'
    return F.finish(ctx, rule='statement lists over ScopeAlphabet x 7 host configurations (exhaustive to length n, sampled beyond), '
                    'random programs with up to 4 functions / partials / callbacks / systemGlobalGet/Set, expression-mode '
                    'shadowing cases with locals; every run validated against BareCore incl. the final globals object',
                    exhaustive=True)
