"""C05 - runtime errors are contained: only documented exceptions escape.

Every recorded finish event must be one the specification can produce: a BareScript value, or
BareScriptRuntimeError (limit / unknown label / undefined function / include) or BareScriptParserError
(bad include).  Any other exception type, an alien (non-BareScript) result value or a host time-out is
REJECTed before the functional comparison.  Where BareCore has a functional model the result, the
documented failure value and the debug-mode report (`dbgfail` event) are compared too; otherwise the case
is judged for containment only (containOnly).
 (i)  operators with adversarial operands (0 divisors, huge exponents, negative base with fractional
      exponent, arbitrary-precision integers, non-finite numbers, datetimes at the range ends)
 (ii) EVERY function of the real SCRIPT_FUNCTIONS table x argument tuples of length 0..k over one
      representative per type + boundary numbers, debug on and off
 (iii) random jump-level programs with the full operator set and failing host functions."""
import copy
import itertools
import json
import random
import datetime
import re

from .. import framework as F
from .. import gen_jump, realrun, tlc
from .. import abstraction as A
from . import c03, c08

ADV = [0, 0.0, -0.0, 1, -1, 2, 0.5, -8, 1e308, -1e308, 5e-324, 1e16, 10 ** 400, -(10 ** 400), float('inf'), float('nan'),
       1000, -0.5, 3]
ADV_OTHER = [None, True, 'x', '', datetime.datetime(1, 1, 1), datetime.datetime(9999, 12, 31, 23, 59, 59, 999000),
             datetime.datetime(2024, 3, 10, 2, 30), datetime.datetime(2024, 3, 10, 2, 30, tzinfo=datetime.timezone(datetime.timedelta(hours=5, minutes=30))),
             datetime.date(2024, 3, 10), [], [float('inf')], {'a': float('nan')}, [1, [2, [3]]]]
OPS = ['+', '-', '*', '/', '%', '**', '==', '<', '>=']          # comparisons too: arbitrary-precision ints against floats

LIB_REPS = [None, True, 0, 1, -1, 2.5, 1000003, '', 'abc', '[', '{"a":1}', datetime.datetime(2024, 2, 29, 12, 0, 0),
            [], [3, 1, 2], {}, {'a': 1, 'b': [1]}, re.compile('a+'), 'lib:arrayNew']


def gv(name, v):
    if isinstance(v, str) and v.startswith('lib:'):
        return {'name': name, 'val': {'t': 'fn', 'f': 'lib', 'name': v[4:]}}
    return {'name': name, 'real': copy.deepcopy(v)}


def observe_with_real(kind, body, gl, dbg=False, contain_only=True):
    """globals may carry raw python values (not expressible in the exact abstract domain)"""
    globs = []
    raw = {}
    for g in gl:
        if 'real' in g:
            raw[g['name']] = g['real']
            globs.append({'name': g['name'], 'val': A.aval(g['real'])})
        else:
            globs.append(g)
    case = {'kind': kind, 'globals': globs, 'limit': 500, 'dbg': dbg, 'containOnly': contain_only, 'raw_globals': raw}
    if kind == 'expr':
        case['expr'] = body
    else:
        case['model'] = body
    return realrun.observe(case)


def canaries(case):
    c = json.loads(json.dumps(case))
    c['fin']['status'] = 'host:ZeroDivisionError'
    c2 = json.loads(json.dumps(case))
    c2['fin']['status'] = 'host:alien-value:complex'
    return [c, c2]


def run(ctx, replay=None):
    rnd = random.Random(ctx.seed)
    if replay is not None:
        rc = replay['case']
        # replays carry abstract globals only (values outside the exact domain are regenerated from them)
        case = realrun.observe({k: rc[k] for k in ('kind', 'globals', 'limit', 'dbg') if k in rc} |
                               ({'expr': rc['expr']} if rc['kind'] == 'expr' else {'model': rc['model']}) |
                               {'containOnly': rc.get('containOnly', True)})
        F.judge(ctx, 'Trace_Core', [case], None, invariants=c08.INVS, describe=c03.describe, key_fields=('kind', 'expr', 'model', 'globals'))
        return F.finish(ctx, rule='replay')
    cases = []
    # (i) operators x adversarial operands
    allv = ADV + ADV_OTHER
    for op in OPS:
        for a in ADV:
            for b in (allv if not ctx.quick else ADV + ADV_OTHER[::2]):
                for x, y in ((a, b), (b, a)):
                    if op == '**' and isinstance(x, int) and isinstance(y, int) and not isinstance(y, bool) and abs(y) > 1000:
                        continue        # integer power with an astronomically large exponent: a resource question, not C05
                    e = {'k': 'bin', 'op': op, 'l': c03.var('x'), 'r': c03.var('y')}
                    cases.append(observe_with_real('expr', e, [gv('x', x), gv('y', y)]))
    # comparisons among the non-number operands too (datetimes of every flavour against each other, containers, strings)
    for op in ('==', '!=', '<', '>='):
        for a in ADV_OTHER:
            for b in ADV_OTHER:
                e = {'k': 'bin', 'op': op, 'l': c03.var('x'), 'r': c03.var('y')}
                cases.append(observe_with_real('expr', e, [gv('x', a), gv('y', b)]))
    for a in allv:
        cases.append(observe_with_real('expr', {'k': 'un', 'op': '-', 'e': c03.var('x')}, [gv('x', a)]))
        cases.append(observe_with_real('script', [{'k': 'return', 'hasE': True, 'e': {'k': 'bin', 'op': '+', 'l': gen_jump.s('s'), 'r': c03.var('x')}}], [gv('x', a)]))
    n_ops = len(cases)
    # (ii) every library function x argument tuples
    from bare_script.library import SCRIPT_FUNCTIONS
    maxlen = ctx.pick(2, 3)
    reps = LIB_REPS if not ctx.quick else LIB_REPS[:1] + LIB_REPS[2:5] + LIB_REPS[7:9] + LIB_REPS[11:14] + LIB_REPS[15:]
    names = sorted(SCRIPT_FUNCTIONS)
    for fname in names:
        for k in range(0, maxlen + 1):
            tuples = list(itertools.product(range(len(reps)), repeat=k))
            if k == 3:
                tuples = rnd.sample(tuples, 400)
            for tup in tuples:
                gl = [gv(f'x{i}', reps[t]) for i, t in enumerate(tup)]
                body = [{'k': 'return', 'hasE': True, 'e': gen_jump.call(fname, *[c03.var(f'x{i}') for i in range(k)])}]
                cases.append(observe_with_real('script', body, gl, dbg=(len(cases) % 2 == 0)))
    n_lib = len(cases) - n_ops
    # (iii) random programs with failing host functions and the full operator set
    for _ in range(ctx.pick(1500, 40000)):
        m = gen_jump.rmodel(rnd, maxlen=rnd.choice([6, 14]), fnames=('ff', 'hostFail'))
        gl = gen_jump.default_globals(rnd) + [realrun.host_global('probe'), realrun.host_global('hostFail')]
        c = {'kind': 'script', 'model': m, 'globals': gl, 'limit': rnd.choice([200, 40]), 'dbg': rnd.random() < 0.5, 'containOnly': True}
        cases.append(realrun.observe(c))
    # (iv) systemFetch over lists of locations where some fetches fail (missing: the host returns nothing; throws: the host function
    # raises): every failing element is null, the others keep their text, nothing escapes
    def ent(url, kind, text=''):
        return {'url': A.cps(url), 'kind': kind, 'model': [], 'text': text, 'cps': A.cps(text), 'data': True}
    vfs = [ent('d1.txt', 'text', 'one'), ent('d2.txt', 'text', 'two'), ent('boom.txt', 'throws'), ent('gone.txt', 'missing')]
    inc = {'vfs': vfs, 'sys': [], 'hasSys': False, 'base': [], 'hasBase': False, 'hasFetch': True}
    urls = ['d1.txt', 'd2.txt', 'boom.txt', 'gone.txt', 'nowhere.txt']
    for k in (1, 2, 3):
        for tup in itertools.product(urls, repeat=k):
            if k == 3 and rnd.random() < 0.6:
                continue
            args = [gen_jump.s(u) if rnd.random() < 0.7 else gen_jump.call('objectNew', gen_jump.s('url'), gen_jump.s(u)) for u in tup]
            e = gen_jump.call('systemFetch', gen_jump.call('arrayNew', *args)) if k > 1 or rnd.random() < 0.5 else gen_jump.call('systemFetch', args[0])
            body = [{'k': 'return', 'hasE': True, 'e': e}]
            cases.append(realrun.observe({'kind': 'script', 'model': body, 'globals': [], 'limit': 100, 'dbg': len(cases) % 2 == 0,
                                          'inc': json.loads(json.dumps(inc))}))
    for c in cases:
        c.pop('raw_globals', None)
    F.judge(ctx, 'Trace_Core', cases, canaries, invariants=c08.INVS, describe=c03.describe,
            key_fields=('kind', 'expr', 'model', 'globals'), nontrivial=lambda c: True)
    dbg = sum(1 for c in cases for e in c['trace'] if e['ev'] == 'dbgfail')
    if not dbg:
        ctx.vacuous('vacuity: no debug-mode failure report was observed')
    ctx.notes.update({'operator_cases': n_ops, 'library_calls': n_lib, 'library_functions': len(names),
                      'debug_failure_reports_seen': dbg})
    return F.finish(ctx, rule='6 arithmetic operators x adversarial operand pairs; every function of SCRIPT_FUNCTIONS x argument '
                    'tuples of length 0..%d over %d representatives (debug on/off alternating); random jump programs with '
                    'failing host functions; a case is rejected when anything but a documented exception or a BareScript '
                    'value escapes' % (maxlen, len(reps)), exhaustive=False)
