"""C18 - lint is pure, never fails, and its warnings are semantically justified.

leg A  MC_Lint: on every statement list <= N over the jump alphabet, every edit the rules of BareLint suggest
       (delete unused label / pointless statement, rename unused variable / argument) leaves result, probe sequence
       and globals of the specified run unchanged; no unknown label => no "Unknown jump label" error.
leg B/C  the real lint_script on every alphabet model, on parsed structured programs, on random jump models with
       user labels, duplicate labels, dangling jumps, duplicate functions / arguments, and on the shipped scripts:
       purity flags + exactness of the label / redefinition warning sets against BareLint (Trace_Lint "lint");
       for every actionable warning the edit is applied to the REAL model and both models are run by the real
       runtime - nothing observable may differ (Trace_Lint "edit")."""
import copy
import itertools
import json
import random
import re

from .. import framework as F
from .. import gen_jump, gen_struct, realrun, tlc
from .. import abstraction as A

PATTERNS = [
    (re.compile(r'^Unknown global label "(?P<n>.*)" \(index (?P<i>\d+)\)$'), 'unknown-label', True),
    (re.compile(r'^Unknown label "(?P<n>.*)" in function "(?P<f>.*)" \(index (?P<i>\d+)\)$'), 'unknown-label', False),
    (re.compile(r'^Redefinition of global label "(?P<n>.*)" \(index (?P<i>\d+)\)$'), 'redef-label', True),
    (re.compile(r'^Redefinition of label "(?P<n>.*)" in function "(?P<f>.*)" \(index (?P<i>\d+)\)$'), 'redef-label', False),
    (re.compile(r'^Redefinition of function "(?P<n>.*)" \(index (?P<i>\d+)\)$'), 'redef-function', True),
    (re.compile(r'^Duplicate argument "(?P<n>.*)" of function "(?P<f>.*)" \(index (?P<i>\d+)\)$'), 'dup-arg', False),
    (re.compile(r'^Unused global label "(?P<n>.*)" \(index (?P<i>\d+)\)$'), 'unused-label', True),
    (re.compile(r'^Unused label "(?P<n>.*)" in function "(?P<f>.*)" \(index (?P<i>\d+)\)$'), 'unused-label', False),
    (re.compile(r'^Unused variable "(?P<n>.*)" defined in function "(?P<f>.*)" \(index (?P<i>\d+)\)$'), 'unused-variable', False),
    (re.compile(r'^Unused argument "(?P<n>.*)" of function "(?P<f>.*)" \(index (?P<i>\d+)\)$'), 'unused-argument', False),
    (re.compile(r'^Pointless global statement \(index (?P<i>\d+)\)$'), 'pointless', True),
    (re.compile(r'^Pointless statement in function "(?P<f>.*)" \(index (?P<i>\d+)\)$'), 'pointless', False),
]


def parse_warning(w):
    for rx, kind, glob in PATTERNS:
        m = rx.match(w)
        if m:
            d = m.groupdict()
            return {'kind': kind, 'scope': '' if glob else d.get('f', ''), 'name': d.get('n', ''), 'index': int(d['i'])}
    return {'kind': 'other', 'scope': '', 'name': w[:60], 'index': 0}


def lint_case(model_real):
    from bare_script import lint_script
    before = copy.deepcopy(model_real)
    raised, ws, ws2 = '', [], []
    try:
        ws = lint_script(model_real)
        ws2 = lint_script(model_real)
    except Exception as exc:  # pylint: disable=broad-except
        raised = f'{type(exc).__name__}: {exc}'[:120]
    return {'kind': 'lint', 'model': A.amodel(model_real), 'warnings': [parse_warning(w) for w in ws], 'raised': raised,
            'unchanged': model_real == before, 'same2': ws == ws2, 'base': {}, 'edited': {}, 'warning': {}, 'texts': list(ws)}, ws


def observe_run(model_real, globs):
    c = realrun.observe({'kind': 'script', 'model': A.amodel(model_real), 'real_model': model_real,
                         'globals': json.loads(json.dumps(globs)) + [realrun.host_global('probe')], 'limit': 1500, 'dbg': False})
    return {'status': c['fin']['status'] + ':' + str(c['fin']['arg']), 'ret': c['fin']['ret'],
            'log': [{k: v for k, v in e.items() if k != 'cnt'} for e in c['trace']],
            'globals': {k: v for k, v in c['fin']['globals'].items() if v.get('t') != 'fn'}}


def apply_edit(model_real, w):
    m = copy.deepcopy(model_real)
    if w['scope'] == '':
        stmts = m['statements']
        fdef = None
    else:
        fns = [s['function'] for s in m['statements'] if 'function' in s and s['function']['name'] == w['scope']]
        if len(fns) != 1:
            return None
        fdef = fns[0]
        stmts = fdef['statements']
    k = w['kind']
    if k == 'unused-label':
        stmts[:] = [s for s in stmts if s.get('label') != w['name']]
    elif k == 'pointless':
        del stmts[w['index']]
    elif k == 'unused-variable':
        for s in stmts:
            if 'expr' in s and s['expr'].get('name') == w['name']:
                s['expr']['name'] = w['name'] + '_unused'
    elif k == 'unused-argument':
        fdef['args'] = [a + '_unused' if a == w['name'] else a for a in fdef['args']]
    else:
        return None
    return m


def cases_for(model_real, globs, run_edits=True):
    lc, _ = lint_case(model_real)
    out = [lc]
    if run_edits and not lc['raised']:
        base = None
        for w in lc['warnings']:
            if w['kind'] not in ('unused-label', 'pointless', 'unused-variable', 'unused-argument'):
                continue
            edited = apply_edit(model_real, w)
            if edited is None:
                continue
            if base is None:
                base = observe_run(model_real, globs)
                if base['status'].startswith('limit'):
                    break
            out.append({'kind': 'edit', 'model': lc['model'], 'warnings': [], 'raised': '', 'unchanged': True, 'same2': True,
                        'base': base, 'edited': observe_run(edited, globs), 'warning': w})
    return out


def alpha_job(model_abs):
    return cases_for(A.gmodel(model_abs), gen_jump.default_globals() and
                     [{'name': 'a', 'val': {'t': 'num', 'f': 'q', 'n': 0, 'd': 1}}, {'name': 'b', 'val': {'t': 'null'}}])


def rand_job(seed):
    rnd = random.Random(seed)
    if rnd.random() < 0.5:
        m = gen_jump.rmodel(rnd, maxlen=rnd.choice([6, 14, 25]), ops=['+', '-', '*', '<', '==', '&&', '||'])
        # duplicate functions / arguments
        for s in m:
            if s['k'] == 'function' and rnd.random() < 0.3 and s['args']:
                s['args'] = s['args'] + [s['args'][0]]
            if s['k'] == 'function' and rnd.random() < 0.25:
                # several dangling jumps / unused labels with varied names in ONE scope (the order of the warnings is part of
                # "the same model always gives the same warnings")
                for nm in rnd.sample(['alpha', 'Lx', 'b2', 'zz', 'Q', 'mid', 'k9'], rnd.randint(2, 4)):
                    s['body'].insert(rnd.randint(0, len(s['body'])), {'k': 'jump', 'label': nm, 'hasE': True, 'e': gen_jump.var('false')}
                                     if rnd.random() < 0.6 else {'k': 'label', 'v': nm})
        if rnd.random() < 0.2:
            for nm in rnd.sample(['alpha', 'Lx', 'b2', 'zz', 'Q', 'mid', 'k9'], rnd.randint(2, 4)):
                m.insert(rnd.randint(0, len(m)), {'k': 'jump', 'label': nm, 'hasE': True, 'e': gen_jump.var('false')})
        if rnd.random() < 0.25:
            # statements that call a function named like an expression built-in (in scripts these names are user functions or
            # undefined): never pointless - deleting one changes the output or the error
            nm = rnd.choice(['max', 'len', 'abs', 'log', 'text'])
            if rnd.random() < 0.6:
                m.insert(0, {'k': 'function', 'name': nm, 'args': ['p'], 'last': False,
                             'body': [{'k': 'expr', 'name': '', 'e': gen_jump.call('probe', gen_jump.num(77), gen_jump.var('p'))}]})
            m.insert(rnd.randint(1, len(m)), {'k': 'expr', 'name': '', 'e': gen_jump.call(nm, gen_jump.num(rnd.randint(1, 3)), gen_jump.num(2))})
        return cases_for(A.gmodel(m), gen_jump.default_globals(rnd))
    prog = gen_struct.rprogram(rnd, maxdepth=rnd.choice([2, 3, 4]))
    text = '\n'.join(A.struct_text(prog)) + '\n'
    script = realrun.bare_script.parse_script(text)
    if rnd.random() < 0.2:
        # a parsed model with one label statement deleted: its jumps now dangle, whatever the label is called
        scopes = [script['statements']] + [s['function']['statements'] for s in script['statements'] if 'function' in s]
        scope = rnd.choice(scopes)
        labs = [i for i, s in enumerate(scope) if 'label' in s]
        if labs:
            del scope[rnd.choice(labs)]
    vals = [{'t': 'num', 'f': 'q', 'n': 1, 'd': 1}, {'t': 'null'}, {'t': 'str', 'v': A.cps('a')}, {'t': 'array', 'v': [{'t': 'num', 'f': 'q', 'n': 2, 'd': 1}]}]
    g = [{'name': n, 'val': rnd.choice(vals)} for n in gen_struct.GVARS] + [{'name': 'garr', 'val': vals[3]}, {'name': 'gdepth', 'val': {'t': 'num', 'f': 'q', 'n': 0, 'd': 1}}]
    return cases_for(script, g)


def shipped():
    import importlib.resources
    out = []
    for entry in sorted(importlib.resources.files('bare_script.include').iterdir(), key=lambda e: e.name):
        if entry.name.endswith('.bare'):
            script = realrun.bare_script.parse_script(entry.read_text(encoding='utf-8'))
            out.extend(cases_for(script, [], run_edits=False))
    return out


OTHER_PROCESS = """
import json, sys
from bare_script import lint_script
from harness import abstraction as A
out = []
for m in json.load(sys.stdin):
    try:
        out.append(lint_script(A.gmodel(m)))
    except Exception as exc:
        out.append(['raised ' + type(exc).__name__])
json.dump(out, sys.stdout)
"""


def other_processes(cases, limit):
    """"the same model always gives the same warnings" - also in another interpreter process with another string-hash seed:
    the sampled lint cases are linted again in fresh processes (PYTHONHASHSEED 1 to 4); a different list clears same2"""
    import os
    import subprocess
    import sys
    pick = [c for c in cases if c['kind'] == 'lint' and len(c['warnings']) >= 2 and not c['raised']
            and not any(s['k'] == 'include' for s in c['model'])]
    pick.sort(key=lambda c: -len(c['warnings']))        # the more warnings, the more orders there are to get wrong
    pick = pick[:limit]
    if not pick:
        return 0
    payload = json.dumps([c['model'] for c in pick])
    for seed in ('1', '2', '3', '4'):
        env = dict(os.environ, PYTHONHASHSEED=seed)
        r = subprocess.run([sys.executable, '-c', OTHER_PROCESS], input=payload, capture_output=True, text=True, env=env, timeout=1200, check=False)
        if r.returncode != 0:
            raise tlc.MachineryError('lint in another process failed: ' + r.stderr[-300:])
        for c, ws in zip(pick, json.loads(r.stdout)):
            if ws != c['texts']:
                c['same2'] = False
    return len(pick)


def canaries(case):
    c = json.loads(json.dumps(case))
    if case['kind'] == 'lint':
        uk = [w for w in case['warnings'] if w['kind'] == 'unknown-label']
        if uk:
            c['warnings'] = [w for w in c['warnings'] if w != uk[0]]
        else:
            c['warnings'].append({'kind': 'unknown-label', 'scope': '', 'name': 'no_such_label', 'index': 0})
        c2 = json.loads(json.dumps(case))
        c2['unchanged'] = False
        return [c, c2]
    c['edited']['ret'] = {'t': 'str', 'v': A.cps('corrupted')}
    return [c]


def run(ctx, replay=None):
    rnd = random.Random(ctx.seed)
    if replay is not None:
        F.judge(ctx, 'Trace_Lint', [replay['case']], None, key_fields=('kind', 'model', 'warning'))
        return F.finish(ctx, rule='replay (recorded case re-judged)')
    n = ctx.pick(3, 4)
    r = tlc.check_model('MC_Lint', 'SPECIFICATION Spec\nCONSTANT N = %d\nINVARIANT EditsSound\nINVARIANT NoUnknownNoError\nCHECK_DEADLOCK FALSE\n' % n,
                        ctx.work, tag='lint', timeout=3400)
    ctx.mc_runs.append({'module': 'MC_Lint', 'N': n, 'states': r['states'], 'ok': r['ok'], 'seconds': round(r['seconds'], 1)})
    ctx.add_stats(r)
    if not r['ok']:
        ctx.violation('design-level: MC_Lint violated', {'property': ctx.pid, 'mc': 'MC_Lint', 'out': r['out'][-3000:]})
    alpha = tlc.printed_json(r['out'], 'ALPHABET')[0]
    jobs = []
    for k in range(1, ctx.pick(3, 4) + 1):
        tuples = itertools.product(range(len(alpha)), repeat=k)
        if len(alpha) ** k > 20000:       # the longest length of the thorough tier: a 20 000-model sample (memory)
            tuples = rnd.sample(list(tuples), 20000)
            ctx.notes['sampled_models_of_length_%d' % k] = 20000
        for ix in tuples:
            jobs.append(([alpha[i] for i in ix],))
    cases = [c for cs in F.pmap(alpha_job, jobs) for c in cs]
    nalpha = len(jobs)
    cases += [c for cs in F.pmap(rand_job, [(ctx.seed * 104729 + i,) for i in range(ctx.pick(2500, 25000))]) for c in cs]
    cases += shipped()
    ctx.notes['models_linted_again_in_other_processes'] = other_processes(cases, ctx.pick(1500, 20000))
    F.judge(ctx, 'Trace_Lint', cases, canaries, key_fields=('kind', 'model', 'warning'),
            describe=lambda c: {'kind': c['kind'], 'warnings': c['warnings'][:6], 'warning_acted_on': c['warning'],
                                'source': A.jump_text(c['model'])[:25] if not any(s['k'] == 'include' for s in c['model']) else '(shipped script)'},
            nontrivial=lambda c: bool(c['warnings']) or c['kind'] == 'edit')
    kinds = {}
    for c in cases:
        for w in c['warnings']:
            kinds[w['kind']] = kinds.get(w['kind'], 0) + 1
    edits = sum(1 for c in cases if c['kind'] == 'edit')
    for need in ('unknown-label', 'redef-label', 'unused-label', 'unused-argument', 'pointless'):
        if not kinds.get(need):
            ctx.vacuous(f'vacuity: no {need} warning in the sample')
    ctx.notes.update({'alphabet_models': nalpha, 'warnings_by_kind': kinds, 'edits_run': edits})
    return F.finish(ctx, rule='every statement list <= %d over the jump alphabet (the longest length sampled when it exceeds 20 000 models), random jump models with duplicate labels / dangling jumps / '
                    'duplicate functions and arguments, parsed random structured programs, the shipped scripts; for every actionable '
                    'warning the edited real model is run against the original' % ctx.pick(3, 4), exhaustive=True)
