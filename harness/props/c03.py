"""C03 - expression evaluation follows the typed operator semantics.

leg A  MC_Expr: operator x representative^2 matrix (closure, sign tests of Compare, null for unsupported
       types) and effect-order laws on all trees to depth 2 with numbered probe leaves.
leg B  the same matrix and the same trees evaluated by the real evaluate_expression AND by
       execute_script (`return <expr>`), each recorded run validated against Trace_Core.
leg C  random trees to depth 6 over operands of every type with probes as operands.
alias  every expression built-in called in expression mode and as the library function (Trace_Alias)."""
import json
import random

from .. import framework as F
from .. import gen_jump, realrun, tlc
from .. import abstraction as A
from . import c08

MC_CFG = '''SPECIFICATION Spec
CONSTANT Depth = %d
INVARIANT MatrixOK
INVARIANT OrderOK
%s
CHECK_DEADLOCK FALSE
'''
BINOPS = ['+', '-', '*', '/', '%', '**', '==', '!=', '<', '<=', '>', '>=', '&&', '||']
PROBE = realrun.host_global('probe')


def var(n):
    return {'k': 'var', 'v': n}


def expr_case(e, globs, bi=True, dbg=False):
    return realrun.observe({'kind': 'expr', 'expr': e, 'globals': json.loads(json.dumps(globs)), 'limit': 0, 'bi': bi, 'dbg': dbg})


def script_case(e, globs, dbg=False):
    m = [{'k': 'return', 'hasE': True, 'e': e}]
    return realrun.observe({'kind': 'script', 'model': m, 'globals': json.loads(json.dumps(globs)), 'limit': 0, 'dbg': dbg})


def rep_globals(reps):
    return [{'name': f'v{i}', 'val': r} for i, r in enumerate(reps)] + [PROBE]


def rtree(rnd, nrep, d, maxd):
    r = rnd.random()
    if d >= maxd or r < 0.22:
        c = rnd.random()
        if c < 0.6:
            leaf = var(f'v{rnd.randrange(nrep)}')
        elif c < 0.8:
            leaf = gen_jump.num(rnd.choice([0, 1, 2, 3, 7]), rnd.choice([1, 1, 2, 4]))
        else:
            leaf = gen_jump.s(rnd.choice(['', 'a', 'b1', '10']))
        if rnd.random() < 0.5:
            return gen_jump.call('probe', gen_jump.num(rnd.randint(0, 99)), leaf)
        return leaf
    if r < 0.32:
        return {'k': 'un', 'op': rnd.choice('!-'), 'e': rtree(rnd, nrep, d + 1, maxd)}
    if r < 0.40:
        return {'k': 'grp', 'e': rtree(rnd, nrep, d + 1, maxd)}
    if r < 0.50:
        return gen_jump.call('if', *[rtree(rnd, nrep, d + 1, maxd) for _ in range(rnd.choice([1, 2, 3, 3]))])
    if r < 0.53:
        # a call of something that is not a function: ALL arguments are evaluated (left to right) before the call fails
        return gen_jump.call(rnd.choice(['nosuchfn', 'v0', 'v1']), *[rtree(rnd, nrep, d + 1, maxd) for _ in range(rnd.choice([1, 2, 3]))])
    return {'k': 'bin', 'op': rnd.choice(BINOPS), 'l': rtree(rnd, nrep, d + 1, maxd), 'r': rtree(rnd, nrep, d + 1, maxd)}


ALIAS_ARGS = {
    'number': [0, 1, -1.5, 2.25, 9, 16, 0.5, 100],
    'string': ['', 'abc', 'Hello World', ' pad ', 'a,b', '12', '1.5e+3', 'ff'],
}
NONDET = {'now', 'today', 'rand'}


def alias_cases(rnd, aliases, per):
    """arguments come from the aliased library function's own argument model (as in C12), biased towards
    strings with repeated substrings so that first / last occurrence functions differ"""
    from . import c12
    rep = ['abcabc', 'aXbXc', 'b', 'X', 'c', 'bc', 'Hello World', 'l', 'o W', '']
    out = []
    for alias, lib in sorted(aliases.items()):
        fixed = [['abcabc', 'b'], ['abcabc', 'b', 2], ['aXbXc', 'X', 1], ['abcabc', 'c', 3], ['abcabc', 'bc', 4], [2.5], [-2.5], [7, 2], [2024, 2, 29],
                 [1.005, 2], ['  pad  '], ['Ab'], [65, 98], ['ff', 16], ['1.5e3'], [9], [0.5]]
        for k in range(per + len(fixed)):
            if k < len(fixed):
                args = list(fixed[k])
            else:
                args = c12.gen_args(rnd, lib)
                args = [rnd.choice(rep) if isinstance(a, str) and not a.startswith('lib:') and rnd.random() < 0.7 else a for a in args]
                args = [a for a in args if not (isinstance(a, str) and a.startswith('lib:'))]
            globs = [{'name': f'a{i}', 'val': A.aval(v)} for i, v in enumerate(args)]
            argv = [var(f'a{i}') for i in range(len(args))]
            c1 = expr_case(gen_jump.call(alias, *argv), globs, bi=True)
            c2 = script_case(gen_jump.call(lib, *argv), globs)
            out.append(({'alias': alias, 'lib': lib, 'r1': c1['fin']['ret'], 'r2': c2['fin']['ret'],
                         's1': c1['fin']['status'], 's2': c2['fin']['status'], 'nondet': alias in NONDET,
                         'g1': c1['fin']['globals'], 'g2': {k2: v for k2, v in c2['fin']['globals'].items()},
                         'args': [A.aval(v) for v in args]}, c1, c2))
    return out


def describe(c):
    try:
        src = A.expr_text(c['expr']) if c['kind'] == 'expr' else A.jump_text(c['model'])
    except Exception:  # pylint: disable=broad-except
        src = '(model-level expression)'
    return {'kind': c['kind'], 'source': src, 'result': c['fin']['ret'], 'status': c['fin']['status'],
            'events': len(c['trace'])}


def canaries(case):
    out = []
    if case['fin']['status'] == 'done':
        c = json.loads(json.dumps(case))
        c['fin']['ret'] = {'t': 'str', 'v': A.cps('corrupted')} if c['fin']['ret']['t'] != 'str' else {'t': 'null'}
        out.append(c)
    if case['trace']:
        c = json.loads(json.dumps(case))
        c['trace'].reverse()
        if c['trace'] != case['trace']:
            out.append(c)
        c = json.loads(json.dumps(case))
        c['trace'].pop()
        out.append(c)
    return out


def run(ctx, replay=None):
    rnd = random.Random(ctx.seed)
    if replay is not None:
        rc = replay['case']
        if rc['kind'] == 'expr':
            case = expr_case(rc['expr'], rc['globals'], rc.get('bi', True), rc.get('dbg', False))
        else:
            case = realrun.observe({'kind': 'script', 'model': rc['model'], 'globals': rc['globals'], 'limit': rc['limit'], 'dbg': rc.get('dbg', False)})
        F.judge(ctx, 'Trace_Core', [case], None, invariants=c08.INVS, describe=describe, key_fields=('expr', 'model', 'globals'))
        return F.finish(ctx, rule='replay')
    depth = 2
    r = tlc.check_model('MC_Expr', MC_CFG % (depth, 'INVARIANT EmitTree'), ctx.work, tag='expr', workers=1)
    ctx.mc_runs.append({'module': 'MC_Expr', 'Depth': depth, 'states': r['states'], 'ok': r['ok']})
    ctx.add_stats(r)
    if not r['ok']:
        ctx.violation('design-level: MC_Expr violated', {'property': ctx.pid, 'mc': 'MC_Expr', 'out': r['out'][-3000:]})
    reps = tlc.printed_json(r['out'], 'REPS')[0]
    aliases = tlc.printed_json(r['out'], 'ALIASES')[0]
    trees = tlc.printed_json(r['out'], 'TREE')
    if len(trees) < 1000:
        raise tlc.MachineryError('MC_Expr printed too few trees')
    globs = rep_globals(reps)
    cases = []
    # operator matrix (exhaustive): expression mode and statement mode
    for op in BINOPS:
        for i in range(len(reps)):
            for j in range(len(reps)):
                e = {'k': 'bin', 'op': op, 'l': var(f'v{i}'), 'r': var(f'v{j}')}
                g2 = [globs[i], globs[j]] if i != j else [globs[i]]
                cases.append(expr_case(e, g2))
                if ctx.pick((i + j) % 4 == 0, True):
                    cases.append(script_case(e, g2))
    for op in '!-':
        for i in range(len(reps)):
            cases.append(expr_case({'k': 'un', 'op': op, 'e': var(f'v{i}')}, [globs[i]]))
    matrix = len(cases)
    # all depth-2 effect trees from TLC
    for t in (trees if not ctx.quick else trees[::3]):
        cases.append(expr_case(t, [PROBE]))
    ntrees = len(cases) - matrix
    # random deep trees over operands of every type
    for _ in range(ctx.pick(2500, 50000)):
        e = rtree(rnd, len(reps), 0, rnd.choice([2, 3, 4, 6]))
        used = set()
        realrun.collect_names([{'k': 'expr', 'name': '', 'e': e}], used)
        g2 = [g for g in globs if g['name'] in used or g['name'] == 'probe']
        if rnd.random() < 0.5:
            cases.append(expr_case(e, g2, dbg=rnd.random() < 0.3))
        else:
            cases.append(script_case(e, g2, dbg=rnd.random() < 0.3))
    # datetime arithmetic: instants up to ten days apart at millisecond resolution (the difference is an exact integer),
    # datetime +/- milliseconds
    for _ in range(ctx.pick(900, 20000)):
        d0 = rnd.randint(1000, 3600000)
        da = {'t': 'dt', 'd': d0, 'ms': rnd.randrange(86400000)}
        db = {'t': 'dt', 'd': d0 + rnd.randint(-9, 9), 'ms': rnd.choice([rnd.randrange(86400000), (da['ms'] + rnd.randint(-5000, 5000)) % 86400000])}
        g2 = [{'name': 'da', 'val': da}, {'name': 'db', 'val': db}, {'name': 'n', 'val': A.aval(float(rnd.randint(-10 ** 9, 10 ** 9)))}]
        e = rnd.choice([{'k': 'bin', 'op': '-', 'l': var('da'), 'r': var('db')},
                        {'k': 'bin', 'op': '==', 'l': {'k': 'bin', 'op': '-', 'l': var('da'), 'r': var('db')}, 'r': var('n')},
                        {'k': 'bin', 'op': '-', 'l': {'k': 'bin', 'op': '+', 'l': var('da'), 'r': var('n')}, 'r': var('da')},
                        {'k': 'bin', 'op': '+', 'l': gen_jump.s(''), 'r': {'k': 'bin', 'op': '-', 'l': var('da'), 'r': var('db')}}])
        cases.append(expr_case(e, g2) if rnd.random() < 0.5 else script_case(e, g2))
    # fractional offsets: a datetime moves by whole microseconds (0.5 ms + 0.5 ms = 1 ms)
    fr = [gen_jump.num(1, 2), gen_jump.num(1, 4), gen_jump.num(3, 2), gen_jump.num(1, 8), gen_jump.num(11, 4), gen_jump.num(1), gen_jump.num(2),
          {'k': 'un', 'op': '-', 'e': gen_jump.num(1, 2)}, {'k': 'un', 'op': '-', 'e': gen_jump.num(3, 4)}]
    for _ in range(ctx.pick(400, 8000)):
        da = {'t': 'dt', 'd': rnd.randint(1000, 3600000), 'ms': rnd.randrange(86400000)}
        g2 = [{'name': 'da', 'val': da}]
        plus = lambda a, b: {'k': 'bin', 'op': '+', 'l': a, 'r': b}      # noqa: E731
        x, y, z = rnd.choice(fr), rnd.choice(fr), rnd.choice(fr)
        e = rnd.choice([{'k': 'bin', 'op': rnd.choice(['==', '<', '>=']), 'l': plus(plus(var('da'), x), y), 'r': plus(var('da'), z)},
                        {'k': 'bin', 'op': '==', 'l': plus(x, plus(y, var('da'))), 'r': plus(var('da'), z)},
                        {'k': 'bin', 'op': '+', 'l': gen_jump.s(''), 'r': plus(plus(var('da'), x), y)},
                        {'k': 'bin', 'op': rnd.choice(['==', '!=', '<']), 'l': plus(var('da'), x), 'r': var('da')}])
        cases.append(expr_case(e, g2) if rnd.random() < 0.5 else script_case(e, g2))
    # a number far outside the datetime range on either side of + gives null (never a host exception)
    for _ in range(ctx.pick(120, 2000)):
        da = {'t': 'dt', 'd': rnd.randint(1000, 3600000), 'ms': rnd.randrange(86400000)}
        big = rnd.choice([1e15, -1e15, 1e300, 3e17, -8.64e15, 2.0 ** 62])
        g2 = [{'name': 'da', 'val': da}, {'name': 'n', 'val': A.aval(big)}]
        e = {'k': 'bin', 'op': '+', 'l': var('n'), 'r': var('da')} if rnd.random() < 0.5 else {'k': 'bin', 'op': '+', 'l': var('da'), 'r': var('n')}
        cases.append(expr_case(e, g2) if rnd.random() < 0.5 else script_case(e, g2))
    # objects compare by their sorted keys: the order of insertion does not matter
    for _ in range(ctx.pick(200, 4000)):
        keys = rnd.sample(['x', 'y', 'a', 'k2', ''], rnd.randint(1, 4))
        vals = {k: rnd.choice([1, 2, 'v', None, [1]]) for k in keys}
        oa = {k: vals[k] for k in keys}
        perm = keys[:]
        rnd.shuffle(perm)
        ob = {k: vals[k] for k in perm}
        if rnd.random() < 0.3 and perm:
            ob[perm[0]] = rnd.choice([1, 3, 'w'])
        g2 = [{'name': 'oa', 'val': A.aval(oa)}, {'name': 'ob', 'val': A.aval(ob)}]
        e = {'k': 'bin', 'op': rnd.choice(['==', '!=', '<', '>=']), 'l': var('oa'), 'r': var('ob')}
        cases.append(expr_case(e, g2) if rnd.random() < 0.5 else script_case(e, g2))
    # arrays are ordered element by element, the length decides only between a prefix and its extension
    def rarr(d=0):
        return [rnd.choice([0, 1, 2, 3, 'a', None, True]) if d or rnd.random() < 0.85 else rarr(d + 1) for _ in range(rnd.randint(0, 3))]
    for _ in range(ctx.pick(500, 10000)):
        xa = rarr()
        xb = rarr() if rnd.random() < 0.5 else xa[:rnd.randint(0, len(xa))] + rarr()[:rnd.randint(0, 2)]
        if rnd.random() < 0.2:
            # elements the host language takes for equal: true / 1, false / 0
            xa, xb = rnd.choice([([True], [1]), ([0], [False]), ([[True]], [[1]]), ([1, True], [True, 1]), ([False, 2], [0, 2]), ([True, 'a'], [1, 'a'])])
            if rnd.random() < 0.5:
                xa, xb = xb, xa
        g2 = [{'name': 'xa', 'val': A.aval(xa)}, {'name': 'xb', 'val': A.aval(xb)}]
        e = {'k': 'bin', 'op': rnd.choice(['<', '<=', '>', '>=', '==', '!=']), 'l': var('xa'), 'r': var('xb')}
        cases.append(expr_case(e, g2) if rnd.random() < 0.5 else script_case(e, g2))
    F.judge(ctx, 'Trace_Core', cases, canaries, invariants=c08.INVS, describe=describe,
            key_fields=('kind', 'expr', 'model', 'globals'), nontrivial=lambda c: True)
    # alias clause
    al = alias_cases(rnd, aliases, ctx.pick(25, 300))
    F.judge(ctx, 'Trace_Alias', [a for a, _, _ in al], None, tag='alias', key_fields=('alias', 'args'),
            describe=lambda a: {'alias': a['alias'], 'library': a['lib'], 'args': a['args'], 'result': a['r1']})
    F.judge(ctx, 'Trace_Core', [c for _, c1, c2 in al for c in (c1, c2)], None, invariants=c08.INVS, tag='aliascore',
            describe=describe, key_fields=('kind', 'expr', 'model', 'globals'))
    ctx.notes['operator_matrix_cases'] = matrix
    ctx.notes['effect_trees'] = ntrees
    ctx.notes['aliases_checked'] = len(aliases)
    return F.finish(ctx, rule='14 binary + 2 unary operators x all pairs of %d representative values (expression mode; statement '
                    'mode too), every depth-2 tree with numbered probe leaves from MC_Expr, random trees to depth 6 with '
                    'probes, 46 aliases x sampled arguments; distinct by (kind, expression, globals)' % len(reps),
                    exhaustive=True)
