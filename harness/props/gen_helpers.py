"""Text rendering of flat (precedence-free) expression syntax and token strings for C02 / C06 / C10."""
from .. import abstraction as A

OPS = ['**', '*', '/', '%', '+', '-', '<=', '<', '>=', '>', '==', '!=', '&&', '||']


def num_spelling(a, rnd):
    base = A.num_text(a)
    if rnd is None:
        return base
    r = rnd.random()
    if a['d'] == 1:
        n = a['n']
        if r < 0.15:
            return base + '.'
        if r < 0.3:
            return base + '.0'
        if r < 0.4:
            return '+' + base
        if r < 0.5 and n % 100 == 0 and n > 0:
            return f'{n // 100}e+2'
        if r < 0.6:
            return f'{n}0e-1'
        return base
    if r < 0.3:
        return base + '0'
    return base


def str_spelling(cps_, rnd):
    s = A.uncps(cps_)
    q = '"' if (rnd is not None and rnd.random() < 0.5) else "'"
    if rnd is not None and rnd.random() < 0.5:
        # only \\ and \<own quote> are escapes: a backslash before anything else (the OTHER quote included) may stand alone
        out = ''
        for i, ch in enumerate(s):
            nxt = s[i + 1] if i + 1 < len(s) else ''
            if ch == '\\':
                out += '\\' if nxt not in ('\\', q, '') else '\\\\'
            elif ch == q:
                out += '\\' + q
            else:
                out += ch
        return q + out + q
    return q + s.replace('\\', '\\\\').replace(q, '\\' + q) + q


def var_spelling(name, rnd):
    import re
    if re.match(r'^[A-Za-z_]\w*$', name) and not (rnd is not None and rnd.random() < 0.15):
        return name
    return '[' + name.replace('\\', '\\\\').replace(']', '\\]') + ']'


def flat_text(f, layout=0, rnd=None):
    """layout 0: single spaces around binary operators; 1: no spaces where lexing allows; 2: extra spaces"""
    sp = {0: ' ', 1: '', 2: '  '}[layout]
    k = f['k']
    if k == 'chain':
        parts = [flat_text(f['operands'][0], layout, rnd)]
        for op, o in zip(f['ops'], f['operands'][1:]):
            t = flat_text(o, layout, rnd)
            s2 = sp
            # "a--b" would still lex (binary minus, unary minus) but "a - -b" is kept readable; "+1" after "+" is fine
            parts.append(sp + op + s2 + t)
        return ''.join(parts)
    if k == 'num':
        return f['text'] if 'text' in f else num_spelling(f['v'], rnd)
    if k == 'str':
        return str_spelling(f['v'], rnd)
    if k == 'var':
        return var_spelling(f['v'], rnd)
    if k == 'grp':
        return '(' + sp + flat_text(f['e'], layout, rnd) + sp + ')'
    if k == 'un':
        return f['op'] + (sp if layout == 2 else '') + flat_text(f['e'], layout, rnd)
    if k == 'call':
        return f['name'] + ('  ' if layout == 2 else '') + '(' + (',' + (sp or '')).join(flat_text(a, layout, rnd) for a in f['args']) + ')'
    raise ValueError(f)


def rand_operand(rnd, depth):
    r = rnd.random()
    if depth <= 0 or r < 0.35:
        c = rnd.random()
        if c < 0.08:
            # literals whose nearest double differs from the decimal written, or that need an exponent form
            t = rnd.choice(['9007199254740993', '12345678901234567890', '18014398509481985', '1e+22', '0.1', '123456789.125', '1.0000000000000001',
                            '4503599627370497.5', '100000000000000000000000', '5e-324', '0.30000000000000004'])
            return {'k': 'num', 'v': A.anum(float(t)), 'text': t}
        if c < 0.35:
            return {'k': 'num', 'v': A.anum(rnd.choice([0, 1, 2, 7, 10, 100, 1500, 0.5, 2.25]))}
        if c < 0.6:
            return {'k': 'str', 'v': A.cps(rnd.choice(['', 'a', 'it\'s', 'q"q', 'b\\s', 'a b', '(', '1+2', "\\'", 'say \\"hi\\"', "it\\'s", 'x\\n']))}
        return {'k': 'var', 'v': rnd.choice(['x', 'yy', 'a_1', 'with space', 'br]ack', 'null', 'true', 'if'])}
    if r < 0.5:
        return {'k': 'grp', 'e': rand_flat(rnd, depth - 1)}
    if r < 0.65:
        return {'k': 'un', 'op': rnd.choice('!-'), 'e': rand_operand(rnd, depth - 1)}
    if r < 0.85:
        return {'k': 'call', 'name': rnd.choice(['ff', 'mathMax', 'if', 'abs']), 'args': [rand_flat(rnd, depth - 1) for _ in range(rnd.randint(0, 3))]}
    return {'k': 'grp', 'e': rand_flat(rnd, depth - 1)}


def rand_flat(rnd, depth):
    n = rnd.choice([0, 1, 1, 2, 3, 4])
    operands = [rand_operand(rnd, depth - 1) for _ in range(n + 1)]
    if n == 0:
        return operands[0]
    return {'k': 'chain', 'operands': operands, 'ops': [rnd.choice(OPS) for _ in range(n)]}


TOKENS = [('num', ['1', '2.5', '10']), ('str', ["'s'", '"t"']), ('var', ['xx', 'yy', 'ff', 'e5', 'e2', 'E3']),
          ('op', ['*', '+', '==', '&&', '<', '**', '||', '%']), ('not', ['!']), ('minus', ['-']), ('lp', ['(']), ('rp', [')']),
          ('comma', [',']), ('junk', ['=', '&', '|', '@', '~', '=>', '!!='])]


def _gram(rnd, d):
    """a grammatical token list"""
    def T(t):
        return {'t': t, 'text': rnd.choice(dict(TOKENS)[t])}

    def unary(d):
        r = rnd.random()
        if d <= 0 or r < 0.45:
            return [T(rnd.choice(['num', 'str', 'var']))]
        if r < 0.6:
            return [T(rnd.choice(['not', 'minus']))] + unary(d - 1)
        if r < 0.8:
            return [T('lp')] + expr(d - 1) + [T('rp')]
        args = []
        for i in range(rnd.randint(0, 2)):
            args += ([T('comma')] if i else []) + expr(d - 1)
        return [T('var'), T('lp')] + args + [T('rp')]

    def expr(d):
        out = unary(d)
        for _ in range(rnd.choice([0, 0, 1, 2])):
            out += [T(rnd.choice(['op', 'op', 'minus']))] + unary(d)
        return out
    return expr(d)


def rand_tokens(rnd):
    if rnd.random() < 0.6:
        toks = _gram(rnd, rnd.choice([1, 2, 3]))
        if rnd.random() < 0.5 and toks:
            i = rnd.randrange(len(toks))
            m = rnd.random()
            if m < 0.4:
                del toks[i]
            elif m < 0.7:
                t, texts = rnd.choice(TOKENS)
                toks.insert(i, {'t': t, 'text': rnd.choice(texts)})
            elif len(toks) > 1:
                j = rnd.randrange(len(toks))
                toks[i], toks[j] = toks[j], toks[i]
        if toks:
            return toks
    n = rnd.randint(1, 9)
    out = []
    weights = [3, 1, 3, 3, 1, 1, 2, 2, 1, 1]
    for _ in range(n):
        t, texts = rnd.choices(TOKENS, weights)[0]
        out.append({'t': t, 'text': rnd.choice(texts)})
    return out


def tokens_text(toks, rnd):
    """single blanks between tokens - except that a name may follow a number directly (it still is a separate token: "1e5" is
    the number 1 and the name e5, two operands without an operator, not a number with an exponent)"""
    out = ''
    for i, t in enumerate(toks):
        glue = i > 0 and toks[i - 1]['t'] == 'num' and t['t'] == 'var' and rnd is not None and rnd.random() < 0.6
        out += ('' if i == 0 or glue else ' ') + t['text']
    return out
