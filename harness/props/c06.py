"""C06 - the parser is total and its diagnostics point at the offending source.

leg A  MC_Lines: the parser's block stack machine accepts exactly the sequences of line kinds the block grammar
       derives (Dev = {}); logical-line construction is invariant under layout rewrites; every code line is accounted.
leg B/C  (i) sequences of line kinds rendered to text: model iff derivable, else BareScriptParserError;
       (ii) faults injected at a known token gap of every statement kind that carries an expression, in lines of
       length 0..400 with unique tokens: the error must name the logical line (text and number), the column must
       lie between the end of the last good token + 1 and the fault, the caret of the formatted (possibly elided)
       message must sit under that column; (iii) the same faulty text with k lines prepended / a larger
       start_line_number: only the line number moves, by exactly k; (iv) mutated programs and token soup: totality."""
import itertools
import json
import random

from .. import framework as F
from .. import gen_struct, tlc
from .. import abstraction as A

KINDS = ['stmt', 'function', 'endfunction', 'if', 'elif', 'else', 'endif', 'while', 'endwhile', 'for', 'endfor', 'break', 'continue']
MC_CFG = 'SPECIFICATION Spec\nCONSTANT N = %d\nCONSTANT M = %d\nCONSTANT Dev = {}\nINVARIANT BlocksAgree\nINVARIANT LayoutInvariant\nINVARIANT EveryLineAccounted\nCHECK_DEADLOCK FALSE\n'
BASE = {'kind': '', 'kinds': [], 'text': [], 'outcome': '', 'start': 1, 'err': {'error': '', 'line': [], 'column': 0, 'lineNumber': 0, 'hasLineNumber': False},
        'shown': [], 'caret': 0, 'colLo': 0, 'colHi': 0, 'faultFirst': 0, 'o1': '', 'o2': '', 'e1': {}, 'e2': {}, 'k': 0, 'source': ''}


def render_kind(k, i):
    return {'stmt': f'v{i} = {i}', 'function': f'function fn{i}(a, b):', 'endfunction': 'endfunction', 'if': 'if c1:', 'elif': 'elif c2:',
            'else': 'else:', 'endif': 'endif', 'while': 'while c3:', 'endwhile': 'endwhile', 'for': 'for e, ix in arr:', 'endfor': 'endfor',
            'break': 'break', 'continue': 'continue', 'pending': (f'w{i} = 1 + \\', '\\', '   \\  ', f'w{i} = 1 + \\')[i % 4]}[k]


def parse_outcome(text, start=1):
    """-> (outcome, err dict, shown cps, caret)"""
    from bare_script import parse_script, BareScriptParserError
    err = dict(BASE['err'])
    shown, caret = [], 0
    try:
        parse_script(text, start) if start != 1 else parse_script(text)
        return 'model', err, shown, caret
    except BareScriptParserError as exc:
        err = {'error': exc.error, 'line': A.cps(exc.line), 'column': exc.column_number if isinstance(exc.column_number, int) else -1,
               'lineNumber': exc.line_number if isinstance(exc.line_number, int) else 0, 'hasLineNumber': exc.line_number is not None}
        msg = str(exc).split('\n')
        if len(msg) >= 3:
            shown = A.cps(msg[1])
            caret = len(msg[2])
        return 'BareScriptParserError', err, shown, caret
    except Exception as exc:  # pylint: disable=broad-except
        return type(exc).__name__, err, shown, caret


def classes_case(kinds):
    """-> [classes case] or [classes case, error case]: a structural error (block left open, closing keyword without its opener ...)
    must also name a logical line of the text, offset by the caller's start line"""
    text = '\n'.join(render_kind(k, i) for i, k in enumerate(kinds))
    start = (1, 7, 100)[(len(kinds) + sum(len(k) for k in kinds)) % 3]
    out, err, shown, caret = parse_outcome(text, start)
    c = json.loads(json.dumps(BASE))
    c.update({'kind': 'classes', 'kinds': list(kinds), 'outcome': out, 'source': text})
    if out != 'BareScriptParserError':
        return [c]
    e = json.loads(json.dumps(BASE))
    e.update({'kind': 'error', 'text': A.cps(text), 'outcome': out, 'start': start, 'err': err, 'shown': shown, 'caret': caret, 'source': text[:300]})
    return [c, e]


HEADS = [('assign', 'res = ', ''), ('return', 'return ', ''), ('expr', '', ''), ('if', 'if ', ':'), ('elif', 'elif ', ':'), ('while', 'while ', ':'),
         ('for', 'for item in ', ':'), ('jumpif', 'jumpif (', ') lbl')]


def fault_case(seed, target_len, shift):
    """a program with ONE faulty line: a fault token '@' inserted at a token gap of the expression"""
    rnd = random.Random(seed)
    kind, head, tail = rnd.choice(HEADS)
    # expression of unique tokens: fn(t1, t2) + t3 * ( t4 - 't5' ) ...
    toks = []
    n = 0
    while sum(len(t) + 1 for t in toks) < target_len:
        n += 1
        toks.append((f'{n}e+2' if n % 2 else f'{n}.25') if n % 5 == 0 else f'q{seed % 97:02d}x{n:03d}' if n % 3 else f"'s{n:03d}'")
        toks.append(rnd.choice(['+', '-', '*', '==', '&&', '<']))
    toks = toks[:-1] or ['zz9']
    if kind == 'expr':
        toks = ['ffn(', toks[0], ')'] + (['+'] + toks[1:] if len(toks) > 1 and len(toks) % 2 == 0 else toks[1:])
    g = rnd.randrange(len(toks) + 1)
    seps = [rnd.choice([' ', '  ']) for _ in range(len(toks) + 1)]
    expr = ''
    pos_fault = lo = None
    for i, t in enumerate(toks + [None]):
        if i == g:
            lo = len(head) + len(expr.rstrip(' ')) + 1       # end of last good token + 1 (1-based)
            expr += seps[i] if i else ''
            pos_fault = len(head) + len(expr) + 1
            expr += '@ '
            if t is not None:
                expr += t
        elif t is not None:
            expr += (seps[i] if i else '') + t
    indent = rnd.choice(['', '', '  ', '    ', '\t'])
    line = indent + head + expr + tail
    phys = [line]
    if rnd.random() < 0.4:
        # continue the faulty line over several physical lines (split at blanks outside quotes)
        from .c10 import blank_positions
        for _ in range(rnd.choice([1, 2])):
            pos = [q for q in blank_positions(phys[-1]) if q > len(indent) + 1]
            if not pos:
                break
            q = rnd.choice(pos)
            last = phys.pop()
            phys += [last[:q] + ' \\' + rnd.choice(['', '  ']), rnd.choice(['', '      ']) + last[q + 1:]]
    logical = phys[0] if len(phys) == 1 else ' '.join([(phys[0].rstrip()[:-1]).rstrip()] + [(x.rstrip()[:-1] if x.rstrip().endswith('\\') else x).strip() for x in phys[1:]])
    pos_fault = logical.index('@') + 1
    lo = len(logical[:pos_fault - 1].rstrip()) + 1
    lo = min(lo, pos_fault)
    # surroundings
    before = rnd.choice([[], ['# comment'], ['# comment', 'a0 = 1', ''], ['# comment', 'a0 = 1', '', 'b0 = a0 + 1 \\', '    + 2'],
                         ['# form\x0cfeed', "s0 = 'line\u2028sep'", '# nel\x85'], ["s0 = 'vt\x0b fs\x1c'", '']])
    opener = {'elif': ['if a0:', 'b1 = 1'], 'jumpif': [], 'return': []}.get(kind, [])
    closer = {'if': ['endif'], 'elif': ['endif'], 'while': ['endwhile'], 'for': ['endfor']}.get(kind, [])
    # optionally split the faulty line with a continuation: the logical line is what the error must quote
    lines = before + opener + phys + (['c0 = 2'] if closer else []) + closer + (['lbl:'] if kind == 'jumpif' else [])
    fault_first = len(before) + len(opener) + 1
    text = '\n'.join(lines)
    start = rnd.choice([1, 1, 7, 100])
    out, err, shown, caret = parse_outcome(text, start)
    c = json.loads(json.dumps(BASE))
    c.update({'kind': 'error', 'text': A.cps(text), 'outcome': out, 'start': start, 'err': err, 'shown': shown, 'caret': caret,
              'colLo': lo, 'colHi': pos_fault, 'faultFirst': fault_first, 'source': line[:200]})
    cases = [c]
    if shift:
        k = rnd.randint(1, 5)
        pre = [rnd.choice(['# c', '', 'zz = 1', '   ', 'systemLog(1)']) for _ in range(k)]
        if rnd.random() < 0.5:
            o2, e2, _, _ = parse_outcome('\n'.join(pre + lines), start)
        else:
            o2, e2, _, _ = parse_outcome(text, start + k)
        s = json.loads(json.dumps(BASE))
        s.update({'kind': 'shift', 'o1': out, 'o2': o2, 'e1': err, 'e2': e2, 'k': k, 'source': line[:200]})
        cases.append(s)
    return cases


VOCAB = ['if', 'elif', 'else:', 'endif', 'while', 'endwhile', 'for', 'in', 'endfor', 'function', 'endfunction', 'break', 'continue', 'return', 'jump',
         'jumpif', 'include', 'x', 'y1', '=', '==', '(', ')', ':', ',', '1', '1e+3', '2.5e-3', '10', '0.5', '1e3', '1.', '1e+400', '-7', "'s'", '"', "'", '+', '-', '!', '\\', '#', '[', ']', '<a>', '...', 'async', '@']


def soup_case(seed):
    rnd = random.Random(seed)
    if rnd.random() < 0.5:
        lines = [' '.join(rnd.choice(VOCAB) for _ in range(rnd.randint(0, 7))) for _ in range(rnd.randint(0, 8))]
    else:
        # mutated valid program
        prog = gen_struct.rprogram(rnd, maxdepth=rnd.choice([1, 2, 3]))
        lines = A.struct_text(prog)
        for _ in range(rnd.randint(1, 2)):
            if not lines:
                break
            i = rnd.randrange(len(lines))
            m = rnd.random()
            toks = lines[i].split(' ')
            if m < 0.25 and len(toks) > 1:
                del toks[rnd.randrange(len(toks))]
                lines[i] = ' '.join(toks)
            elif m < 0.45:
                toks.insert(rnd.randint(0, len(toks)), rnd.choice(VOCAB))
                lines[i] = ' '.join(toks)
            elif m < 0.6 and len(toks) > 1:
                a, b = rnd.sample(range(len(toks)), 2)
                toks[a], toks[b] = toks[b], toks[a]
                lines[i] = ' '.join(toks)
            elif m < 0.8:
                closers = [j for j, l in enumerate(lines) if l.strip() in ('endif', 'endwhile', 'endfor', 'endfunction')]
                if closers:
                    del lines[rnd.choice(closers)]
            elif m < 0.9:
                lines[-1] = lines[-1] + ' ' + '\\' * rnd.randint(1, 8)
            else:
                lines[i] = '    ' * rnd.randint(10, 50) + lines[i]
    text = '\n'.join(lines)
    start = rnd.choice([1, 1, 7, 100])
    out, err, shown, caret = parse_outcome(text, start)
    c = json.loads(json.dumps(BASE))
    c.update({'kind': 'total', 'outcome': out, 'source': text[:300]})
    cases = [c]
    if out == 'BareScriptParserError':
        e = json.loads(json.dumps(BASE))
        e.update({'kind': 'error', 'text': A.cps(text), 'outcome': out, 'start': start, 'err': err, 'shown': shown, 'caret': caret, 'source': text[:300]})
        cases.append(e)
    return cases


SIMPLE = ['v1 = 1', 'v2 = v1 + 2', "systemLog('x')", 'lbl:', 'lbl2:', 'jump lbl', 'jumpif (v1) lbl2', 'return v1', 'return', "include 'a.bare'",
          "include 'a.bare'", "include 'b/c.bare'", 'include <sys.bare>', 'include <sys.bare>', 'f1(v1, 2)', "v3 = 'a # b'", '# comment', '', '   ']


def accounted_case(seed):
    """only simple statements (repeated lines and repeated includes on purpose), blanks, comments, continuations, exotic characters
    inside strings and comments: every logical line must be accounted for by one statement / include entry"""
    rnd = random.Random(seed)
    lines = []
    for _ in range(rnd.randint(0, 10)):
        ln = rnd.choice(SIMPLE)
        if rnd.random() < 0.15 and ln and not ln.startswith('#') and ' ' in ln.strip():
            i = ln.index(' ')
            lines += [ln[:i] + ' \\', '    ' + ln[i + 1:]]
            continue
        if rnd.random() < 0.1:
            ln = rnd.choice(["s9 = 'a" + rnd.choice(['\x0c', '\x0b', '\x85', '\u2028', '\x1c', '\r']) + "b'", '# c' + rnd.choice(['\x0c', '\u2028', '\x85']) + 'd'])
        lines.append(ln)
    text = rnd.choice(['\n', '\n', '\r\n']).join(lines)
    from bare_script import parse_script, BareScriptParserError
    c = json.loads(json.dumps(BASE))
    try:
        script = parse_script(text)
        k = sum(len(s['include']['includes']) if 'include' in s else 1 for s in script['statements'])
        c.update({'kind': 'accounted', 'outcome': 'model', 'k': k, 'text': A.cps(text), 'source': text[:300]})
    except BareScriptParserError as exc:
        c.update({'kind': 'accounted', 'outcome': 'BareScriptParserError: ' + exc.error, 'k': 0, 'text': A.cps(text), 'source': text[:300]})
    except Exception as exc:  # pylint: disable=broad-except
        c.update({'kind': 'accounted', 'outcome': type(exc).__name__, 'k': 0, 'text': A.cps(text), 'source': text[:300]})
    return c


def nesting_case(depth):
    lines = []
    for d in range(depth):
        lines.append('    ' * d + ('while c:' if d % 2 else 'if c:'))
    lines.append('    ' * depth + 'x = 1')
    for d in reversed(range(depth)):
        lines.append('    ' * d + ('endwhile' if d % 2 else 'endif'))
    out, _, _, _ = parse_outcome('\n'.join(lines))
    c = json.loads(json.dumps(BASE))
    c.update({'kind': 'classes', 'kinds': ['while' if d % 2 else 'if' for d in range(depth)] + ['stmt'] + ['endwhile' if d % 2 else 'endif' for d in reversed(range(depth))],
              'outcome': out, 'source': f'nesting depth {depth}'})
    return c


def canaries(case):
    c = json.loads(json.dumps(case))
    k = case['kind']
    if k == 'classes':
        c['outcome'] = 'model' if case['outcome'] != 'model' else 'BareScriptParserError'
        return [c]
    if k == 'error' and case['outcome'] == 'BareScriptParserError':
        c['err']['lineNumber'] += 1
        c2 = json.loads(json.dumps(case))
        c2['caret'] += 1
        c2['err']['column'] = c2['err']['column']
        return [c, c2]
    if k == 'shift' and case['o2'] == 'BareScriptParserError':
        c['e2']['lineNumber'] += 1
        return [c]
    if k == 'total':
        c['outcome'] = 'IndexError'
        return [c]
    if k == 'accounted' and case['outcome'] == 'model':
        c['k'] += 1
        return [c]
    return []


def run(ctx, replay=None):
    rnd = random.Random(ctx.seed)
    if replay is not None:
        F.judge(ctx, 'Trace_Lines', [replay['case']], None, cfg_consts='CONSTANT Dev = {}\n', key_fields=('kind', 'kinds', 'text', 'source'))
        return F.finish(ctx, rule='replay (recorded case re-judged)')
    n, m = ctx.pick((4, 4), (5, 5))
    r = tlc.check_model('MC_Lines', MC_CFG % (n, m), ctx.work, tag='lines', timeout=3400)
    ctx.mc_runs.append({'module': 'MC_Lines', 'N': n, 'M': m, 'states': r['states'], 'ok': r['ok'], 'seconds': round(r['seconds'], 1)})
    ctx.add_stats(r)
    if not r['ok']:
        ctx.violation('design-level: MC_Lines violated', {'property': ctx.pid, 'mc': 'MC_Lines', 'out': r['out'][-3000:]})
    jobs = []
    nex = ctx.pick(3, 4)
    for k in range(0, nex + 1):
        for seq in itertools.product(KINDS, repeat=k):
            jobs.append((list(seq),))
            if k < nex:
                jobs.append((list(seq) + ['pending'],))
    nexh = len(jobs)
    for _ in range(ctx.pick(6000, 200000)):
        k = rnd.choice([4, 5, 6, 7])
        seq = [rnd.choice(KINDS) for _ in range(k)]
        # bias towards balanced shapes
        if rnd.random() < 0.5:
            seq = rnd.choice([['if'] + seq[:2] + ['endif'], ['function', 'while'] + seq[:2] + ['endwhile', 'endfunction'], ['for', 'if'] + seq[:1] + ['else'] + seq[1:2] + ['endif', 'endfor']])
        if rnd.random() < 0.1:
            seq = seq + ['pending']
        jobs.append((seq,))
    cases = [c for cs in F.pmap(classes_case, jobs) for c in cs]
    cases += [nesting_case(d) for d in (1, 5, 20, 50)]
    lens = list(range(0, 131, ctx.pick(3, 1))) + list(range(140, 401, ctx.pick(20, 2))) + [118, 119, 120, 121, 122, 239, 240, 241, 400]
    fj = [(ctx.seed * 31 + i * 977 + L, L, i % 2 == 0) for L in lens for i in range(ctx.pick(6, 40))]
    for cs in F.pmap(fault_case, fj):
        cases += cs
    for cs in F.pmap(soup_case, [(ctx.seed * 17 + i,) for i in range(ctx.pick(3000, 60000))]):
        cases += cs
    cases += F.pmap(accounted_case, [(ctx.seed * 23 + i,) for i in range(ctx.pick(2500, 50000))])
    F.judge(ctx, 'Trace_Lines', cases, canaries, cfg_consts='CONSTANT Dev = {}\n', key_fields=('kind', 'kinds', 'text', 'source', 'k'),
            describe=lambda c: {'kind': c['kind'], 'source': c['source'], 'outcome': c['outcome'] or c['o2'], 'error': c['err'].get('error'),
                                'line_number': c['err'].get('lineNumber'), 'column': c['err'].get('column')},
            nontrivial=lambda c: True)
    kinds = {}
    for c in cases:
        kinds[c['kind']] = kinds.get(c['kind'], 0) + 1
    ctx.notes.update({'cases_by_kind': kinds, 'exhaustive_kind_sequences': nexh, 'fault_line_lengths': len(set(lens))})
    return F.finish(ctx, rule='all sequences of the 13 line kinds up to length %d (with and without a dangling continuation), sampled longer '
                    'ones, nesting to depth 50; faults at every token gap class for 8 statement kinds x line lengths 0..400 with prepended '
                    'lines / start_line_number shifts; mutated programs and token soup' % nex, exhaustive=True)
