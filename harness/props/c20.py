"""C20 - diffLines from the shipped include library reconstructs both inputs; shipped scripts are clean.

leg A  MC_Diff: the algorithm of diff.bare (transcribed as BareDiff.DiffAlg) satisfies Reconstructs for all
       pairs of line lists <= N over a 3-letter alphabet.
leg B  the SHIPPED diff.bare is loaded through the CLI's system-include fetcher, parsed and executed by the real
       parser and runtime; diffLines(left, right) for all pairs of line lists <= n (arrays, LF texts, CRLF texts)
       and random longer pairs; TLC decides Reconstructs on the returned value (Trace_Diff).
       Every shipped include script must parse, validate against the schema and be lint-clean."""
import itertools
import json
import os
import random

from .. import framework as F
from .. import realrun, tlc
from .. import abstraction as A

_G = {}


def diff_globals():
    """run `include <diff.bare>` once with the CLI include fetcher; the resulting globals hold diffLines"""
    if 'g' not in _G:
        from bare_script import execute_script, parse_script
        from bare_script.bare import _fetch_include, _FETCH_INCLUDE_PREFIX
        g = {}
        execute_script(parse_script('include <diff.bare>\n'), {'globals': g, 'fetchFn': _fetch_include, 'systemPrefix': _FETCH_INCLUDE_PREFIX})
        _G['g'] = g
    return _G['g']


def diff_case(left, right, form):
    """left / right: lists of lines; form: 'array' | 'lf' | 'crlf' | 'parts', or 'x/y' for different forms left / right"""
    from bare_script import execute_script
    forms = form.split('/') if '/' in form else [form, form]

    def inp(lines, form):
        if form == 'array':
            # every line is its own string OBJECT (equal lines are equal by value, not by identity)
            return [x.encode('utf-8').decode('utf-8') if x else ''.join([]) for x in lines], {'kind': 'array', 'v': [A.cps(x) for x in lines]}
        if form == 'parts':
            parts = ['\n'.join(lines[:len(lines) // 2]), '\r\n'.join(lines[len(lines) // 2:])] if lines else []
            return parts, {'kind': 'array', 'v': [A.cps(x) for x in parts]}
        t = ('\n' if form == 'lf' else '\r\n').join(lines)
        return t, {'kind': 'text', 'v': A.cps(t)}
    lv, la = inp(left, forms[0])
    rv, ra = inp(right, forms[1])
    g = dict(diff_globals())
    g['left'] = lv
    g['right'] = rv
    model = {'statements': [{'return': {'expr': {'function': {'name': 'diffLines', 'args': [{'variable': 'left'}, {'variable': 'right'}]}}}}]}
    status, res = 'done', None
    try:
        res = execute_script(model, {'globals': g, 'maxStatements': 200000})
    except Exception as exc:  # pylint: disable=broad-except
        status = f'{type(exc).__name__}: {exc}'[:120]
    return {'kind': 'diff', 'left': la, 'right': ra, 'diffs': A.aval(res), 'status': status, 'file': '', 'parsed': True, 'schemaValid': True, 'lint': []}


def shipped_cases():
    import importlib.resources
    from bare_script import lint_script, parse_script, validate_script
    out = []
    root = importlib.resources.files('bare_script.include')
    for entry in sorted(root.iterdir(), key=lambda e: e.name):
        if not entry.name.endswith('.bare'):
            continue
        c = {'kind': 'shipped', 'file': entry.name, 'parsed': True, 'schemaValid': True, 'lint': [], 'left': {'kind': 'array', 'v': []},
             'right': {'kind': 'array', 'v': []}, 'diffs': {'t': 'null'}, 'status': ''}
        try:
            script = parse_script(entry.read_text(encoding='utf-8'))
            try:
                validate_script(script)
            except Exception:  # pylint: disable=broad-except
                c['schemaValid'] = False
            c['lint'] = list(lint_script(script))
        except Exception:  # pylint: disable=broad-except
            c['parsed'] = False
        out.append(c)
    return out


def canaries(case):
    if case['kind'] != 'diff' or case['diffs'].get('t') != 'array' or not case['diffs']['v']:
        return []
    c = json.loads(json.dumps(case))
    blk = c['diffs']['v'][0]
    for p in blk['v']:
        if A.uncps(p['key']) == 'lines' and p['val']['v']:
            p['val']['v'][0] = {'t': 'str', 'v': A.cps('corrupted line')}
    c2 = json.loads(json.dumps(case))
    c2['diffs']['v'].pop()
    return [c, c2]


def run(ctx, replay=None):
    rnd = random.Random(ctx.seed)
    if replay is not None:
        F.judge(ctx, 'Trace_Diff', [replay['case']], None, key_fields=('kind', 'left', 'right', 'file'))
        return F.finish(ctx, rule='replay (recorded case re-judged)')
    n = ctx.pick(4, 5)
    r = tlc.check_model('MC_Diff', 'SPECIFICATION Spec\nCONSTANT N = %d\nINVARIANT Correct\nINVARIANT Compact\nCHECK_DEADLOCK FALSE\n' % n,
                        ctx.work, tag='diff', timeout=3400)
    ctx.mc_runs.append({'module': 'MC_Diff', 'N': n, 'states': r['states'], 'ok': r['ok']})
    ctx.add_stats(r)
    if not r['ok']:
        ctx.violation('design-level: MC_Diff violated', {'property': ctx.pid, 'mc': 'MC_Diff', 'out': r['out'][-3000:]})
    lists = [list(t) for k in range(0, n + 1) for t in itertools.product('abc', repeat=k)]
    jobs = []
    forms = ['array', 'lf', 'crlf', 'parts', 'array/lf', 'crlf/array', 'lf/parts', 'lf/crlf']
    words = {'a': 'alpha', 'b': 'be ta', 'c': ''}
    for i, l in enumerate(lists):
        for j, rr in enumerate(lists):
            if (i + 2 * j) % 3 == 0:
                l2, r2 = [words[x] for x in l], [words[x] for x in rr]       # multi-character lines and the empty line
            else:
                l2, r2 = l, rr
            jobs.append((l2, r2, forms[(i + j) % len(forms)] if (l and rr) else 'array'))
    # lines that end in (or are) a bare CR: the CR belongs to a line end only when an LF follows it, so as an array element or as
    # the last line of a text it is part of the line (round 8: a splitter stripping a trailing CR from every line went unnoticed)
    crlists = [list(t) for k in range(0, 3) for t in itertools.product(['a', 'a\r', '\r'], repeat=k)]
    for l in crlists:
        for rr in crlists:
            for fm in ('array', 'lf', 'crlf', 'parts'):
                jobs.append((l, rr, fm))
    nexh = len(jobs)
    for _ in range(ctx.pick(1500, 20000)):
        k = rnd.randint(0, 40)
        base = [rnd.choice(['alpha', 'beta', 'gamma', '', 'x y', 'delta', 'alpha\r']) for _ in range(k)]
        other = list(base)
        for _ in range(rnd.randint(0, 6)):
            if other and rnd.random() < 0.5:
                del other[rnd.randrange(len(other))]
            else:
                other.insert(rnd.randint(0, len(other)), rnd.choice(['alpha', 'new', '', 'zeta']))
        jobs.append((base, other, rnd.choice(forms)))
    cases = F.pmap(diff_case, jobs) + shipped_cases()
    F.judge(ctx, 'Trace_Diff', cases, canaries, key_fields=('kind', 'left', 'right', 'file'),
            describe=lambda c: {'file': c['file'], 'lint': c['lint']} if c['kind'] == 'shipped' else
            {'left': [A.uncps(x) for x in c['left']['v']] if c['left']['kind'] == 'array' else A.uncps(c['left']['v']),
             'right': [A.uncps(x) for x in c['right']['v']] if c['right']['kind'] == 'array' else A.uncps(c['right']['v'])},
            nontrivial=lambda c: True)
    ctx.notes.update({'exhaustive_pairs': nexh, 'shipped_scripts': sum(1 for c in cases if c['kind'] == 'shipped')})
    return F.finish(ctx, rule='all %d pairs of line lists of length <= %d over {a,b,c} (a third of them spelt with multi-character lines and the empty line) as arrays / LF text / CRLF text / mixed parts, all pairs of lists of length <= 2 over lines ending in a bare CR, random '
                    'pairs up to 40 lines derived by edits, all shipped include scripts' % (nexh, n), exhaustive=True)
