"""C13 - numbers survive conversion to text and back; integers print without a fraction.

leg A  MC_NumText: every decimal with <= 2 (3 thorough) significant digits x every exponent of the double range:
       the clean-up of Python's repr layout keeps the denotation, removes the fraction exactly for integral
       fixed-notation values, agrees with the direct layout, gives a valid source literal for x >= 0.
leg B/C  real doubles (decimals of leg A via float(text), uniform random bit patterns, powers of ten
       1e-320..1e308, integers around 2^53 / 1e15 / 1e16 / 1e21, subnormals, -0): the texts produced by string
       concatenation, stringNew, arrayJoin and systemLog, numberParseFloat of the text, and the text as a source
       literal are judged by TLC (Trace_NumText).  Parsers: random strings and numeric near-misses."""
import json
import math
import random
import struct

from .. import framework as F
from .. import tlc
from .. import abstraction as A

MC_CFG = '''SPECIFICATION Spec
CONSTANT MaxDigits = %d
CONSTANT ENeg = 323
CONSTANT EHi = 309
INVARIANT SameDenotation
INVARIANT ReprDenotes
INVARIANT NoFractionForIntegers
INVARIANT FractionKept
INVARIANT AgreesWithDirectLayout
INVARIANT LiteralForNonNegative
INVARIANT JsonNumberToken
CHECK_DEADLOCK FALSE
'''


def print_case(x):
    from bare_script import evaluate_expression, execute_script, parse_expression, parse_script
    from bare_script.library import SCRIPT_FUNCTIONS as SF
    logs = []
    g = {'x': x}
    t1 = evaluate_expression({'binary': {'op': '+', 'left': {'string': ''}, 'right': {'variable': 'x'}}}, {'globals': g})
    t2 = SF['stringNew']([x], None)
    t3 = SF['arrayJoin']([[x], ','], None)
    execute_script(parse_script('systemLog(x)'), {'globals': {'x': x}, 'logFn': logs.append})
    texts = [t if isinstance(t, str) else '<not a string>' for t in (t1, t2, t3, logs[0] if logs else None)]
    c = {'kind': 'print', 'x': A.anum(x), 'texts': [A.cps(t) for t in texts], 'back': {'t': 'null'}, 'lit': {'t': 'null'},
         'text': [], 'radix': 10, 'pf': {'t': 'null'}, 'pi': {'t': 'null'}, 'shown': texts[0]}
    try:
        c['back'] = A.aval(SF['numberParseFloat']([texts[0]], None))
    except Exception as exc:  # pylint: disable=broad-except
        c['back'] = {'t': 'alien', 'py': type(exc).__name__}
    if x >= 0 and not (x == 0 and math.copysign(1, x) < 0):
        try:
            e = parse_expression(texts[0])
            c['lit'] = A.anum(e['number']) if list(e) == ['number'] else {'t': 'alien', 'py': 'not-a-number-literal'}
        except Exception as exc:  # pylint: disable=broad-except
            c['lit'] = {'t': 'alien', 'py': type(exc).__name__}
    return c


def parse_case(text, radix):
    from bare_script.library import SCRIPT_FUNCTIONS as SF
    from bare_script.value import ValueArgsError

    def call(name, args):
        try:
            return A.aval(SF[name](args, None))
        except ValueArgsError as exc:
            return A.aval(exc.return_value)
        except Exception as exc:  # pylint: disable=broad-except
            return {'t': 'null', 'note': type(exc).__name__}       # a swallowed failure evaluates to null
    return {'kind': 'parse', 'text': A.cps(text), 'radix': radix, 'pf': call('numberParseFloat', [text]),
            'pi': call('numberParseInt', [text, float(radix)]), 'x': {'t': 'null'}, 'texts': [], 'back': {'t': 'null'}, 'lit': {'t': 'null'},
            'shown': text}


def doubles(rnd, n):
    out = [0.0, -0.0, 1.0, -1.0, 0.1, 0.5, 1e15, 1e16, 1e21, 1e22, 123456789012345.0, 1234567890123456.0, 2.0 ** 53, 2.0 ** 53 + 2,
           2.0 ** 53 - 1, 5e-324, 2.2250738585072014e-308, 1.7976931348623157e308, 1e-5, 1e-4, 0.0001234, 1e-7, 1.5e-7, 9007199254740993.0,
           999999999999999.9, 9999999999999998.0, 0.30000000000000004, 100.0, 1e2, 12345678.9]
    for e in range(-320, 309, 3):
        out.append(float(f'1e{e}'))
        out.append(-float(f'3.7e{e}'))
    for k in (10 ** 15, 10 ** 16, 10 ** 21, 2 ** 53):
        for d in range(-3, 4):
            out.append(float(k + d))
    while len(out) < n:
        bits = rnd.getrandbits(64)
        x = struct.unpack('<d', struct.pack('<Q', bits))[0]
        if math.isfinite(x):
            out.append(x)
            if rnd.random() < 0.3:
                out.append(float(int(x)) if abs(x) < 1e18 else x)
    return out


NEAR = ['', ' ', '1', '-1', '+1', '1.', '.5', '1.5', '1e5', '1E5', '1e+5', '1e-5', '1.5e3', ' 12 ', '12abc', 'abc', 'inf', '-inf', 'Infinity', 'nan',
        'NaN', '0x10', '0X1F', '1_000', '1__0', '１２', '1e999', '-1e999', '1e-999', '1e308', '1.8e308', '1.7e308', '1e', 'e5', '.', '-', '+', '--1',
        '1 2', '1,5', '1.5.2', '0b101', '0o17', '101', 'ff', 'FF', 'zz', 'Z', '-ff', '+7', '007', '00', '1e5.5', '5e-324', '4.9e-324', '2e-324', '9' * 40,
        '1' + '0' * 400, '0.' + '0' * 30 + '1', '123456789012345678901234567890', '12345678901234567890.5', '\t3\n', '3 ', '٣', '1²', 'null', 'true',
        '1.0', '10.50', '-0', '-0.0', '+.5e-3', '1d5', '1f', '0x', '1e+', '٣٫٥']


def rand_text(rnd):
    alph = '0123456789.eE+- _xabfXz'
    return ''.join(rnd.choice(alph) for _ in range(rnd.randint(0, 8)))


def canaries(case):
    c = json.loads(json.dumps(case))
    if case['kind'] == 'print':
        def corrupt(t):
            # change the last mantissa digit
            i = max(k for k, ch in enumerate(t) if 48 <= ch <= 57 and (101 not in t or k < t.index(101)))
            t = list(t)
            t[i] = 55 if t[i] != 55 else 51
            return t
        c['texts'] = [corrupt(t) for t in c['texts']]
        return [c]
    if any(ch == 95 or ch >= 128 for ch in case['text']):
        return []           # underscores / non-ASCII digits: the law allows any finite result there
    if case['pf'].get('t') == 'null':
        c['pf'] = {'t': 'num', 'f': 'x', 'v': 'inf'}
    else:
        c['pf'] = {'t': 'null'} if case['pf'].get('f') == 'q' and case['pf'].get('n') != 0 else {'t': 'num', 'f': 'x', 'v': 'nan'}
    return [c]


def run(ctx, replay=None):
    rnd = random.Random(ctx.seed)
    if replay is not None:
        rc = replay['case']
        c = print_case(A.num_from_abs(rc['x'])) if rc['kind'] == 'print' else parse_case(A.uncps(rc['text']), rc['radix'])
        F.judge(ctx, 'Trace_NumText', [c], None, key_fields=('kind', 'x', 'text', 'radix'))
        return F.finish(ctx, rule='replay')
    md = ctx.pick(2, 3)
    r = tlc.check_model('MC_NumText', MC_CFG % md, ctx.work, tag='numtext', timeout=3400)
    ctx.mc_runs.append({'module': 'MC_NumText', 'MaxDigits': md, 'states': r['states'], 'ok': r['ok'], 'seconds': round(r['seconds'], 1)})
    ctx.add_stats(r)
    if not r['ok']:
        ctx.violation('design-level: MC_NumText violated', {'property': ctx.pid, 'mc': 'MC_NumText', 'out': r['out'][-3000:]})
    xs = doubles(rnd, ctx.pick(6000, 200000))
    # decimals of the leg-A family through float(text)
    for _ in range(ctx.pick(4000, 300000)):
        k = rnd.randint(1, 5)
        digits = str(rnd.randint(1, 9)) + ''.join(str(rnd.randint(0, 9)) for _ in range(k - 1))
        e = rnd.randint(-323, 308)
        xs.append(float(('-' if rnd.random() < 0.3 else '') + '0.' + digits + 'e' + str(e)))
    cases = F.pmap(print_case, [(x,) for x in xs if math.isfinite(x)])
    nprint = len(cases)
    texts = [(t, r) for t in NEAR for r in (10, 16, 2, 36)]
    for _ in range(ctx.pick(3000, 100000)):
        texts.append((rand_text(rnd), rnd.choice([10, 10, 16, 2, 8, 36, 1, 37, 0])))
    cases += F.pmap(parse_case, texts)
    F.judge(ctx, 'Trace_NumText', cases, canaries, key_fields=('kind', 'x', 'text', 'radix'),
            describe=lambda c: {'kind': c['kind'], 'text': c['shown'][:60], 'parsed_float': c['pf'], 'parsed_int': c['pi'], 'radix': c['radix']}
            if c['kind'] == 'parse' else {'kind': 'print', 'number': c['x'], 'text': c['shown']},
            nontrivial=lambda c: True)
    for c in cases:
        c.pop('shown', None)
    ctx.notes.update({'doubles_printed': nprint, 'parser_texts': len(cases) - nprint})
    return F.finish(ctx, rule='doubles: boundary list, powers of ten over the whole range, integers around 2^53/1e15/1e16/1e21, uniform random '
                    'bit patterns, decimals with <= 5 significant digits over all exponents; parser texts: near-miss list x radices and '
                    'random strings over a numeric alphabet', exhaustive=False)
