"""C11 - value comparison is a total preorder and every consumer agrees with it.

leg A  MC_Compare: laws on all pairs / triples of an abstract pool.
leg B  a pool of real values (nested containers to depth 3, date / datetime / tz-aware datetimes, int / float /
       bool, empty containers) is compared pairwise by the real systemCompare; TLC checks every entry against
       Compare AND re-checks the laws on the recorded matrix (Trace_Compare, kind "matrix").
leg C  consumers: the six operators, arraySort, dataSort (multi-key, descending), mathMin / mathMax,
       arrayIndexOf / arrayLastIndexOf on random sub-multisets of the pool."""
import datetime
import json
import random
import re

from .. import framework as F
from .. import realrun, tlc
from .. import abstraction as A

MC_CFG = '''SPECIFICATION Spec
CONSTANT KMod = %d
INVARIANT Range
INVARIANT Reflexive
INVARIANT Antisymmetric
INVARIANT Transitive
INVARIANT EqTransitive
INVARIANT NullFirst
INVARIANT ByTypeName
CHECK_DEADLOCK FALSE
'''
UTC = datetime.timezone.utc
TZ5 = datetime.timezone(datetime.timedelta(hours=5, minutes=30))


def base_pool():
    d = datetime
    p = [None, True, False,
         0, 0.0, 1, 1.0, -1, 2, 2.0, 0.5, -0.5, 1.5, 1 / 1024, 3, 10, 1e15, 1e16, 123456789012, 0.1, 0.3, 1 / 3, 1e300, -1e300, 5e-324,
         float('inf'), float('-inf'), [float('inf')], float(2 ** 30), float(2 ** 30 + 1), 1700000000000, 1700000000001.0,
         2 ** 30, 2 ** 30 + 1, 2 ** 53, 1e21, -7.25,
         '', 'a', 'ab', 'b', 'A', 'B', 'aa', '1', '10', '2', ' ', 'é', '\U0001F600', 'null', 'true',
         d.datetime(2024, 1, 1), d.date(2024, 1, 1), d.datetime(2024, 1, 1, 0, 0, 0, 1000), d.datetime(2024, 1, 1, 5, 30, tzinfo=TZ5),
         d.datetime(2024, 1, 1, 0, 0, tzinfo=UTC), d.datetime(2023, 12, 31, 23, 59, 59, 999000), d.date(2024, 1, 2),
         d.datetime(1970, 1, 1), d.date(1, 1, 1), d.datetime(2024, 1, 1, 0, 0, 0, 2000),
         [], [1], [1.0], [1, 2], [2], [None], [[]], [[1], 0], ['a'], [1, 'a'], [True], [[], []], [[[1]]], [[[1.0]], 2], [0, [1, [2]]],
         [{'a': 1}], [d.date(2024, 1, 1)],
         {}, {'a': 1}, {'a': 1.0}, {'a': 2}, {'b': 1}, {'b': 1, 'a': 1}, {'a': 1, 'b': 1}, {'a': [1]}, {'a': {'b': {'c': 1}}}, {'a': None},
         {'': 0}, {'a': 1, 'b': 2, 'c': 3}, {'a': 'x'}, {'A': 1},
         # the same keys inserted in different orders, values differing in opposite directions
         {'x': 1, 'y': 2}, {'y': 1, 'x': 2}, {'y': 2, 'x': 1}, {'x': 2, 'y': 1}, {'x': 1, 'y': 2, 'z': 0}, {'z': 0, 'y': 1, 'x': 2},
         len, abs, re.compile('a'), re.compile('b+')]
    return p


def pool(rnd, n):
    p = base_pool()
    leaves = [x for x in p if not isinstance(x, (list, dict))]
    while len(p) < n:
        d = rnd.randint(1, 3)

        def mk(dd):
            r = rnd.random()
            if dd == 0 or r < 0.4:
                return rnd.choice(leaves)
            if r < 0.7:
                return [mk(dd - 1) for _ in range(rnd.randint(0, 3))]
            return {rnd.choice(['a', 'b', 'c', 'aa', '']): mk(dd - 1) for _ in range(rnd.randint(0, 3))}
        p.append(mk(d))
    return p[:n]


def sc(a, b):
    from bare_script.library import SCRIPT_FUNCTIONS
    try:
        r = SCRIPT_FUNCTIONS['systemCompare']([a, b], None)
        return r if isinstance(r, int) and not isinstance(r, bool) else 98      # 98: not a comparison result
    except Exception:  # pylint: disable=broad-except
        return 99                                                              # 99: the comparison raised


def matrix_cases(vals, shards):
    n = len(vals)
    m = [[sc(vals[i], vals[j]) for j in range(n)] for i in range(n)]
    av = [A.aval(v) for v in vals]
    step = max(1, n // shards)
    out = []
    for f in range(0, n, step):
        out.append({'kind': 'matrix', 'vals': av, 'm': m, 'from': f + 1, 'to': min(n, f + step)})
    return out


def datasort_case(rnd, vals):
    """dataSort on rows whose sort columns mix values that are equal for Python but not for BareScript
    (true / 1, false / 0), equal numbers in both spellings, nulls and missing fields"""
    import copy
    from bare_script.data import sort_data
    fields = ['f1', 'f2', 'f3']
    small = [True, 1, False, 0, None, 1.0, 0.0, 'a', 2, 'b']
    src = small if rnd.random() < 0.6 else (vals[:40] if rnd.random() < 0.7 else vals)
    rows = [{f: copy.deepcopy(rnd.choice(src)) for f in fields if rnd.random() < 0.85} for _ in range(rnd.randint(0, 8))]
    spec = [[f, rnd.random() < 0.4] for f in rnd.sample(fields, rnd.randint(1, 3))]
    ids = {id(r): i + 1 for i, r in enumerate(rows)}
    inp = [A.aval(r) for r in rows]
    try:
        res = sort_data(list(rows), [s if s[1] else [s[0]] for s in spec])
    except Exception:  # pylint: disable=broad-except
        res = []          # the consumer raised: not a permutation of the input
    return {'kind': 'datasort', 'inp': inp, 'out': [A.aval(r) for r in res], 'perm': [ids.get(id(r), 0) for r in res],
            'fields': [{'name': A.cps(f), 'desc': d} for f, d in spec]}


def consumer_cases(rnd, vals, count):
    from bare_script import evaluate_expression
    from bare_script.library import SCRIPT_FUNCTIONS as SF
    from bare_script.data import sort_data
    out = []
    import copy

    def ev(op, a, b):
        try:
            r = evaluate_expression({'binary': {'op': op, 'left': {'variable': 'a'}, 'right': {'variable': 'b'}}}, {'globals': {'a': a, 'b': b}})
            return r if isinstance(r, bool) else (op == '!=')      # a non-boolean result cannot be the sign test (made visible as a wrong boolean)
        except Exception:  # pylint: disable=broad-except
            return op == '!='
    for _ in range(count):
        k = rnd.random()
        if k < 0.3:
            a, b = rnd.choice(vals), rnd.choice(vals)
            if rnd.random() < 0.35:
                # numbers that are close but not equal: == is the sign test of the comparison, not a tolerance test
                a, b = rnd.choice([(0.1 + 0.2, 0.3), (1e9, 1e9 + 1), (1700000000000, 1700000000001), (1.0, 1.0 + 1e-12), (1e15, 1e15 + 1),
                                   (2.0 ** 53, 2.0 ** 53 + 2), (1e-300, 2e-300), (5e-324, 0.0), (123456789.125, 123456789.25), (-1e9, -1e9 - 1)])
                if rnd.random() < 0.5:
                    a, b = b, a
                if rnd.random() < 0.3:
                    a, b = [a], [b]
            elif rnd.random() < 0.3:
                # values the host language confuses or separates differently from the language's own comparison
                d = datetime
                a, b = rnd.choice([(1, True), (0, False), ([1], [True]), ({'a': 0}, {'a': False}), (d.date(2024, 1, 1), d.datetime(2024, 1, 1)),
                                   (d.datetime(2024, 1, 1, 5, 30, tzinfo=TZ5), d.datetime(2024, 1, 1, 0, 0, tzinfo=UTC)),
                                   (re.compile('a'), re.compile('a')), (len, len), (len, abs), (1.0, 1), ('1', 1), (None, False)])
                if rnd.random() < 0.5:
                    a, b = b, a
            out.append({'kind': 'ops', 'a': A.aval(a), 'b': A.aval(b), 'eq': ev('==', a, b), 'ne': ev('!=', a, b), 'lt': ev('<', a, b),
                        'le': ev('<=', a, b), 'gt': ev('>', a, b), 'ge': ev('>=', a, b), 'cmp': sc(a, b)})
        elif k < 0.45:
            src = vals[:14] if rnd.random() < 0.4 else vals
            arr = [copy.deepcopy(rnd.choice(src)) for _ in range(rnd.randint(0, 9))]
            inp = [A.aval(x) for x in arr]
            try:
                res = SF['arraySort']([arr], None)
            except Exception:  # pylint: disable=broad-except
                res = None
            if not isinstance(res, list):
                res = ['the consumer raised or returned no array']
            out.append({'kind': 'sorted', 'inp': inp, 'out': [A.aval(x) for x in res]})
        elif k < 0.6:
            out.append(datasort_case(rnd, vals))
        elif k < 0.72:
            src = vals[:14] if rnd.random() < 0.6 else vals
            args = [rnd.choice(src) for _ in range(rnd.randint(0, 6))]
            which = rnd.choice(['min', 'max'])
            try:
                res = SF['mathMin' if which == 'min' else 'mathMax'](list(args), None)
            except Exception:  # pylint: disable=broad-except
                res = 'the consumer raised'
            out.append({'kind': 'minmax', 'which': which, 'args': [A.aval(x) for x in args], 'out': A.aval(res)})
        else:
            arr = [rnd.choice(vals[:30]) for _ in range(rnd.randint(0, 8))]
            val = rnd.choice(arr) if arr and rnd.random() < 0.7 else rnd.choice(vals)
            if callable(val):
                val = None          # a function value would be used as a match function, not compared
            # the needle in the OTHER host spelling of the same value (int / float, date / datetime at midnight)
            if rnd.random() < 0.5:
                if isinstance(val, bool):
                    pass
                elif isinstance(val, int) and abs(val) < 2 ** 53:
                    val = float(val)
                elif isinstance(val, float) and abs(val) < 2 ** 53 and val == int(val):
                    val = int(val)
                elif isinstance(val, datetime.datetime) and val.tzinfo is None and not (val.hour or val.minute or val.second or val.microsecond):
                    val = val.date()
                elif isinstance(val, datetime.date) and not isinstance(val, datetime.datetime):
                    val = datetime.datetime(val.year, val.month, val.day)
            which = rnd.choice(['first', 'last'])
            start = rnd.randint(0, max(0, len(arr) - 1)) if which == 'first' and arr else 0
            from bare_script.value import ValueArgsError
            try:
                if which == 'first':
                    res = SF['arrayIndexOf']([arr, val, float(start)], None)
                else:
                    res = SF['arrayLastIndexOf']([arr, val], None)
            except ValueArgsError as exc:
                res = exc.return_value
            except Exception:  # pylint: disable=broad-except
                res = None
            out.append({'kind': 'indexof', 'which': which, 'arr': [A.aval(x) for x in arr], 'val': A.aval(val), 'start': start,
                        'out': int(res) if res is not None else -99})
    return out


def canaries(case):
    c = json.loads(json.dumps(case))
    if case['kind'] == 'matrix':
        i = case['from'] - 1
        j = (i + 1) % len(c['m'])
        c['m'][i][j] = 1 if c['m'][i][j] <= 0 else -1
        return [c]
    if case['kind'] == 'ops':
        c['lt'] = not c['lt']
        return [c]
    if case['kind'] == 'sorted' and len(case['out']) >= 2 and case['out'][0] != case['out'][-1]:
        c['out'].reverse()
        return [c]
    if case['kind'] == 'minmax' and case['args']:
        c['out'] = {'t': 'str', 'v': A.cps('not an argument')}
        return [c]
    if case['kind'] == 'indexof':
        c['out'] = c['out'] + 1
        return [c]
    return []


def run(ctx, replay=None):
    rnd = random.Random(ctx.seed)
    if replay is not None:
        F.judge(ctx, 'Trace_Compare', [replay['case']], None, key_fields=('kind', 'vals', 'a', 'b', 'inp', 'args', 'arr'))
        return F.finish(ctx, rule='replay (recorded case re-judged)')
    r = tlc.check_model('MC_Compare', MC_CFG % ctx.pick(6, 1), ctx.work, tag='compare', timeout=3400)
    ctx.mc_runs.append({'module': 'MC_Compare', 'states': r['states'], 'ok': r['ok'], 'seconds': round(r['seconds'], 1)})
    ctx.add_stats(r)
    if not r['ok']:
        ctx.violation('design-level: MC_Compare law violated', {'property': ctx.pid, 'mc': 'MC_Compare', 'out': r['out'][-3000:]})
    vals = pool(rnd, ctx.pick(120, 300))
    cases = matrix_cases(vals, 16 if ctx.quick else 48)
    cases += consumer_cases(rnd, vals, ctx.pick(600, 20000))
    F.judge(ctx, 'Trace_Compare', cases, canaries, key_fields=('kind', 'from', 'a', 'b', 'inp', 'args', 'arr', 'val'),
            describe=lambda c: ({'kind': 'matrix', 'pool': len(c['vals']), 'rows': [c['from'], c['to']], 'sample_values': c['vals'][c['from'] - 1:c['from'] + 1]}
                                if c['kind'] == 'matrix' else {k: v for k, v in c.items() if k not in ('m', 'vals')}),
            nontrivial=lambda c: True, timeout=3400)
    ctx.notes['pool_size'] = len(vals)
    ctx.notes['pairs'] = len(vals) ** 2
    ctx.notes['triples_checked_on_recorded_matrix'] = len(vals) ** 3
    return F.finish(ctx, rule='pool of %d real values of all nine types: every ordered pair through systemCompare, entries and laws '
                    '(reflexive, antisymmetric, transitive over all triples) judged by TLC; consumers on random sub-multisets' % len(vals),
                    exhaustive=True)
