"""C15 - array, object and string functions obey their sequence / map / string contracts under histories.

The reference list / dict / str model is BareLib (LibPure: one action per function on the heap of aliased
cells, frozen signature table, documented failure values, frame condition "a failed call leaves the heap
unchanged").  A history is ONE script: after every call a probe snapshots the result and the whole pool
(deep), so mutations through aliases, freshness of copies / slices and unchanged-on-failure are all visible.
The script text (indices as float literals) is parsed and executed by the real code; the recorded run is
validated step by step against BareCore (Trace_Core).
regexEscape / urlEncode are stated as relations (Trace_LibLaw): regexEscape(s) matches exactly s;
percent-decoding the encoded text gives back the UTF-8 of the input."""
import itertools
import json
import random

from .. import framework as F
from .. import gen_jump, gen_lib, realrun, tlc
from .. import abstraction as A
from . import c08

PROBE = realrun.host_global('probe')


def hist_case(seed, length, names=None, first=None):
    rnd = random.Random(seed)
    model = gen_lib.history(rnd, length, names, first)
    text = '\n'.join(A.jump_text(model)) + '\n'
    script = realrun.bare_script.parse_script(text)
    c = {'kind': 'script', 'model': A.amodel(script), 'real_model': script, 'globals': gen_lib.pool_globals() + [PROBE],
         'limit': 0, 'dbg': rnd.random() < 0.3}
    c = realrun.observe(c)
    c['text'] = text
    return c


def single_call_cases(rnd, per):
    """every function x boundary index values -2..len+2 (one call per history)"""
    out = []
    for name in sorted(gen_lib.SIGS):
        for _ in range(per * 5 if name in ('arrayIndexOf', 'arrayLastIndexOf', 'arraySort') else per):      # searches over confusable values
            out.append((rnd.randrange(1 << 30), 1, [name]))
    return out


def law_cases(rnd, n):
    from bare_script.library import SCRIPT_FUNCTIONS as SF
    out = []
    alphabet = ['a', 'b', '.', '*', '+', '?', '(', ')', '[', ']', '{', '}', '\\', '^', '$', '|', ' ', '-', '/', '\n', 'é', '\U0001F600', '#', '&', '~', '%', ':', "'", '"', '0']
    for _ in range(n):
        s = ''.join(rnd.choice(alphabet) for _ in range(rnd.randint(0, 6)))
        esc = SF['regexEscape']([s], None)
        try:
            rx = SF['regexNew'](['^' + esc + '\\Z', 's'], None) if isinstance(esc, str) else None
        except Exception:  # pylint: disable=broad-except
            rx = None            # the escaped text is not even a pattern: it matches nothing, in particular not s
        tests = [s]
        for _ in range(4):
            t = list(s)
            if t and rnd.random() < 0.5:
                t[rnd.randrange(len(t))] = rnd.choice(alphabet)
            elif t and rnd.random() < 0.5:
                del t[rnd.randrange(len(t))]
            else:
                t.insert(rnd.randint(0, len(t)), rnd.choice(alphabet))
            tests.append(''.join(t))
        res = []
        for t in tests:
            try:
                m = SF['regexMatch']([rx, t], None) if rx is not None else None
            except Exception:  # pylint: disable=broad-except
                m = None
            res.append({'t': A.cps(t), 'matched': m is not None})
        out.append({'kind': 'regexEscape', 's': A.cps(s), 'escaped': isinstance(esc, str), 'tests': res, 'enc': [], 'comp': []})
        e1 = SF['urlEncode']([s], None)
        e2 = SF['urlEncodeComponent']([s], None)
        out.append({'kind': 'urlEncode', 's': A.cps(s), 'escaped': True, 'tests': [],
                    'enc': A.cps(e1) if isinstance(e1, str) else [0], 'comp': A.cps(e2) if isinstance(e2, str) else [0]})
    return out


def law_canaries(case):
    c = json.loads(json.dumps(case))
    if case['kind'] == 'regexEscape' and case['tests']:
        c['tests'][0]['matched'] = not c['tests'][0]['matched']
        return [c]
    if case['kind'] == 'urlEncode' and case['enc']:
        c['enc'][-1] = 65 if c['enc'][-1] != 65 else 66
        return [c]
    return []


def describe(c):
    return {'source': c['text'].split('\n')[:24], 'status': c['fin']['status'], 'calls': (len(c['trace'])) - 1}


def canaries(case):
    out = []
    tr = case['trace']
    probes = [i for i, e in enumerate(tr) if e['ev'] == 'probe']
    if len(probes) >= 2:
        c = json.loads(json.dumps(case))
        e = c['trace'][probes[-1]]
        e['args'][2] = {'t': 'array', 'v': [{'t': 'num', 'f': 'q', 'n': 42, 'd': 1}]}      # a heap cell changed
        out.append(c)
        c = json.loads(json.dumps(case))
        e = c['trace'][probes[len(probes) // 2]]
        e['args'][1] = {'t': 'str', 'v': A.cps('corrupted result')}
        out.append(c)
    return out


def run(ctx, replay=None):
    rnd = random.Random(ctx.seed)
    if replay is not None:
        rc = replay['case']
        if rc.get('kind') in ('regexEscape', 'urlEncode'):
            F.judge(ctx, 'Trace_LibLaw', [rc], None, tag='law', key_fields=('kind', 's'))
        else:
            script = realrun.bare_script.parse_script(rc['text'])
            c = realrun.observe({'kind': 'script', 'model': A.amodel(script), 'real_model': script,
                                 'globals': gen_lib.pool_globals() + [PROBE], 'limit': 0, 'dbg': rc.get('dbg', False)})
            c['text'] = rc['text']
            F.judge(ctx, 'Trace_Core', [c], None, invariants=c08.INVS, describe=describe, key_fields=('text',))
        return F.finish(ctx, rule='replay')
    jobs = single_call_cases(rnd, ctx.pick(12, 150))
    bc = gen_lib.boundary_calls()
    jobs += [(7, 0, [name], e) for name, e in bc]            # seed 7: the canonical pool (a1 = [1, 2, 3], s1 = 'hello')
    ctx.notes['boundary_calls'] = len(bc)
    jobs += [(rnd.randrange(1 << 30), rnd.choice([3, 8, 15, 30]), None) for _ in range(ctx.pick(500, 20000))]
    cases = F.pmap(hist_case, jobs)
    F.judge(ctx, 'Trace_Core', cases, canaries, invariants=c08.INVS, describe=describe, key_fields=('text',),
            nontrivial=lambda c: len(c['trace']) > 2)
    laws = law_cases(rnd, ctx.pick(800, 20000))
    F.judge(ctx, 'Trace_LibLaw', laws, law_canaries, tag='law', key_fields=('kind', 's'),
            describe=lambda c: {'kind': c['kind'], 's': A.uncps(c['s'])})
    ncalls = sum(len(c['trace']) - 1 for c in cases)
    fails = sum(1 for c in cases for e in c['trace'] if e['ev'] == 'dbgfail')
    if not fails:
        ctx.vacuous('vacuity: no failing call observed in debug mode')
    ctx.notes.update({'histories': len(cases), 'library_calls': ncalls, 'functions': len(gen_lib.SIGS), 'failing_calls_reported_in_debug_mode': fails})
    return F.finish(ctx, rule='histories of up to 30 calls over %d array/object/string/system functions on a pool of aliased containers '
                    '(alias, copy, nested reference), indices -2..len+2 as float literals incl. fractional ones, wrong-typed / '
                    'missing / surplus arguments of every type; after each call the result and the whole pool are snapshotted; '
                    'plus one-call histories per function x boundary arguments; regexEscape / urlEncode relation cases' % len(gen_lib.SIGS))
