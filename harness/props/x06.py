"""X06 (coverage beyond the listed properties) - urlEncode / urlEncodeComponent / regexEscape, exactly.

C15 demands reversibility / exact matching only; this check pins the encodings themselves (which characters are kept, upper-case
hex of the UTF-8 bytes, which characters get a backslash) as BareLib.UrlQuote / ReEscape define them."""
import json
import random

from .. import framework as F
from .. import abstraction as A

ALPHABET = [chr(c) for c in range(32, 127)] + ['\t', '\n', '\r', '\x0b', '\x0c', 'é', 'ß', '€', ' ', '\U0001F600', '\x7f', '\x00', '\xa0']


def one_case(seed):
    from bare_script.library import SCRIPT_FUNCTIONS as SF
    rnd = random.Random(seed)
    s = ''.join(rnd.choice(ALPHABET) for _ in range(rnd.randint(0, 8)))
    out = {}
    for key, fn in (('enc', 'urlEncode'), ('comp', 'urlEncodeComponent'), ('esc', 'regexEscape')):
        try:
            r = SF[fn]([s], None)
        except Exception:  # pylint: disable=broad-except
            r = None
        out[key] = A.cps(r) if isinstance(r, str) else [0]
    return {'s': A.cps(s), **out}


def canaries(case):
    c = json.loads(json.dumps(case))
    c['enc'] = c['enc'] + [37]
    c2 = json.loads(json.dumps(case))
    c2['esc'] = [92] + c2['esc']
    return [c, c2]


def run(ctx, replay=None):
    if replay is not None:
        F.judge(ctx, 'Trace_Encode', [replay['case']], None, key_fields=('s',))
        return F.finish(ctx, rule='replay (recorded case re-judged)')
    singles = [{'s': A.cps(ch), **{k: v for k, v in one_char(ch).items()}} for ch in ALPHABET]
    cases = singles + F.pmap(one_case, [(ctx.seed * 611953 + i,) for i in range(ctx.pick(4000, 100000))])
    F.judge(ctx, 'Trace_Encode', cases, canaries, key_fields=('s',),
            describe=lambda c: {'s': A.uncps(c['s']), 'urlEncode': A.uncps(c['enc']), 'urlEncodeComponent': A.uncps(c['comp']), 'regexEscape': A.uncps(c['esc'])},
            nontrivial=lambda c: len(c['s']) > 0)
    return F.finish(ctx, rule='every printable ASCII character, the blanks, DEL, NUL and a handful of 2-, 3- and 4-byte characters alone, plus '
                    'random strings of up to 8 of them', exhaustive=True)


def one_char(ch):
    from bare_script.library import SCRIPT_FUNCTIONS as SF
    out = {}
    for key, fn in (('enc', 'urlEncode'), ('comp', 'urlEncodeComponent'), ('esc', 'regexEscape')):
        r = SF[fn]([ch], None)
        out[key] = A.cps(r) if isinstance(r, str) else [0]
    return out
