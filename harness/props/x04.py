"""X04 (coverage beyond the listed properties) - the linter's rule set, exactly.

C18 decides that warnings are justified and that lint_script is pure; this check decides WHICH warnings are reported: for every
model the bag of (kind, scope, name, indices) printed by the real lint_script must equal the bag BareLintExact specifies
(Trace_LintExact).  Models: every statement list <= n over the MC_Lint alphabet, random jump-level models with duplicate labels /
functions / arguments, parsed random structured programs, the shipped scripts, and small hand-shaped corner models."""
import itertools
import random
import re

from .. import framework as F
from .. import gen_jump, gen_struct, realrun, tlc
from .. import abstraction as A
from . import c18

EXTRA = [
    (re.compile(r'^Empty script$'), 'empty'),
    (re.compile(r'^Global variable "(?P<n>.*)" used \(index (?P<i>\d+)\) before assignment \(index (?P<j>\d+)\)$'), 'used-before'),
    (re.compile(r'^Variable "(?P<n>.*)" of function "(?P<f>.*)" used \(index (?P<i>\d+)\) before assignment \(index (?P<j>\d+)\)$'), 'used-before'),
]


def parse_warning(w):
    for rx, kind in EXTRA:
        m = rx.match(w)
        if m:
            d = m.groupdict()
            return {'kind': kind, 'scope': d.get('f') or '', 'name': d.get('n') or '', 'i1': int(d['i']) if 'i' in d else -1,
                    'i2': int(d['j']) if 'j' in d else -1}
    p = c18.parse_warning(w)
    if p['kind'] == 'other':
        return {'kind': 'other', 'scope': '', 'name': w[:80], 'i1': -1, 'i2': -1}
    return {'kind': p['kind'], 'scope': p['scope'], 'name': p['name'], 'i1': p['index'], 'i2': -1}


def lint_case(model_real):
    from bare_script import lint_script
    raised, ws = '', []
    try:
        ws = lint_script(model_real)
    except Exception as exc:  # pylint: disable=broad-except
        raised = f'{type(exc).__name__}: {exc}'[:120]
    return {'model': A.amodel(model_real), 'warnings': [parse_warning(w) for w in ws], 'raised': raised, 'text': ws[:12]}


def alpha_job(model_abs):
    return lint_case(A.gmodel(model_abs))


def rand_job(seed):
    rnd = random.Random(seed)
    r = rnd.random()
    if r < 0.55:
        m = gen_jump.rmodel(rnd, maxlen=rnd.choice([3, 6, 14, 25]), ops=['+', '-', '*', '<', '==', '&&', '||'])
        for s in m:
            if s['k'] == 'function' and s['args'] and rnd.random() < 0.4:
                s['args'] = s['args'] + [rnd.choice(s['args'])] * rnd.randint(1, 2)
            if s['k'] == 'function' and rnd.random() < 0.3:
                # assignments to parameters / use before assignment inside the function
                v = rnd.choice((s['args'] or ['q']) + ['t1'])
                s['body'] = s['body'] + [{'k': 'expr', 'name': '', 'e': gen_jump.call('probe', gen_jump.num(1), gen_jump.var(v))},
                                         {'k': 'expr', 'name': v, 'e': gen_jump.num(2)}]
        if rnd.random() < 0.2:
            m = m + [x for x in m if x['k'] == 'function'][:1]      # the same function statement twice: one scope name, two bodies
        if rnd.random() < 0.05:
            m = []
        return lint_case(A.gmodel(m))
    prog = gen_struct.rprogram(rnd, maxdepth=rnd.choice([1, 2, 3, 4]))
    text = '\n'.join(A.struct_text(prog)) + '\n'
    return lint_case(realrun.bare_script.parse_script(text))


def shipped():
    import importlib.resources
    out = []
    for entry in sorted(importlib.resources.files('bare_script.include').iterdir(), key=lambda e: e.name):
        if entry.name.endswith('.bare'):
            out.append(lint_case(realrun.bare_script.parse_script(entry.read_text(encoding='utf-8'))))
    return out


def canaries(case):
    import json
    out = []
    c = json.loads(json.dumps(case))
    if case['warnings']:
        c['warnings'].pop()
        out.append(c)
        c = json.loads(json.dumps(case))
        c['warnings'][0]['i1'] += 1
        out.append(c)
        c = json.loads(json.dumps(case))
        c['warnings'].append(c['warnings'][0])
        out.append(c)
    else:
        c['warnings'].append({'kind': 'pointless', 'scope': '', 'name': '', 'i1': 0, 'i2': -1})
        out.append(c)
    return out


def run(ctx, replay=None):
    rnd = random.Random(ctx.seed)
    if replay is not None:
        F.judge(ctx, 'Trace_LintExact', [lint_case(A.gmodel(replay['case']['model']))], None, key_fields=('model',))
        return F.finish(ctx, rule='replay')
    n = ctx.pick(3, 4)
    r = tlc.check_model('MC_Lint', 'SPECIFICATION Spec\nCONSTANT N = %d\nINVARIANT EditsSound\nINVARIANT NoUnknownNoError\nCHECK_DEADLOCK FALSE\n' % ctx.pick(2, 3),
                        ctx.work, tag='lint', timeout=3400)
    ctx.add_stats(r)
    alpha = tlc.printed_json(r['out'], 'ALPHABET')[0]
    jobs = []
    for k in range(0, n + 1):
        for ix in itertools.product(range(len(alpha)), repeat=k):
            jobs.append(([alpha[i] for i in ix],))
    cases = F.pmap(alpha_job, jobs)
    nalpha = len(jobs)
    cases += F.pmap(rand_job, [(ctx.seed * 7907 + i,) for i in range(ctx.pick(6000, 120000))])
    cases += shipped()
    F.judge(ctx, 'Trace_LintExact', cases, canaries, key_fields=('model',),
            describe=lambda c: {'warnings': c['text'], 'source': A.jump_text(c['model'])[:25] if not any(s['k'] == 'include' for s in c['model']) else '(shipped script)'},
            nontrivial=lambda c: bool(c['warnings']))
    kinds = {}
    for c in cases:
        for w in c['warnings']:
            kinds[w['kind']] = kinds.get(w['kind'], 0) + 1
    ctx.notes.update({'alphabet_models': nalpha, 'warnings_by_kind': kinds})
    for need in ('empty', 'used-before', 'redef-function', 'unused-variable', 'dup-arg', 'unused-argument', 'pointless', 'redef-label',
                 'unused-label', 'unknown-label'):
        if not kinds.get(need):
            ctx.vacuous(f'vacuity: no {need} warning in the sample')
    return F.finish(ctx, rule='every statement list <= %d over the jump alphabet, random jump-level models (duplicate labels / functions / '
                    'arguments, parameters re-assigned, use before assignment, a function statement repeated), parsed random structured '
                    'programs, the shipped scripts; the bag of reported warnings (kind, scope, name, indices) equals the specified bag' % n,
                    exhaustive=True)
