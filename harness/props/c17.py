"""C17 - includes resolve relative to the including file and run in global scope.

leg A  MC_Include: every include tree of the small VFS family; the BareCore machine agrees with the
       structural statement of the property (Expected) and BaseRestored holds on every step.
leg B  the same trees rendered to a dict-backed fetchFn and executed by the real code (fetch order, probes,
       error class and the location it names) - validated against BareCore (Trace_Core).
leg C  random trees to depth 4 / fan-out 3 over a richer VFS (URL and path bases, includes inside function
       bodies, returns, globals set by included scripts, merged adjacent includes)."""
import json
import random

from .. import framework as F
from .. import realrun, tlc
from .. import abstraction as A
from . import c08

MC_CFG = '''SPECIFICATION Spec
CONSTANT Wide = %s
INVARIANT Agrees
%s
PROPERTY BaseRestored
CHECK_DEADLOCK FALSE
'''
PROBE = realrun.host_global('probe')


def num(n):
    return {'k': 'num', 'v': {'t': 'num', 'f': 'q', 'n': n, 'd': 1}}


def probe_s(i, *more):
    return {'k': 'expr', 'name': '', 'e': {'k': 'call', 'name': 'probe', 'noargs': False, 'args': [num(i)] + list(more)}}


def inc_s(refs):
    return {'k': 'include', 'incs': refs}


RET = {'k': 'return', 'hasE': False, 'e': A.NULLVAR}


def content(i, refs, early, merged):
    out = [probe_s(i)]
    if merged and len(refs) == 2:
        out.append(inc_s(refs))
    else:
        out.extend(inc_s([r]) for r in refs)
    if early:
        out.append(RET)
    out.append(probe_s(i + 10))
    return out


def vfs_entry(url, kind, model):
    text = '\n'.join(A.jump_text(model)) + '\n' if model else ''       # an included file may be EMPTY (zero characters): that is a script
    if kind == 'broken':
        text = 'probe(99)\nx = (1 +\n'
    return {'url': url, 'kind': kind, 'model': model, 'text': text, 'cps': A.cps(text)}


def family_case(ch, fx):
    vfs = [vfs_entry(fx['a'], 'text', content(2, ch['ra'], ch['early'], False)),
           vfs_entry(fx['b'], 'text', content(3, ch['rb'], False, False)),
           vfs_entry(fx['c'], 'text', content(4, [], ch['early'], False)),
           vfs_entry(fx['e'], ch['kindE'], content(5, [], False, False)),
           vfs_entry(fx['g'], 'text', content(6, ch['rg'], False, False)),
           vfs_entry(fx['w'], 'text', content(8, [], False, False)),
           vfs_entry(fx['t'], 'text', content(7, [], False, False))]
    main = content(1, ch['rmain'], False, ch['merged'])
    inc = {'vfs': vfs, 'sys': fx['sys'], 'hasSys': True, 'base': fx['main'] if ch['hostBase'] == 'path' else [],
           'hasBase': ch['hostBase'] == 'path', 'hasFetch': True}
    return run_case(main, inc)


def run_case(main, inc, limit=80, globs=None, dbg=False, from_text=True, prerun=False):
    c = {'kind': 'script', 'model': main, 'globals': (globs or []) + [PROBE], 'limit': limit, 'dbg': dbg, 'inc': inc}
    if from_text:
        # the includer is parsed from text too (adjacent include lines are merged by the parser)
        text = '\n'.join(A.jump_text(main)) + '\n'
        script = realrun.bare_script.parse_script(text)
        c['real_model'] = script
        c['model'] = A.amodel(script)
    for f in inc['vfs']:
        if f['kind'] == 'text' and not f.get('data'):
            f['model'] = A.amodel(realrun.bare_script.parse_script(f['text']))
    c['prerun'] = prerun        # the host may re-use one options object: a run (possibly failing inside an include) before the observed one
    return realrun.observe(c)


# ---- random richer trees
DIRS = ['', 'lib/', 'lib/util/', 'app/mod/']
FILES = ['m.bare', 'n.bare', 'o.bare']


def rand_tree(rnd):
    base_kind = rnd.choice(['path', 'url', 'none', 'abs', 'app', 'mem'])
    root = {'path': 'proj/main.bare', 'url': 'https://h.example/p/main.bare', 'none': '', 'abs': '/srv/x/main.bare',
            'app': 'app://host/p/q/main.bare', 'mem': 'mem:main.bare'}[base_kind]         # application schemes are URLs too
    sys_prefix = rnd.choice(['sysinc/', 'https://cdn.example/inc/', None])
    vfs = {}
    budget = [rnd.randint(2, 9)]

    def resolve(base, ref, system):
        import re
        if system and sys_prefix is not None:
            base = sys_prefix
        elif base == '' and not system:
            return ref
        elif base == '' and system:
            return ref
        if re.match(r'^[a-z]+:', ref) or ref.startswith('/'):
            return ref
        return base[:base.rfind('/') + 1] + ref

    def make_file(url, depth):
        stmts = [probe_s(rnd.randint(1, 99))]
        n = rnd.choice([0, 1, 1, 2, 3]) if depth < 4 else 0
        for _ in range(n):
            if budget[0] <= 0:
                break
            budget[0] -= 1
            system = rnd.random() < 0.2
            refk = rnd.random()
            if refk < 0.08:
                ref = rnd.choice(['../up.bare', 'sub/../same.bare', 'q.bare?v=1', './dot.bare'][:3 if base_kind in ('path', 'abs') else 4][:2] if base_kind in ('path', 'abs') else ['../up.bare', 'sub/../same.bare', 'q.bare?v=1'])
            elif refk < 0.6:
                ref = rnd.choice(DIRS) + rnd.choice(FILES)
            elif refk < 0.75:
                ref = '/abs/' + rnd.choice(FILES)
            elif refk < 0.9:
                ref = 'https://o.example/' + rnd.choice(DIRS) + rnd.choice(FILES)
            else:
                ref = 'missing/' + rnd.choice(FILES)
            target = resolve(url, ref, system)
            if 'missing/' not in ref and target not in vfs and target != root:
                vfs[target] = None
                kind = rnd.choices(['text', 'missing', 'throws', 'broken', 'empty'], [8, 1, 1, 1, 1])[0]
                sub = make_file(target, depth + 1) if kind in ('text',) else []
                if kind == 'empty':
                    kind = 'text'
                vfs[target] = (kind, sub)
            inc = inc_s([{'url': A.cps(ref), 'system': system}])
            r = rnd.random()
            if r < 0.2:
                # include inside a function body that is then called: runs in global scope
                fname = f'fn{rnd.randint(0, 99)}'
                stmts.append({'k': 'function', 'name': fname, 'args': ['lv'], 'last': False,
                              'body': [{'k': 'expr', 'name': 'lv', 'e': num(5)}, inc, probe_s(rnd.randint(100, 199), {'k': 'var', 'v': 'lv'})]})
                stmts.append({'k': 'expr', 'name': '', 'e': {'k': 'call', 'name': fname, 'noargs': False, 'args': [num(1)]}})
            else:
                stmts.append(inc)
            if rnd.random() < 0.3:
                stmts.append({'k': 'expr', 'name': f'gv{rnd.randint(0, 3)}', 'e': num(rnd.randint(0, 9))})
            if rnd.random() < 0.35:
                # systemFetch resolves against the running script too (url | request object | array of those)
                def sstr(t):
                    return {'k': 'str', 'v': A.cps(t)}
                refs = []
                for _ in range(rnd.randint(1, 2)):
                    dref = rnd.choice(['data.txt', 'sub/data.txt', '/abs/data.txt', 'https://o.example/d.json', 'missing/none.txt'])
                    tgt = resolve(url, dref, False) if url else dref
                    if 'missing/' not in dref and tgt not in vfs:
                        vfs[tgt] = ('data', f'payload of {tgt}')
                    refs.append(dref)
                form = rnd.random()
                call = lambda n, *a: {'k': 'call', 'name': n, 'noargs': False, 'args': list(a)}      # noqa: E731
                if form < 0.4:
                    arg = sstr(refs[0])
                elif form < 0.6:
                    arg = call('objectNew', sstr('url'), sstr(refs[0]))
                elif form < 0.9:
                    arg = call('arrayNew', *[sstr(r) if rnd.random() < 0.6 else call('objectNew', sstr('url'), sstr(r)) for r in refs])
                else:
                    arg = rnd.choice([num(5), call('objectNew', sstr('uri'), sstr(refs[0])), call('arrayNew', num(1))])
                stmts.append(probe_s(rnd.randint(300, 399), call('systemFetch', arg)))
            if rnd.random() < 0.15:
                stmts.append(RET)
            stmts.append(probe_s(rnd.randint(200, 299), {'k': 'var', 'v': f'gv{rnd.randint(0, 3)}'}))
        return stmts
    main = make_file(root, 0)
    entries = [vfs_entry(A.cps(u), k, m) if k != 'data' else {'url': A.cps(u), 'kind': 'text', 'model': [], 'text': m, 'cps': A.cps(m), 'data': True}
               for u, (k, m) in vfs.items() if (k, m) is not None]
    inc = {'vfs': entries, 'sys': A.cps(sys_prefix or ''), 'hasSys': sys_prefix is not None, 'base': A.cps(root),
           'hasBase': base_kind != 'none', 'hasFetch': rnd.random() < 0.95}
    return main, inc


def rand_case(seed):
    rnd = random.Random(seed)
    main, inc = rand_tree(rnd)
    return run_case(main, inc, limit=300, dbg=rnd.random() < 0.2, prerun=rnd.random() < 0.25)


def canaries(case):
    out = []
    fetches = [i for i, e in enumerate(case['trace']) if e['ev'] == 'fetch']
    if fetches:
        c = json.loads(json.dumps(case))
        c['trace'][fetches[-1]]['url'] = c['trace'][fetches[-1]]['url'] + [120]
        out.append(c)
    if len(fetches) >= 2 and case['trace'][fetches[0]] != case['trace'][fetches[1]]:
        c = json.loads(json.dumps(case))
        i, j = fetches[0], fetches[1]
        c['trace'][i], c['trace'][j] = c['trace'][j], c['trace'][i]
        out.append(c)
    if case['fin']['status'] in ('include', 'parse'):
        c = json.loads(json.dumps(case))
        c['fin']['url'] = c['fin']['url'][:-1]
        out.append(c)
    return out


def describe(c):
    return {'main': A.jump_text(c['model']), 'files': {A.uncps(f['url']): f['kind'] for f in c['inc']['vfs']},
            'base': A.uncps(c['inc']['base']), 'fetch_order': [A.uncps(e['url']) for e in c['trace'] if e['ev'] == 'fetch'],
            'status': c['fin']['status'], 'named_location': A.uncps(c['fin']['url'])}


def run(ctx, replay=None):
    rnd = random.Random(ctx.seed)
    if replay is not None:
        rc = replay['case']
        c = run_case(rc['model'], rc['inc'], rc['limit'], [g for g in rc['globals'] if g['name'] != 'probe'], rc.get('dbg', False), from_text=False)
        F.judge(ctx, 'Trace_Core', [c], None, invariants=c08.INVS, describe=describe, key_fields=('model', 'inc'))
        return F.finish(ctx, rule='replay')
    r = tlc.check_model('MC_Include', MC_CFG % (ctx.pick('FALSE', 'TRUE'), 'INVARIANT EmitCase'), ctx.work, tag='include', timeout=3400)
    ctx.mc_runs.append({'module': 'MC_Include', 'states': r['states'], 'ok': r['ok'], 'seconds': round(r['seconds'], 1)})
    ctx.add_stats(r)
    if not r['ok']:
        ctx.violation('design-level: MC_Include violated', {'property': ctx.pid, 'mc': 'MC_Include', 'out': r['out'][-3000:]})
    fx = tlc.printed_json(r['out'], 'FIXED')[0]
    choices = tlc.printed_json(r['out'], 'CASE')
    if len(choices) < 1000:
        raise tlc.MachineryError('MC_Include printed too few cases')
    if ctx.quick:
        choices = rnd.sample(choices, 5000)
    elif len(choices) > 120000:
        choices = rnd.sample(choices, 120000)
    cases = F.pmap(family_case, [(ch, fx) for ch in choices])
    seeds = [(ctx.seed * 1000003 + i,) for i in range(ctx.pick(2500, 30000))]
    cases += F.pmap(rand_case, seeds)
    F.judge(ctx, 'Trace_Core', cases, canaries, invariants=c08.INVS, describe=describe, key_fields=('model', 'inc'),
            nontrivial=lambda c: any(e['ev'] == 'fetch' for e in c['trace']))
    st = {}
    for c in cases:
        st[c['fin']['status']] = st.get(c['fin']['status'], 0) + 1
    for need in ('done', 'include', 'parse'):
        if not st.get(need):
            ctx.vacuous(f'vacuity: no run ended with status {need}')
    ctx.notes['finish_status_counts'] = st
    ctx.notes['family_trees'] = len(choices)
    return F.finish(ctx, rule='include trees of the MC_Include family (refs main<=2, a/b/g<=1, early return, merged adjacent includes, '
                    'path/no base, text/missing/throwing/broken target) and random trees to depth 4 / fan-out 3 over URL, path, '
                    'absolute and no base with system prefix variants and includes inside function bodies; fetch order, probes, '
                    'error class and named location validated against BareCore; non-trivial = at least one fetch',
                    exhaustive=not ctx.quick)
