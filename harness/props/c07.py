"""C07 - lowered code is well formed: schema-valid with intact, unique jump targets.

leg A  MC_Struct invariant WF: WellFormed(Lower(prog)) for every program of StructFamily(Depth).
leg B  the real parse_script output of every enumerated program (and of random deeper programs) is handed
       to TLC, which evaluates WellFormed on it (Trace_WF); the real validate_script must accept it and
       the real lint_script must report no label warning."""
import json
import random
import re

from .. import framework as F
from .. import gen_struct, realrun, tlc
from .. import abstraction as A
from . import c01

MC_CFG = '''SPECIFICATION Spec
CONSTANT ShardI = %d
CONSTANT ShardN = %d
CONSTANT Depth = %d
CONSTANT InputMode = "one"
CONSTANT Dev = {}
INVARIANT WF
%s
CHECK_DEADLOCK FALSE
'''
DEV = 'CONSTANT Dev = {"WhileContinueSkipsTest"}\n'      # diagnostic lowering comparison uses the pinned tree's shape
_LABEL_WARN = re.compile(r'label', re.I)


def labels_of(stmts, acc):
    for s in stmts:
        if s['k'] == 'label':
            acc.add(s['v'])
        elif s['k'] == 'jump':
            acc.add(s['label'])
        elif s['k'] == 'function':
            labels_of(s['body'], acc)
    return acc


def wf_case(prog, text=None, diag=True):
    from bare_script import lint_script, parse_script, validate_script
    if text is None:
        text = '\n'.join(A.struct_text(prog)) + '\n'
    c = {'text': text, 'prog': prog if (prog is not None and diag) else [], 'hasProg': prog is not None and diag, 'parsedOK': True, 'parsed': [],
         'reserved': [], 'schemaValid': True, 'labelWarnings': [], 'error': ''}
    try:
        script = parse_script(text)
    except Exception as exc:  # pylint: disable=broad-except
        c['parsedOK'] = False
        c['error'] = f'{type(exc).__name__}: {exc}'[:300]
        return c
    c['parsed'] = A.amodel(script)
    c['reserved'] = sorted(l for l in labels_of(c['parsed'], set()) if l.startswith('__bareScript'))
    try:
        validate_script(script)
    except Exception as exc:  # pylint: disable=broad-except
        c['schemaValid'] = False
        c['error'] = f'{type(exc).__name__}: {exc}'[:300]
    try:
        c['labelWarnings'] = [w for w in lint_script(script) if _LABEL_WARN.search(w)]
    except Exception as exc:  # pylint: disable=broad-except
        c['labelWarnings'] = [f'lint raised {type(exc).__name__}: {exc}']
    return c


def canaries(case):
    out = []
    if not case['parsedOK']:
        return out

    def first(stmts, kind):
        for s in stmts:
            if s['k'] == kind and (kind != 'label' or s['v'].startswith('__bareScript')):
                return s
            if s['k'] == 'function':
                r = first(s['body'], kind)
                if r:
                    return r
        return None
    c = json.loads(json.dumps(case))
    lab = first(c['parsed'], 'label')
    if lab:
        lab['v'] = lab['v'] + 'x'            # a jump now targets an undefined label / the label is unused
        c['reserved'] = c['reserved'] + [lab['v']]
        out.append(c)
    c = json.loads(json.dumps(case))
    c['schemaValid'] = False
    out.append(c)
    return out


def run(ctx, replay=None):
    rnd = random.Random(ctx.seed)
    if replay is not None:
        if 'mc' in replay:
            print(replay.get('out', '')[-2000:])
            return 1
        rc = replay['case']
        F.judge(ctx, 'Trace_WF', [wf_case(rc['prog'] if rc.get('hasProg') else None, rc['text'])], None, cfg_consts=DEV, key_fields=('text',))
        return F.finish(ctx, rule='replay')
    from concurrent.futures import ThreadPoolExecutor
    progs = []
    for depth, emit in ctx.pick(((2, True),), ((2, True), (3, False))):
        shards = tlc.NCPU

        def one(i, depth=depth, emit=emit):
            return tlc.check_model('MC_Struct', MC_CFG % (i, shards, depth, 'INVARIANT EmitProg' if emit else ''), ctx.work,
                                   tag=f'wf{depth}_{i}', workers=1, timeout=3 * 3400, heap='3500m')
        with ThreadPoolExecutor(max_workers=shards) as ex:
            rs = list(ex.map(one, range(shards)))
        ok = all(x['ok'] for x in rs)
        states = sum(x['states'] for x in rs)
        ctx.mc_runs.append({'module': 'MC_Struct(WF)', 'Depth': depth, 'programs': states, 'ok': ok,
                            'seconds': round(max(x['seconds'] for x in rs), 1)})
        ctx.add_stats({'states': states, 'transitions': sum(x['transitions'] for x in rs)})
        if not ok:
            bad = next(x for x in rs if not x['ok'])
            ctx.violation('design-level: WellFormed(Lower(prog)) violated', {'property': ctx.pid, 'mc': 'MC_Struct', 'out': bad['out'][-3000:]})
        if emit:
            for x in rs:
                progs.extend(tlc.printed_json(x['out'], 'PROG'))
    if len(progs) < 100:
        raise tlc.MachineryError('too few programs printed')
    jobs = [(p,) for p in progs]
    for _ in range(ctx.pick(1500, 20000)):
        jobs.append((gen_struct.rprogram(rnd, maxdepth=rnd.choice(ctx.pick([3, 4, 5, 6], [3, 4, 5, 6, 7]))), None, False))
    # parse-only programs (C07 is static): loops on literal conditions with and without break, an if on a literal; and the random
    # programs once more with layout-neutral trailing blanks / tabs on every line
    lit = ['1', '0', 'true', 'null', "'s'", '2.5']
    for cnd in lit:
        for body in ('x = 1', 'x = 1\n    break', 'if x:\n        continue\n    endif\n    x = 2'):
            jobs.append((None, f'while {cnd}:\n    {body}\nendwhile\n', False))
            jobs.append((None, f'function f1():\n    while {cnd}:\n        y = 2\n    endwhile\nendfunction\n', False))
        jobs.append((None, f'if {cnd}:\n    x = 1\nelif {cnd}:\n    x = 2\nelse:\n    x = 3\nendif\nfor v in arrayNew({cnd}):\n    x = v\nendfor\n', False))
    for _ in range(ctx.pick(400, 8000)):
        prog = gen_struct.rprogram(rnd, maxdepth=rnd.choice([2, 3, 4]))
        text = '\n'.join(ln + rnd.choice(['', '', ' ', '  ', '\t']) for ln in A.struct_text(prog)) + '\n'
        jobs.append((prog, text, False))
    cases = F.pmap(wf_case, jobs)
    F.judge(ctx, 'Trace_WF', cases, canaries, cfg_consts=DEV, key_fields=('text',),
            describe=lambda c: {'source': c['text'].split('\n')[:30], 'reserved_labels': c['reserved'][:12]},
            nontrivial=lambda c: len(c['reserved']) > 0)
    ctx.notes['enumerated_programs_parsed'] = len(progs)
    return F.finish(ctx, rule='every program of StructFamily to the stated depth (WellFormed(Lower(p)) by TLC) and the real '
                    'parse_script output of every enumerated program of the printed depth plus random programs to depth 7 '
                    '(WellFormed evaluated by TLC on the real model, validate_script, lint label warnings); non-trivial = the '
                    'model contains reserved labels', exhaustive=True)
