"""C02 - expression text parses to the tree the precedence rules dictate.

leg A  MC_ExprSyntax: all operator chains <= K: the parser's fold-with-rotation (one operator per TLC step)
       keeps SpineOrdered, equals PrecTree on every prefix and at the end.
leg B  every chain <= k rendered to text with operand forms {atom, -a, !a, (a op b), f(a, b op c)} and two
       whitespace layouts -> real parse_expression -> alpha -> TLC compares with Denote(flat) (Trace_Expr).
leg C  random flat expressions to depth 8 (number spellings, both string quotings with escapes, bracketed
       names, calls, groups, unary chains) and random token strings (accept / reject agreement)."""
import itertools
import json
import random

from .. import framework as F
from .. import realrun, tlc
from .. import abstraction as A
from .gen_helpers import flat_text, rand_flat, rand_tokens, tokens_text

OPS = ['**', '*', '/', '%', '+', '-', '<=', '<', '>=', '>', '==', '!=', '&&', '||']
MC_CFG = '''SPECIFICATION Spec
CONSTANT K = %d
INVARIANT SpineInv
INVARIANT PrefixInv
INVARIANT FinalInv
CHECK_DEADLOCK FALSE
'''


def var(n):
    return {'k': 'var', 'v': n}


def operand_forms(i):
    a = var(f'a{i}')
    return [a, {'k': 'un', 'op': '-', 'e': a}, {'k': 'un', 'op': '!', 'e': a},
            {'k': 'grp', 'e': {'k': 'chain', 'operands': [a, var(f'b{i}')], 'ops': [OPS[(i * 5 + 3) % 14]]}},
            {'k': 'call', 'name': 'ff', 'args': [a, {'k': 'chain', 'operands': [var(f'b{i}'), var(f'c{i}')], 'ops': [OPS[(i * 3) % 14]]}]}]


def parse_case(kind, obj, text):
    from bare_script import parse_expression, BareScriptParserError
    c = {'kind': kind, 'text': text, 'flat': obj if kind == 'flat' else {'k': 'var', 'v': 'x'},
         'tokens': obj if kind == 'tokens' else [], 'parsed': {'k': 'var', 'v': '-'}, 'outcome': 'ok'}
    try:
        e = parse_expression(text)
        e2 = parse_expression(text)
        c['parsed'] = A.aexpr(e)
        if e != e2:
            c['outcome'] = 'nondeterministic'
    except BareScriptParserError:
        c['outcome'] = 'BareScriptParserError'
    except Exception as exc:  # pylint: disable=broad-except
        c['outcome'] = type(exc).__name__
    return c


def pair_cases(seed):
    """statelessness: two expressions that differ only by blanks INSIDE a string literal or a bracketed name, parsed one
    after the other (and the first one again): each tree must be the one its own text denotes"""
    rnd = random.Random(seed)
    out = []
    base = rand_flat(rnd, rnd.choice([2, 3]))
    if base['k'] == 'chain':
        base = {'k': 'grp', 'e': base}

    def widen(f):
        k = f['k']
        if k == 'str':
            return {'k': 'str', 'v': [c for ch in f['v'] for c in ([32, 32] if ch == 32 else [ch])]}
        if k == 'var' and ' ' in f['v']:
            return {'k': 'var', 'v': f['v'].replace(' ', '  ')}
        if k == 'chain':
            return {'k': 'chain', 'operands': [widen(o) for o in f['operands']], 'ops': f['ops']}
        if k in ('grp', 'un'):
            return dict(f, e=widen(f['e']))
        if k == 'call':
            return dict(f, args=[widen(a) for a in f['args']])
        return f
    a = {'k': 'chain', 'operands': [base, {'k': 'str', 'v': A.cps('a b')}, {'k': 'var', 'v': 'with space'}], 'ops': ['+', '&&']}
    b = widen(a)
    for f in (a, b, a):
        out.append(parse_case('flat', f, flat_text(f, 0)))
    return out


def canaries(case):
    out = []
    if case['kind'] == 'flat' and case['outcome'] == 'ok':
        c = json.loads(json.dumps(case))

        def rot(t):
            # rotate the first binary node with a binary right child (changes associativity / precedence)
            if t['k'] == 'bin':
                if t['r']['k'] == 'bin':
                    r = t['r']
                    return {'k': 'bin', 'op': r['op'], 'l': {'k': 'bin', 'op': t['op'], 'l': t['l'], 'r': r['l']}, 'r': r['r']}, True
                if t['l']['k'] == 'bin':
                    l = t['l']
                    return {'k': 'bin', 'op': l['op'], 'l': l['l'], 'r': {'k': 'bin', 'op': t['op'], 'l': l['r'], 'r': t['r']}}, True
            return t, False
        t, ok = rot(c['parsed'])
        if ok:
            c['parsed'] = t
            out.append(c)
    if case['kind'] == 'tokens':
        c = json.loads(json.dumps(case))
        c['outcome'] = 'ok' if case['outcome'] != 'ok' else 'BareScriptParserError'
        out.append(c)
    return out


def run(ctx, replay=None):
    rnd = random.Random(ctx.seed)
    if replay is not None:
        rc = replay['case']
        c = parse_case(rc['kind'], rc['flat'] if rc['kind'] == 'flat' else rc['tokens'], rc['text'])
        F.judge(ctx, 'Trace_Expr', [c], None, key_fields=('text',))
        return F.finish(ctx, rule='replay')
    k_mc = ctx.pick(4, 5)
    r = tlc.check_model('MC_ExprSyntax', MC_CFG % k_mc, ctx.work, tag='exprsyn', timeout=3400)
    ctx.mc_runs.append({'module': 'MC_ExprSyntax', 'K': k_mc, 'states': r['states'], 'ok': r['ok']})
    ctx.add_stats(r)
    if not r['ok']:
        ctx.violation('design-level: MC_ExprSyntax violated', {'property': ctx.pid, 'mc': 'MC_ExprSyntax', 'out': r['out'][-3000:]})
    jobs = []
    kmax = ctx.pick(3, 4)
    nchains = 0
    for k in range(1, kmax + 1):
        for ops in itertools.product(OPS, repeat=k):
            nchains += 1
            if k == 4 and ctx.quick:
                continue
            forms = range(5) if k <= 2 or not ctx.quick else [0, 1 + (nchains % 4)]
            for fi in forms:
                operands = [operand_forms(i)[fi if (i + fi) % 2 == 0 or fi == 0 else 0] for i in range(k + 1)]
                flat = {'k': 'chain', 'operands': operands, 'ops': list(ops)}
                for layout in (0, 1):
                    jobs.append(('flat', flat, flat_text(flat, layout)))
    nexh = len(jobs)
    if ctx.quick:
        for _ in range(1500):
            ops = [rnd.choice(OPS) for _ in range(rnd.choice([4, 5, 6]))]
            flat = {'k': 'chain', 'operands': [var(f'a{i}') for i in range(len(ops) + 1)], 'ops': ops}
            jobs.append(('flat', flat, flat_text(flat, 0)))
    else:
        for _ in range(60000):
            ops = [rnd.choice(OPS) for _ in range(rnd.choice([5, 6, 7, 9]))]
            flat = {'k': 'chain', 'operands': [var(f'a{i}') for i in range(len(ops) + 1)], 'ops': ops}
            jobs.append(('flat', flat, flat_text(flat, 0)))
    for _ in range(ctx.pick(3000, 100000)):
        flat = rand_flat(rnd, rnd.choice([2, 3, 4, 6, 8]))
        jobs.append(('flat', flat, flat_text(flat, rnd.choice([0, 1, 2]), rnd)))
    for _ in range(ctx.pick(4000, 100000)):
        toks = rand_tokens(rnd)
        jobs.append(('tokens', toks, tokens_text(toks, rnd)))
    # a name glued to a number is two operands without an operator, whatever surrounds them ("1e5", "2 * 3e2 + 1", "ff(1e3, x)")
    T = lambda t, x: {'t': t, 'text': x}      # noqa: E731
    for n in ('1', '2.5', '10', '3'):
        for nm in ('e5', 'e2', 'E3', 'e', 'x'):
            core = [T('num', n), T('var', nm)]
            for pre, post in (([], []), ([T('num', '2'), T('op', '*')], [T('op', '+'), T('num', '1')]), ([T('var', 'ff'), T('lp', '(')], [T('comma', ','), T('var', 'xx'), T('rp', ')')]),
                              ([T('lp', '(')], [T('rp', ')')]), ([T('minus', '-')], [])):
                toks = pre + core + post
                text = ' '.join(t['text'] for t in pre) + (' ' if pre else '') + n + nm + (' ' if post else '') + ' '.join(t['text'] for t in post)
                jobs.append(('tokens', toks, text))
    cases = F.pmap(parse_case, jobs)
    for cs in F.pmap(pair_cases, [(ctx.seed * 11 + i,) for i in range(ctx.pick(400, 8000))]):
        cases += cs
    F.judge(ctx, 'Trace_Expr', cases, canaries, key_fields=('text',),
            describe=lambda c: {'kind': c['kind'], 'text': c['text'][:200], 'outcome': c['outcome']},
            nontrivial=lambda c: True)
    acc = sum(1 for c in cases if c['kind'] == 'tokens' and c['outcome'] == 'ok')
    rej = sum(1 for c in cases if c['kind'] == 'tokens' and c['outcome'] != 'ok')
    if not acc or not rej:
        ctx.vacuous('vacuity: token strings all accepted or all rejected')
    ctx.notes.update({'chains_enumerated': nchains, 'exhaustive_chain_cases': nexh, 'token_strings_accepted': acc, 'token_strings_rejected': rej})
    return F.finish(ctx, rule='all operator chains up to length %d x operand forms x 2 layouts, longer sampled chains, random flat '
                    'expressions to depth 8 and random token strings; the real tree must equal Denote(flat) computed by TLC, '
                    'acceptance must agree with the token grammar' % kmax, exhaustive=True)
