"""C16 worker: runs in a subprocess with TZ set BEFORE the interpreter touches time; prints cases as JSON.
usage: python -m harness.tzworker <TZ> <seed> <count>"""
import datetime
import json
import os
import random
import sys
import time


def zone_table(tzname):
    """transitions 1900-2100 of the process zone, whole-minute offsets only: [[fromD, fromMs, offMinutes]...] on the UTC time line"""
    import zoneinfo
    z = zoneinfo.ZoneInfo(tzname)
    utc = datetime.timezone.utc

    def off(t):
        return t.astimezone(z).utcoffset()
    t = datetime.datetime(1900, 1, 1, tzinfo=utc)
    end = datetime.datetime(2101, 1, 1, tzinfo=utc)
    rules = [(None, off(t))]
    step = datetime.timedelta(days=7)
    while t < end:
        n = min(t + step, end)
        if off(n) != off(t):
            lo, hi = t, n
            while hi - lo > datetime.timedelta(seconds=1):
                mid = lo + (hi - lo) / 2
                mid = mid.replace(microsecond=0)
                if mid <= lo:
                    break
                if off(mid) == off(lo):
                    lo = mid
                else:
                    hi = mid
            rules.append((hi, off(hi)))
            # a second change inside the same week is rare; rescan from hi
            t = hi
            continue
        t = n
    out = []
    first_whole = None
    for when, o in rules:
        secs = o.total_seconds()
        whole = secs % 60 == 0
        if when is None:
            d, ms = 0, 0
        else:
            d = when.toordinal() - 1
            ms = ((when.hour * 60 + when.minute) * 60 + when.second) * 1000
        out.append({'fromD': d, 'fromMs': ms, 'off': int(secs // 60), 'whole': whole, 'year': when.year if when else 0})
    return out


def main():
    tz, seed, count = sys.argv[1], int(sys.argv[2]), int(sys.argv[3])
    os.environ['TZ'] = tz
    time.tzset()
    from . import abstraction as A
    from bare_script.library import SCRIPT_FUNCTIONS as SF
    from bare_script import evaluate_expression
    from bare_script.value import ValueArgsError
    rnd = random.Random(seed)
    table = zone_table(tz)
    # the property's domain: whole-minute offsets; use the table from the first rule after which all are whole
    last_bad = max([i for i, r in enumerate(table) if not r['whole']] + [-1])
    zone = [{'fromD': r['fromD'], 'fromMs': r['fromMs'], 'off': r['off']} for r in table[last_bad + 1:]]
    zone[0]['fromD'], zone[0]['fromMs'] = 0, 0
    min_year = max(1921, table[last_bad + 1]['year'] + 1) if last_bad + 1 < len(table) else 1921
    cases = []

    def call(name, args):
        try:
            return SF[name](args, None)
        except ValueArgsError as exc:
            return exc.return_value
        except Exception:  # pylint: disable=broad-except
            return None           # what the runtime's call wrapper turns a failure into

    # ---- datetimeNew + getters
    years = [100, 1900, 2000, 2023, 2024, 2100, 9000, 99, 9999, 1]
    for i in range(count):
        r = rnd.random()
        if r < 0.5:
            a = [rnd.choice(years), rnd.randint(-30, 40), rnd.choice([-10000, -366, -31, -1, 0, 1, 28, 29, 30, 31, 32, 59, 60, 366, 10000, 10001, rnd.randint(-400, 400)]),
                 rnd.choice([0, 0, -1, 23, 24, 25, -5000, 5000, rnd.randint(-50, 50)]), rnd.choice([0, 0, -1, 59, 60, 61, -5000, 5000, rnd.randint(-100, 100)]),
                 rnd.choice([0, 0, -1, 59, 60, 61, -5000, 5000, rnd.randint(-100, 100)]), rnd.choice([0, 0, -1, 999, 1000, 1001, -5000, 5000, rnd.randint(-2000, 2000)])]
        else:
            a = [rnd.randint(100, 9000), rnd.randint(-30, 40), rnd.randint(-10000, 10000), rnd.randint(-5000, 5000), rnd.randint(-5000, 5000),
                 rnd.randint(-5000, 5000), rnd.randint(-5000, 5000)]
        args = [float(x) for x in a] if i % 2 else list(a)
        res = call('datetimeNew', list(args))
        getters = []
        if isinstance(res, datetime.datetime):
            for g in ('datetimeYear', 'datetimeMonth', 'datetimeDay', 'datetimeHour', 'datetimeMinute', 'datetimeSecond', 'datetimeMillisecond'):
                getters.append(A.aval(call(g, [res])))
        else:
            getters = [{'t': 'null'}] * 7
        cases.append({'kind': 'new', 'args': a, 'res': A.aval(res), 'getters': getters})

    def rand_dt(lo=None, hi=2099):
        lo = lo or min_year
        y = rnd.randint(lo, hi)
        try:
            return datetime.datetime(y, rnd.randint(1, 12), rnd.randint(1, 28), rnd.randint(0, 23), rnd.randint(0, 59), rnd.randint(0, 59),
                                     rnd.choice([0, 1000, 999000, rnd.randint(0, 999) * 1000]))
        except ValueError:
            return datetime.datetime(2000, 1, 1)

    # ---- d + n - d
    for _ in range(count // 2):
        d = rand_dt(100, 9000) if rnd.random() < 0.5 else rand_dt()
        n = rnd.choice([0, 1, -1, 999, 1000, 86400000, -86400000, 10 ** 12, -10 ** 12, rnd.randint(-10 ** 12, 10 ** 12), rnd.randint(-10 ** 6, 10 ** 6)])
        g = {'d': d, 'n': float(n) if rnd.random() < 0.5 else n}
        s = evaluate_expression({'binary': {'op': '+', 'left': {'variable': 'd'}, 'right': {'variable': 'n'}}}, {'globals': g})
        diff = None
        if isinstance(s, datetime.datetime):
            diff = evaluate_expression({'binary': {'op': '-', 'left': {'variable': 's'}, 'right': {'variable': 'd'}}}, {'globals': {'s': s, 'd': d}})
        nd, nms = divmod(n, 86400000)
        cases.append({'kind': 'addsub', 'd': A.adt(d), 'n': A.anum(n), 'nd': nd, 'nms': nms, 'sum': A.aval(s), 'diff': A.aval(diff) if diff is not None else A.anum(n)})

    # ---- ISO format / parse around every transition and at random
    utc = datetime.timezone.utc
    locs = []
    for r in zone[1:]:
        base = datetime.datetime.fromordinal(r['fromD'] + 1) + datetime.timedelta(milliseconds=r['fromMs'])
        if base.year < min_year or base.year > 2099:
            continue
        for prev_off in (zone[zone.index(r) - 1]['off'], r['off']):
            for mins in (-181, -61, -60, -31, -30, -1, 0, 1, 29, 30, 31, 59, 60, 61, 121, 181):
                locs.append(base + datetime.timedelta(minutes=prev_off + mins, milliseconds=rnd.choice([0, 0, 1, 999, 500])))
    rnd.shuffle(locs)
    locs = locs[:count] + [rand_dt() for _ in range(count // 2)]
    for d in locs:
        text = call('datetimeISOFormat', [d])
        back = call('datetimeISOParse', [text]) if isinstance(text, str) else None
        cases.append({'kind': 'iso', 'd': A.adt(d), 'text': A.cps(text) if isinstance(text, str) else [], 'back': A.aval(back)})

    # ---- ISO texts (valid and near-misses)
    texts = ['2024-02-29', '2023-02-29', '2024-02-30', '2024-13-01', '2024-00-10', '2024-1-01', '24-01-01', '2024-01-01T00:00:00Z', '2024-01-01T24:00:00Z',
             '2024-01-01T23:59:60Z', '2024-06-15T12:30:45.123Z', '2024-06-15T12:30:45.123456+05:30', '2024-06-15T12:30:45.1234567Z', '2024-06-15T12:30:45-08:00',
             '2024-06-15T12:30:45', '2024-06-15 12:30:45Z', '2024-06-15T12:30Z', '2024-06-15T12:30:45.Z', '2024-06-15T12:30:45+0530', '2024-06-15T12:30:45+24:00',
             '', 'today', '2024-06-15T12:30:45z', ' 2024-06-15', '2024-06-15\n', '2024-03-10T02:30:00-05:00', '2024-11-03T01:30:00-04:00', '9999-12-31', '0001-01-01',
             '2024-02-29T23:59:59.999+14:00', '2024-02-29T00:00:00.000-12:00', '2024-06-31', '2100-02-29', '2000-02-29']
    for _ in range(count // 2):
        y, mo, dd = rnd.randint(min_year, 2099), rnd.randint(0, 13), rnd.randint(0, 32)
        t = f'{y:04d}-{mo:02d}-{dd:02d}'
        if rnd.random() < 0.7:
            t += f'T{rnd.randint(0, 24):02d}:{rnd.randint(0, 60):02d}:{rnd.randint(0, 60):02d}'
            if rnd.random() < 0.5:
                t += '.' + ''.join(str(rnd.randint(0, 9)) for _ in range(rnd.randint(1, 7)))
            t += rnd.choice(['Z', '+00:00', '-05:00', '+05:30', '+05:45', '+12:45', '-09:30', '', 'z', '+5:30'])
        texts.append(t)
    # far years with milliseconds (the conversion to local time must not lose a millisecond): only where the zone table is the
    # whole truth - no transition after 1990 and the same offset in the far future; far past only for zones without any transition
    import zoneinfo
    zi = zoneinfo.ZoneInfo(tz)
    last_year = max([r['year'] for r in table] + [0])
    far = lambda y: int(datetime.datetime(y, 6, 1, tzinfo=datetime.timezone.utc).astimezone(zi).utcoffset().total_seconds() // 60)   # noqa: E731
    if last_year < 1990 and all(far(y) == zone[-1]['off'] for y in (2150, 2500, 5000, 9000)):
        spans = [(2300, 9000)] + ([(100, 1700)] if len(table) == 1 else [])
        for _ in range(count // 3):
            lo, hi = rnd.choice(spans)
            t = (f'{rnd.randint(lo, hi):04d}-{rnd.randint(1, 12):02d}-{rnd.randint(1, 28):02d}T{rnd.randint(0, 23):02d}:{rnd.randint(0, 59):02d}:'
                 f'{rnd.randint(0, 59):02d}.{rnd.randint(1, 999):03d}' + rnd.choice(['Z', '+00:00', '-05:00', '+05:30', '+12:45']))
            texts.append(t)
    for t in texts:
        try:
            back = A.aval(SF['datetimeISOParse']([t], None))
        except ValueArgsError as exc:
            back = A.aval(exc.return_value)
        except Exception:  # pylint: disable=broad-except
            back = {'t': 'null'}            # the runtime's call wrapper turns the failure into null
        cases.append({'kind': 'isotext', 'text': A.cps(t), 'back': back})

    base = {'kind': '', 'args': [], 'res': {'t': 'null'}, 'getters': [], 'd': {'t': 'dt', 'd': 0, 'ms': 0}, 'n': {'t': 'null'}, 'nd': 0, 'nms': 0,
            'sum': {'t': 'null'}, 'diff': {'t': 'null'}, 'text': [], 'back': {'t': 'null'}}
    out = []
    for c in cases:
        x = dict(base)
        x.update(c)
        x['zone'] = zone
        x['tz'] = tz
        out.append(x)
    json.dump(out, sys.stdout)


if __name__ == '__main__':
    main()
