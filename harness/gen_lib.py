"""Histories of library calls on a pool of aliased containers (C15) and twin int/float calls (C12)."""
from . import gen_jump as J
from . import abstraction as A

ARR = ['a1', 'a2', 'a3']
OBJ = ['o1', 'o2']
STRS = ['s1', 's2']
POOL = ARR + OBJ + STRS
OTHER = ['d1', 'r1', 'f1', 'n1']


def lit_num(rnd, lo=-2, hi=6):
    n = rnd.randint(lo, hi)
    if rnd.random() < 0.12:
        return J.num(2 * n + 1, 2) if n >= 0 else {'k': 'un', 'op': '-', 'e': J.num(-2 * n + 1, 2)}
    return J.num(n) if n >= 0 else {'k': 'un', 'op': '-', 'e': J.num(-n)}


def scalar_value(rnd):
    """values that are STORED into containers: never a container variable (no cycles, bounded nesting)"""
    r = rnd.random()
    if r < 0.07:
        # values that Python confuses and BareScript does not (true / 1, false / 0, "1"), and integral numbers held as host
        # ints (stringLength / arrayLength results) next to the float literals
        return rnd.choice([J.var('true'), J.var('false'), J.num(1), J.num(0), J.s('1'), J.call('stringLength', J.s('a')),
                           J.call('arrayLength', J.call('arrayNew')), J.call('stringLength', J.s('ab'))])
    if r < 0.35:
        return lit_num(rnd)
    if r < 0.6:
        return J.s(rnd.choice(['', 'a', 'lo', 'k', 'hello', 'L', ' x ', 'a,b']))
    if r < 0.8:
        return J.var(rnd.choice(STRS))
    if r < 0.9:
        return J.var(rnd.choice(['null', 'true', 'false']))
    return J.var(rnd.choice(OTHER))


def any_value(rnd):
    r = rnd.random()
    if r < 0.25:
        return lit_num(rnd)
    if r < 0.45:
        return J.s(rnd.choice(['', 'a', 'lo', 'k', 'hello', 'L', ' x ', 'a,b']))
    if r < 0.75:
        return J.var(rnd.choice(POOL))
    if r < 0.85:
        return J.var(rnd.choice(['null', 'true', 'false']))
    return J.var(rnd.choice(OTHER))


def arg_for(kind, rnd):
    """mostly well-typed, sometimes wrong-typed"""
    if rnd.random() < 0.12:
        return scalar_value(rnd) if rnd.random() < 0.7 else any_value(rnd)
    if kind == 'array':
        return J.var(rnd.choice(ARR))
    if kind == 'object':
        return J.var(rnd.choice(OBJ))
    if kind == 'string':
        return J.var(rnd.choice(STRS)) if rnd.random() < 0.5 else J.s(rnd.choice(['', 'a', 'l', 'lo', 'k', 'kk', 'hello', ',', ' ']))
    if kind == 'index':
        return lit_num(rnd)
    if kind == 'key':
        return J.s(rnd.choice(['k', 'kk', 'z', '', 'n', 'n']))
    if kind == 'needle':
        return scalar_value(rnd) if rnd.random() < 0.8 else any_value(rnd)
    return any_value(rnd)


SIGS = {
    'arrayCopy': ['array'], 'arrayDelete': ['array', 'index'], 'arrayExtend': ['array', 'array'], 'arrayGet': ['array', 'index'],
    'arrayIndexOf': ['array', 'needle', '?index'], 'arrayJoin': ['array', 'string'], 'arrayLastIndexOf': ['array', 'needle', '?index'],
    'arrayLength': ['array'], 'arrayNew': ['*scalar'], 'arrayNewSize': ['?index', '?scalar'], 'arrayPop': ['array'],
    'arrayPush': ['array', '*scalar'], 'arraySet': ['array', 'index', 'scalar'], 'arrayShift': ['array'],
    'arraySlice': ['array', '?index', '?index'], 'arraySort': ['array'],
    'objectAssign': ['object', 'object'], 'objectCopy': ['object'], 'objectDelete': ['object', 'key'],
    'objectGet': ['object', 'key', '?any'], 'objectHas': ['object', 'key'], 'objectKeys': ['object'],
    'objectNew': ['*kv'], 'objectSet': ['object', 'key', 'arrayorscalar'],
    'stringCharCodeAt': ['string', 'index'], 'stringEndsWith': ['string', 'string'], 'stringFromCharCode': ['*code'],
    'stringIndexOf': ['string', 'string', '?index'], 'stringLastIndexOf': ['string', 'string', '?index'], 'stringLength': ['string'],
    'stringLower': ['string'], 'stringNew': ['any'], 'stringRepeat': ['string', 'index'], 'stringReplace': ['string', 'string', 'string'],
    'stringSlice': ['string', 'index', '?index'], 'stringSplit': ['string', 'string'], 'stringStartsWith': ['string', 'string'],
    'stringTrim': ['string'], 'stringUpper': ['string'], 'systemIs': ['any', 'any'], 'systemType': ['any'], 'systemCompare': ['any', 'any'],
}


def call_for(name, rnd):
    args = []
    for k in SIGS[name]:
        if k.startswith('?'):
            if rnd.random() < 0.4:
                break
            k = k[1:]
        if k == '*any':
            args.extend(any_value(rnd) for _ in range(rnd.randint(0, 3)))
        elif k == '*scalar':
            args.extend(scalar_value(rnd) for _ in range(rnd.randint(0, 3)))
        elif k == 'scalar':
            args.append(scalar_value(rnd))
        elif k == 'arrayorscalar':
            args.append(J.var(rnd.choice(ARR)) if rnd.random() < 0.3 else scalar_value(rnd))
        elif k == '*kv':
            for _ in range(rnd.randint(0, 3)):
                args.append(arg_for('key', rnd))
                if rnd.random() < 0.9:
                    args.append(J.var(rnd.choice(ARR)) if rnd.random() < 0.2 else scalar_value(rnd))
        elif k == '*code':
            args.extend(J.num(rnd.choice([65, 97, 48, 8364, 128512, 0])) if rnd.random() < 0.9 else any_value(rnd) for _ in range(rnd.randint(0, 3)))
        else:
            args.append(arg_for(k, rnd))
    r = rnd.random()
    if r < 0.04 and args:
        args.pop()                       # missing argument
    elif r < 0.08:
        args.append(scalar_value(rnd))   # surplus argument
    return J.call(name, *args)


BOUNDARY = [-1, 0, 1, 2, 3, 4, 5, 6, (3, 2)]         # around the lengths of a1 (3) and s1 (5); 1.5 is not an index


def boundary_calls():
    """every function with index / count parameters x ALL combinations of boundary values (optional ones also absent),
    the other parameters canonical: deterministic boundary coverage, one call per history"""
    canon = {'array': J.var('a1'), 'string': J.var('s1'), 'object': J.var('o1'), 'key': J.s('k'), 'needle': J.num(2), 'scalar': J.num(7),
             'any': J.s('l'), 'arrayorscalar': J.num(7)}

    def lit(v):
        if isinstance(v, tuple):
            return J.num(*v)
        return J.num(v) if v >= 0 else {'k': 'un', 'op': '-', 'e': J.num(-v)}
    out = []
    for name in sorted(SIGS):
        kinds = SIGS[name]
        if not any(k.lstrip('?') == 'index' for k in kinds) or any(k.startswith('*') for k in kinds):
            continue
        second_string = 0

        def expand(i, args):
            nonlocal second_string
            if i == len(kinds):
                out.append((name, J.call(name, *args)))
                return
            k = kinds[i]
            opt = k.startswith('?')
            k = k.lstrip('?')
            if opt:
                out.append((name, J.call(name, *args)))          # optional parameter (and everything after it) absent
            if k == 'index':
                for v in BOUNDARY:
                    expand(i + 1, args + [lit(v)])
                for wrong in (J.var('true'), J.var('false'), J.var('null'), J.s('1')):      # not numbers: the call fails
                    if all(a.get('k') != 'var' or a.get('v') in ('a1', 's1', 'o1') for a in args):
                        expand(i + 1, args + [wrong])
            elif k == 'string' and any(a.get('v') == 's1' for a in args if a.get('k') == 'var'):
                expand(i + 1, args + [J.s('l')])                 # a search / separator string occurring twice in "hello"
            else:
                expand(i + 1, args + [canon.get(k, J.num(1))])
        expand(0, [])
    # one surplus argument for every function (documented failure value), and the alias forms of the two-container mutators
    for name in sorted(SIGS):
        kinds = [k.lstrip('?') for k in SIGS[name] if not k.startswith('*')]
        if any(k.startswith('*') for k in SIGS[name]):
            continue
        args = [canon.get(k, J.num(1)) if k != 'index' else J.num(1) for k in kinds]
        out.append((name, J.call(name, *(args + [J.num(9)]))))
        out.append((name, J.call(name, *(args + [J.var('null')]))))
    for name in ('arrayExtend', 'objectAssign'):
        for a, b in (('a1', 'a1'), ('a1', 'a2'), ('a2', 'a1'), ('a1', 'a3')) if name == 'arrayExtend' else (('o1', 'o1'), ('o1', 'o2')):
            out.append((name, J.call(name, J.var(a), J.var(b))))
    # de-duplicate (optional-absent variants are emitted once per prefix)
    seen, res = set(), []
    for name, e in out:
        key = A.expr_text(e)
        if key not in seen:
            seen.add(key)
            res.append((name, e))
    return res


def snapshot():
    return {'k': 'expr', 'name': '', 'e': J.call('probe', J.num(0), J.var('x'), *[J.var(v) for v in POOL])}


def history(rnd, length, names=None, first=None):
    focus = names
    names = names or sorted(SIGS)
    st = [
        {'k': 'expr', 'name': 'a1', 'e': J.call('arrayNew', J.num(1), J.num(2), J.num(3))},
        {'k': 'expr', 'name': 'a2', 'e': J.var('a1')},                                     # alias
        {'k': 'expr', 'name': 'a3', 'e': J.call('arrayCopy', J.var('a1'))},              # copy
        {'k': 'expr', 'name': 'o1', 'e': J.call('objectNew', J.s('k'), J.var('a1'), J.s('z'), J.num(0), J.s('n'), J.var('null'))},   # 'n': present, null
        {'k': 'expr', 'name': 'o2', 'e': J.var('o1')},
        {'k': 'expr', 'name': 's1', 'e': J.s('hello')},
        {'k': 'expr', 'name': 's2', 'e': J.s('')},
        {'k': 'expr', 'name': 'x', 'e': J.var('null')},
        snapshot(),
    ]
    if rnd.random() < (0.75 if focus and set(focus) <= {'arrayIndexOf', 'arrayLastIndexOf', 'arraySort', 'systemCompare', 'systemIs'} else 0.3):
        # an array of confusable values to search / sort / slice
        st[0] = {'k': 'expr', 'name': 'a1', 'e': J.call('arrayNew', *rnd.sample(
            [J.var('true'), J.num(1), J.var('false'), J.num(0), J.s('1'), J.var('null'), J.call('stringLength', J.s('a')), J.num(2), J.s('')], 5))}
    if first is not None:
        st.append({'k': 'expr', 'name': 'x', 'e': first})
        st.append(snapshot())
    for _ in range(length):
        if rnd.random() < 0.12:
            # freshness probe: the result of a call is mutated, the same call is made again - it must not see the mutation
            name = rnd.choice([n for n in ('stringSplit', 'arrayCopy', 'arraySlice', 'objectKeys', 'arrayNew', 'arrayNewSize') if n in names] or [names[0]])
            e = call_for(name, rnd)
            st.append({'k': 'expr', 'name': 'a3', 'e': e})
            st.append(snapshot())
            st.append({'k': 'expr', 'name': 'x', 'e': J.call('arrayPush', J.var('a3'), J.num(99))})
            st.append(snapshot())
            st.append({'k': 'expr', 'name': 'x', 'e': e})
            st.append(snapshot())
            continue
        name = rnd.choice(names)
        grows = name in ('stringRepeat', 'arrayExtend', 'stringReplace', 'arrayNewSize', 'objectAssign')
        tgt = 'x' if (grows or rnd.random() < 0.7) else rnd.choice(
            ARR if name.startswith('array') or name in ('objectKeys', 'stringSplit') else OBJ if name.startswith('object') else STRS)
        st.append({'k': 'expr', 'name': tgt, 'e': call_for(name, rnd)})
        st.append(snapshot())
    return st


def pool_globals():
    return [{'name': 'd1', 'val': {'t': 'dt', 'd': 738885, 'ms': 3600000}}, {'name': 'r1', 'val': {'t': 'regex'}},
            {'name': 'f1', 'val': {'t': 'fn', 'f': 'lib', 'name': 'arrayLength'}},
            {'name': 'n1', 'val': {'t': 'num', 'f': 'q', 'n': 7, 'd': 2}}]
