"""Random jump-level models (abstract form) for C08 / C09 / C05 / C18: statement lists over
{log, assign, jump, conditional jump, label (few names, duplicates allowed), return, functions}."""
from . import abstraction as A

VARS = ['a', 'b', 'c']
LABELS = ['L1', 'L2', 'L3']
OPS = ['+', '-', '*', '<', '<=', '==', '!=', '&&', '||', '>', '>=', '/', '%', '**']


def num(n, d=1):
    while d > 1 and n % 2 == 0:
        n //= 2
        d //= 2
    return {'k': 'num', 'v': {'t': 'num', 'f': 'q', 'n': n, 'd': d}}


def s(text):
    return {'k': 'str', 'v': A.cps(text)}


def var(n):
    return {'k': 'var', 'v': n}


def call(name, *args):
    return {'k': 'call', 'name': name, 'args': list(args), 'noargs': False}


def rexpr(rnd, d=0, fnames=('ff',), ops=OPS, leafs=None):
    r = rnd.random()
    if d > 2 or r < 0.3:
        c = rnd.random()
        if c < 0.35:
            return num(rnd.randint(0, 3))
        if c < 0.4:
            return num(rnd.choice([1, 3, 5]), rnd.choice([2, 4]))
        if c < 0.8:
            return var(rnd.choice(VARS + ['null', 'true', 'false']))
        if c < 0.9:
            return s(rnd.choice(['', 'x', 'ab']))
        return call(rnd.choice(['objectNew', 'arrayNew']))          # empty containers: {} is truthy, [] is falsy
    if r < 0.48:
        return call('probe', num(rnd.randint(0, 9)), rexpr(rnd, d + 1, fnames, ops))
    if r < 0.56:
        return {'k': 'un', 'op': rnd.choice('!-'), 'e': rexpr(rnd, d + 1, fnames, ops)}
    if r < 0.64 and fnames:
        return call(rnd.choice(fnames), *[rexpr(rnd, d + 1, fnames, ops) for _ in range(rnd.randint(0, 3))])
    if r < 0.70:
        c = rnd.random()
        if c < 0.3:
            return call('arrayNew', *[rexpr(rnd, d + 1, fnames, ops) for _ in range(rnd.randint(0, 2))])
        if c < 0.5:
            return call('arrayLength', rexpr(rnd, d + 1, fnames, ops))
        if c < 0.7:
            return call('arrayPush', var(rnd.choice(VARS)), rexpr(rnd, d + 1, fnames, ops))
        if c < 0.85:
            return call('arrayGet', var(rnd.choice(VARS)), num(rnd.randint(0, 2)))
        return call('if', rexpr(rnd, d + 1, fnames, ops), rexpr(rnd, d + 1, fnames, ops), rexpr(rnd, d + 1, fnames, ops))
    if r < 0.73:
        return {'k': 'grp', 'e': rexpr(rnd, d + 1, fnames, ops)}
    return {'k': 'bin', 'op': rnd.choice(ops), 'l': rexpr(rnd, d + 1, fnames, ops), 'r': rexpr(rnd, d + 1, fnames, ops)}


def rstmt(rnd, infn=False, fnames=('ff',), ops=OPS):
    r = rnd.random()
    if r < 0.33:
        return {'k': 'expr', 'name': rnd.choice(VARS), 'e': rexpr(rnd, 0, fnames, ops)}
    if r < 0.48:
        return {'k': 'expr', 'name': '', 'e': rexpr(rnd, 0, fnames, ops)}
    if r < 0.63:
        return {'k': 'jump', 'label': rnd.choice(LABELS), 'hasE': True, 'e': rexpr(rnd, 0, fnames, ops)}
    if r < 0.68:
        return {'k': 'jump', 'label': rnd.choice(LABELS), 'hasE': False, 'e': A.NULLVAR}
    if r < 0.86:
        return {'k': 'label', 'v': rnd.choice(LABELS)}
    if r < 0.91:
        return {'k': 'return', 'hasE': True, 'e': rexpr(rnd, 0, fnames, ops)}
    if r < 0.93:
        return {'k': 'return', 'hasE': False, 'e': A.NULLVAR}
    if infn:
        if rnd.random() < 0.3:
            # a function statement inside a function body (only hand-built models have one): it binds the GLOBAL name all the same
            return {'k': 'function', 'name': rnd.choice(['gg', 'hh']), 'args': [], 'last': False,
                    'body': [{'k': 'return', 'hasE': True, 'e': num(rnd.randint(20, 29))}]}
        return {'k': 'label', 'v': 'L1'}
    nargs = rnd.randint(0, 3)
    args = rnd.sample(['a', 'p', 'q'], nargs)
    defn = [f for f in fnames if f not in ('probe', 'hostFail')] or ['ff']
    return {'k': 'function', 'name': rnd.choice(defn), 'args': args,
            'last': bool(args) and rnd.random() < 0.25,
            'body': [rstmt(rnd, True, fnames, ops) for _ in range(rnd.randint(1, 6))]}


def rmodel(rnd, maxlen=14, fnames=('ff', 'gg'), ops=OPS):
    return [rstmt(rnd, False, fnames, ops) for _ in range(rnd.randint(1, maxlen))]


def default_globals(rnd=None):
    g = [{'name': 'a', 'val': {'t': 'num', 'f': 'q', 'n': 1, 'd': 1}},
         {'name': 'b', 'val': {'t': 'null'}}]
    if rnd is not None and rnd.random() < 0.5:
        g.append({'name': 'c', 'val': rnd.choice([
            {'t': 'array', 'v': [{'t': 'num', 'f': 'q', 'n': 2, 'd': 1}, {'t': 'str', 'v': A.cps('s')}]},
            {'t': 'str', 'v': A.cps('hi')}, {'t': 'bool', 'v': True},
            {'t': 'object', 'v': [{'key': A.cps('k'), 'val': {'t': 'num', 'f': 'q', 'n': 7, 'd': 1}}]}])})
    return g
