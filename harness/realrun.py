"""Run the REAL bare_script code on a case and record what a host can observe (alpha side).

One event per host-visible linearization point, in program order:
  probe   host function probe(id, v...) - args, statementCount at the call
  log     options['logFn'] line (systemLog)
  dbgfail debug-mode report of a failed function call
  fetch   options['fetchFn'] request URL
and a finish record (status, named argument, result, statementCount, final globals, model unchanged)."""
import copy
import os
import re
import signal
import sys

from . import abstraction as A

REPO = os.environ.get('VERIF_REPO', '/repo')
SRC = os.path.join(REPO, 'src')
if SRC not in sys.path:
    sys.path.insert(0, SRC)
os.environ.setdefault('TZ', 'UTC')
import time as _time  # noqa: E402
_time.tzset()

import bare_script  # noqa: E402
from bare_script import (BareScriptParserError, BareScriptRuntimeError, evaluate_expression,  # noqa: E402
                         execute_script)
from bare_script.library import SCRIPT_FUNCTIONS  # noqa: E402

if not os.path.abspath(bare_script.__file__).startswith(os.path.abspath(SRC)):
    sys.stderr.write(f'harness: bare_script imported from {bare_script.__file__}, expected under {SRC}\n')
    sys.exit(2)


class HostTimeout(Exception):
    pass


def _alarm(_sig, _frm):
    raise HostTimeout()


_RE_DBGFAIL = re.compile(r'^BareScript: Function "([^"]*)" failed')
_RE_LIMIT = re.compile(r'^Exceeded maximum script statements')
_RE_LABEL = re.compile(r'^Unknown jump label "(.*)"$', re.S)
_RE_UNDEF = re.compile(r'^Undefined function "(.*)"$', re.S)
_RE_INCLUDE = re.compile(r'^Include of "(.*)" failed$', re.S)
_RE_INCLUDED_FROM = re.compile(r'^Included from "(.*)"\n', re.S)
_IDENT = re.compile(r'^[A-Za-z_]\w*$')

HOST_NAMES = ('probe', 'hostFail')


def collect_names(stmts, acc):
    """identifiers (and identifier-like string literals) of an abstract model"""
    def ex(e):
        k = e['k']
        if k == 'var':
            acc.add(e['v'])
        elif k == 'str':
            s = A.uncps(e['v'])
            if _IDENT.match(s):
                acc.add(s)
        elif k in ('grp', 'un'):
            ex(e['e'])
        elif k == 'bin':
            ex(e['l'])
            ex(e['r'])
        elif k == 'call':
            acc.add(e['name'])
            for a in e['args']:
                ex(a)
    for s in stmts:
        k = s['k']
        if k == 'expr':
            if s['name']:
                acc.add(s['name'])
            ex(s['e'])
        elif k in ('jump', 'return'):
            if s['hasE']:
                ex(s['e'])
        elif k == 'function':
            acc.add(s['name'])
            acc.update(s['args'])
            collect_names(s['body'], acc)
    return acc


def classify_exception(exc):
    """-> (status, arg, url)"""
    if isinstance(exc, BareScriptRuntimeError):
        msg = str(exc)
        if _RE_LIMIT.match(msg):
            return 'limit', '', []
        m = _RE_LABEL.match(msg)
        if m:
            return 'label', m.group(1), []
        m = _RE_UNDEF.match(msg)
        if m:
            return 'undefined', m.group(1), []
        m = _RE_INCLUDE.match(msg)
        if m:
            return 'include', '', A.cps(m.group(1))
        return 'runtime-other:' + msg[:60], '', []
    if isinstance(exc, BareScriptParserError):
        m = _RE_INCLUDED_FROM.match(str(exc))
        return 'parse', '', A.cps(m.group(1)) if m else []
    if isinstance(exc, HostTimeout):
        return 'host:HostTimeout', '', []
    return 'host:' + type(exc).__name__, '', []


def observe(case, run_seconds=20, twice=False):
    """observe once; with twice=True execute the SAME model object a second time with fresh equal
    globals and record whether everything observable was identical (C08 repeatability)"""
    real = case.get('real_model')
    if real is None and case['kind'] == 'script':
        real = A.gmodel(case['model'])
        pre = case.pop('pre_model', None)
        if pre is not None:
            # the host ran ANOTHER program held in the very same model object before (and edited the object in place since):
            # nothing of that earlier run may survive - the observed run is a run of the model as it is now
            old = A.gmodel(pre)
            try:
                execute_script(old, {'globals': {'probe': lambda args, options: args[-1] if args else None, 'a': 0, 'b': None},
                                     'maxStatements': 300})
            except Exception:  # pylint: disable=broad-except
                pass
            old['statements'][:] = real['statements']
            real = old
        case['real_model'] = real
    first = _observe(case, run_seconds)
    if twice:
        c2 = copy.deepcopy({k: v for k, v in first.items() if k not in ('trace', 'fin')})
        c2['real_model'] = real
        second = _observe(c2, run_seconds)
        first['fin']['rerunEqual'] = second['trace'] == first['trace'] and second['fin'] == first['fin']
    return first


def _observe(case, run_seconds=20):
    """case: dict with kind ('script'|'expr'), model (abstract) or expr, globals [{name,val}], limit, dbg,
    bi, inc (abstract include context incl. vfs with 'text' / 'model'), real_model (optional real dict
    to execute instead of gamma(model)).  Fills in trace / fin / names / reserved and returns the case."""
    trace = []
    opts = {}

    def probe(args, options):
        trace.append({'ev': 'probe', 'args': [A.aval(a) for a in args], 'cnt': options.get('statementCount', 0)})
        return args[1] if len(args) > 1 else None

    fails = [0]

    def host_fail(args, options):
        # host functions fail in many ways: with and without a message, with a non-string argument
        fails[0] += 1
        raise (ValueError('host failure'), NotImplementedError(), KeyError('k'), AssertionError(), ZeroDivisionError('x'), OSError(5, 'io'))[fails[0] % 6]

    def log_fn(text):
        m = _RE_DBGFAIL.match(text)
        if m:
            trace.append({'ev': 'dbgfail', 'name': m.group(1)})
        elif text.startswith('BareScript: '):
            pass        # other debug chatter (static analysis of includes) is not specified
        else:
            trace.append({'ev': 'log', 'text': A.cps(text)})

    host = {'probe': probe, 'hostFail': host_fail}

    def real_value(v):
        if v.get('t') == 'fn':
            return host[v['name']] if v.get('f') == 'host' else SCRIPT_FUNCTIONS[v['name']]
        return A.gval(v, as_float=case.get('floats', True))
    g = {}
    for gv in case['globals']:
        g[gv['name']] = real_value(gv['val'])
    for name, v in (case.get('raw_globals') or {}).items():
        g[name] = v
    g0 = g
    opts['globals'] = g
    opts['logFn'] = log_fn
    if case.get('dbg'):
        opts['debug'] = True
    if case['limit'] or case.get('pass_limit'):
        opts['maxStatements'] = case['limit']
    else:
        opts['maxStatements'] = 0
    inc = case.get('inc') or {}
    if inc.get('hasFetch'):
        vfs = {A.uncps(f['url']): f for f in inc['vfs']}

        def fetch_fn(req):
            url = req['url']
            trace.append({'ev': 'fetch', 'url': A.cps(url)})
            f = vfs.get(url)
            if f is None or f['kind'] == 'missing':
                return None
            if f['kind'] == 'throws':
                raise OSError('fetch failed')
            return f['text']
        opts['fetchFn'] = fetch_fn
    if inc.get('hasSys'):
        opts['systemPrefix'] = A.uncps(inc['sys'])
    if inc.get('hasBase'):
        import functools
        from bare_script.options import url_file_relative
        opts['urlFn'] = functools.partial(url_file_relative, A.uncps(inc['base']))

    names = set(x['name'] for x in case['globals'])
    if case['kind'] == 'script':
        real = case.get('real_model')
        if real is None:
            real = A.gmodel(case['model'])
        before = copy.deepcopy(real)
        collect_names(case['model'], names)
        for f in inc.get('vfs', []) or []:
            if f.get('model'):
                collect_names(f['model'], names)
    else:
        real = A.gexpr(case['expr'])
        before = copy.deepcopy(real)
        collect_names([{'k': 'expr', 'name': '', 'e': case['expr']}], names)

    if case.get('prerun') and case['kind'] == 'script':
        # the host re-uses ONE options object for consecutive runs: execute_script resets the counter at entry
        try:
            execute_script(copy.deepcopy(real), opts)
        except Exception:  # pylint: disable=broad-except
            pass
        trace.clear()
        for gv in case['globals']:
            g[gv['name']] = real_value(gv['val'])
        for name in [n for n in g if n not in {x['name'] for x in case['globals']} and not (n in SCRIPT_FUNCTIONS and g[n] is SCRIPT_FUNCTIONS[n])]:
            del g[name]
    status, arg, url, ret = 'done', '', [], {'t': 'null'}
    old = signal.signal(signal.SIGALRM, _alarm)
    signal.alarm(run_seconds)
    try:
        try:
            if case['kind'] == 'script':
                r = execute_script(real, opts)
            else:
                lcl = None
                if case.get('hasLocals'):
                    lcl = {x['name']: real_value(x['val']) for x in case.get('locals', [])}
                r = evaluate_expression(real, opts, lcl, case.get('bi', True))
            ret = A.aval(r)
            if ret['t'] == 'alien' or _has_alien(ret):
                status = 'host:alien-value:' + str(type(r).__name__)
        except BaseException as exc:  # pylint: disable=broad-except
            if isinstance(exc, (KeyboardInterrupt, SystemExit)):
                raise
            status, arg, url = classify_exception(exc)
    finally:
        signal.alarm(0)
        signal.signal(signal.SIGALRM, old)

    fg = {}
    for name, v in g0.items():
        if name.startswith('__bareScript'):
            continue
        if name in SCRIPT_FUNCTIONS and v is SCRIPT_FUNCTIONS[name]:
            continue
        if name in host and v is host[name]:
            continue
        fg[name] = A.aval(v)
        names.add(name)
    case['trace'] = trace
    case['fin'] = {'status': status, 'arg': arg, 'url': url, 'ret': ret,
                   'cnt': opts.get('statementCount', 0), 'globals': fg,
                   'modelUnchanged': real == before and opts.get('globals') is g0, 'rerunEqual': True}
    case['names'] = {n: A.cps(n) for n in sorted(names)}
    case['reserved'] = sorted(n for n in names if n.startswith('__bareScript')) + \
        [n for n in HOST_NAMES if any(x['name'] == n for x in case['globals'])]
    case.setdefault('dbg', False)
    case.setdefault('bi', True)
    case.setdefault('off', 0)
    case.setdefault('containOnly', False)
    case.setdefault('hasLocals', False)
    case.setdefault('locals', [])
    case.setdefault('checkGlobals', case['kind'] == 'script')
    case.setdefault('expr', A.NULLVAR)
    case.setdefault('model', [])
    if not case.get('inc'):
        case['inc'] = {'vfs': [], 'sys': [], 'hasSys': False, 'base': [], 'hasBase': False, 'hasFetch': False}
    case.pop('real_model', None)
    return case


def _has_alien(a):
    if a['t'] == 'alien':
        return True
    if a['t'] == 'array':
        return any(_has_alien(x) for x in a['v'])
    if a['t'] == 'object':
        return any(_has_alien(p['val']) for p in a['v'])
    return False


def host_global(name):
    return {'name': name, 'val': {'t': 'fn', 'f': 'host', 'name': name}}
