"""Driver for TLC: model-checking runs (leg A / generation) and sharded batch trace validation (leg C)."""
import json
import os
import re
import shutil
import subprocess
import sys
import time
from concurrent.futures import ThreadPoolExecutor

VERIF = os.path.dirname(os.path.dirname(os.path.abspath(__file__)))
SPEC_DIR = os.path.join(VERIF, 'spec')
TLA_CP = '/opt/veriftools/tla/tla2tools.jar:/opt/veriftools/tla/CommunityModules-deps.jar'
NCPU = min(16, os.cpu_count() or 4)


class MachineryError(Exception):
    """TLC crashed / timed out / printed no verdict: exit 2, never a VIOLATION"""


def _java_cmd(module, cfg_path, metadir, workers=1, extra=(), xss='512m', heap='3g'):
    return ['java', '-XX:+UseParallelGC', f'-Xss{xss}', f'-Xmx{heap}', '-cp', TLA_CP, 'tlc2.TLC',
            '-workers', str(workers), '-metadir', metadir, '-noGenerateSpecTE', '-config', cfg_path,
            *extra, module + '.tla']


_STATS = re.compile(r'(\d+) states generated, (\d+) distinct states found')


def parse_stats(out):
    m = None
    for m in _STATS.finditer(out):
        pass
    if m is None:
        return 0, 0
    return int(m.group(2)), int(m.group(1))      # distinct states, generated (transitions incl. initial)


def _balanced_chunks(out, start_marker):
    """yield the complete text of every printed tuple that starts with <<"marker", (may span lines)"""
    pos = 0
    n = len(out)
    rx = re.compile(r'<<\s*"%s",' % re.escape(start_marker))
    while True:
        m0 = rx.search(out, pos)
        if m0 is None:
            return
        i = m0.start()
        depth = 0
        j = i
        in_str = False
        while j < n:
            c = out[j]
            if in_str:
                if c == '\\':
                    j += 1
                elif c == '"':
                    in_str = False
            elif c == '"':
                in_str = True
            elif out.startswith('<<', j):
                depth += 1
                j += 1
            elif out.startswith('>>', j):
                depth -= 1
                j += 1
                if depth == 0:
                    break
            j += 1
        yield out[i:j + 1]
        pos = j + 1


_VHEAD = re.compile(r'<<\s*"V",\s*(\d+),\s*"(ACCEPT|SKIP|REJECT)"(.*)>>\s*$', re.S)


def parse_verdicts(out):
    res = {}
    for chunk in _balanced_chunks(out, 'V'):
        m = _VHEAD.match(chunk)
        if not m:
            continue
        tid = int(m.group(1))
        res.setdefault(tid, []).append((m.group(2), re.sub(r'\s+', ' ', m.group(3)).strip(' ,')))
    return res


def _die_with_parent():
    """a TLC child must not outlive a check that is killed (PR_SET_PDEATHSIG = 1, SIGKILL)"""
    try:
        import ctypes
        import signal
        ctypes.CDLL('libc.so.6', use_errno=True).prctl(1, signal.SIGKILL)
    except Exception:  # pylint: disable=broad-except
        pass


def run_tlc(module, cfg_text, workdir, env=None, workers=1, timeout=3600, extra=(), tag='mc', heap='3g'):
    """one TLC run in SPEC_DIR; returns (stdout, returncode, seconds)"""
    os.makedirs(workdir, exist_ok=True)
    cfg_path = os.path.join(workdir, f'{module}_{tag}.cfg')
    with open(cfg_path, 'w') as fh:
        fh.write(cfg_text)
    metadir = os.path.join(workdir, f'meta_{tag}')
    shutil.rmtree(metadir, ignore_errors=True)
    e = dict(os.environ)
    e.pop('JAVA_TOOL_OPTIONS', None)
    if env:
        e.update(env)
    t0 = time.time()
    try:
        p = subprocess.run(_java_cmd(module, cfg_path, metadir, workers, extra, heap=heap), cwd=SPEC_DIR, env=e,
                           stdout=subprocess.PIPE, stderr=subprocess.STDOUT, text=True, timeout=timeout, preexec_fn=_die_with_parent)
    except subprocess.TimeoutExpired as exc:
        raise MachineryError(f'TLC timed out after {timeout}s on {module} ({tag})') from exc
    finally:
        shutil.rmtree(metadir, ignore_errors=True)
    return p.stdout, p.returncode, time.time() - t0


def check_model(module, cfg_text, workdir, env=None, workers=NCPU, timeout=3600, extra=(), tag='mc', heap='8g'):
    """leg A: exhaustive model checking; returns dict(ok, out, states, transitions, seconds)"""
    out, rc, secs = run_tlc(module, cfg_text, workdir, env, workers, timeout, extra, tag, heap)
    states, gen = parse_stats(out)
    ok = rc == 0 and 'Model checking completed. No error has been found.' in out
    violated = 'is violated' in out or 'Error: Invariant' in out or 'Error: Action property' in out \
        or 'Temporal properties were violated' in out
    if not ok and not violated:
        with open(os.path.join(workdir, f'{module}_{tag}.out'), 'w') as fh:
            fh.write(out)
        raise MachineryError(f'TLC failed on {module} ({tag}) rc={rc}: ' + _first_error(out))
    return {'ok': ok, 'out': out, 'states': states, 'transitions': gen, 'seconds': secs}


def _first_error(out):
    i = out.find('Error:')
    return out[i:i + 1500] if i >= 0 else out[-1500:]


def _nonull(x):
    """TLC's JSON reader has no null: a None that slips into a case (a field only documentation reads) becomes ''"""
    if x is None:
        return ''
    if isinstance(x, list):
        return [_nonull(y) for y in x]
    if isinstance(x, dict):
        return {k: _nonull(v) for k, v in x.items()}
    return x


def validate_traces(module, cases, workdir, cfg_consts='', invariants=(), shards=NCPU, timeout=3600, tag='tr',
                    spec='Spec'):
    """leg C: validate a batch of independent traces; returns (verdicts, stats)
    verdicts[i] = (verdict, detail) for cases[i]; raises MachineryError if any trace has no verdict"""
    os.makedirs(workdir, exist_ok=True)
    n = len(cases)
    if n == 0:
        return [], {'states': 0, 'transitions': 0, 'seconds': 0.0}
    shards = max(1, min(shards, (n + 19) // 20))
    parts = [list(range(k, n, shards)) for k in range(shards)]
    cfg = f'SPECIFICATION {spec}\nCHECK_DEADLOCK FALSE\n' + cfg_consts + \
        ''.join(f'INVARIANT {i}\n' for i in invariants)

    def one(k):
        path = os.path.join(workdir, f'cases_{tag}_{k}.json')
        with open(path, 'w') as fh:
            json.dump(_nonull([cases[i] for i in parts[k]]), fh, separators=(',', ':'))
        out, rc, secs = run_tlc(module, cfg, workdir, {'CASES': path}, 1, timeout, (), f'{tag}{k}')
        return k, out, rc, secs

    t0 = time.time()
    with ThreadPoolExecutor(max_workers=shards) as ex:
        results = list(ex.map(one, range(shards)))
    verdicts = [None] * n
    states = trans = 0
    for k, out, rc, secs in results:
        vs = parse_verdicts(out)
        s, g = parse_stats(out)
        states += s
        trans += g
        bad = rc != 0 or re.search(r'^Error:', out, re.M) is not None
        for local, gi in enumerate(parts[k], start=1):
            got = vs.get(local)
            if not got or len(got) != 1:
                with open(os.path.join(workdir, f'{module}_{tag}{k}.out'), 'w') as fh:
                    fh.write(out)
                raise MachineryError(f'{module}: trace {gi} (shard {k}, tid {local}) has {len(got or [])} verdicts; '
                                     + _first_error(out))
            verdicts[gi] = got[0]
        if bad:
            with open(os.path.join(workdir, f'{module}_{tag}{k}.out'), 'w') as fh:
                fh.write(out)
            raise MachineryError(f'{module}: TLC reported an error in shard {k}: ' + _first_error(out))
    return verdicts, {'states': states, 'transitions': trans, 'seconds': time.time() - t0}


def printed_json(out, marker):
    """values printed with PrintT(<<marker, ToJson(x)>>): returns the decoded JSON values"""
    res = []
    for chunk in _balanced_chunks(out, marker):
        m = re.match(r'<<\s*"%s",\s*(".*")\s*>>\s*$' % re.escape(marker), chunk, re.S)
        if m:
            res.append(json.loads(json.loads(m.group(1))))
    return res
