"""Common check framework: work dirs, verdict handling, canaries, known findings, evidence, exit codes.

exit 0  the property held on everything explored (KNOWN-FINDING lines allowed)
exit 1  VIOLATION property=<id> replay=<path>
exit 2  machinery failure (TLC crash, missing verdict, canary not rejected) - never a VIOLATION"""
import copy
import hashlib
import json
import os
import shutil
import sys
import time

from . import tlc

VERIF = tlc.VERIF
WORK = os.environ.get('VERIF_WORKDIR') or os.path.join(VERIF, '.work')      # scratch (per check id); override for parallel development runs
REPLAYS = os.environ.get('VERIF_REPLAY_DIR') or os.path.join(VERIF, 'replays')
EVIDENCE = os.environ.get('VERIF_EVIDENCE_DIR') or os.path.join(VERIF, 'evidence')   # override: runs against a patched tree (bin/try_seed)
KNOWN = os.path.join(VERIF, 'KNOWN_FINDINGS.txt')


class Ctx:
    def __init__(self, pid, tier, seed):
        self.pid = pid
        self.tier = tier
        self.seed = seed
        self.quick = tier == 'quick'
        self.work = os.path.join(WORK, pid)
        shutil.rmtree(self.work, ignore_errors=True)
        os.makedirs(self.work, exist_ok=True)
        self.t0 = time.time()
        self.states = 0
        self.transitions = 0
        self.traces = 0
        self.evaluations = 0
        self.skips = 0
        self.violations = []        # (what, replay_path)
        self.known_hits = {}        # finding id -> count
        self.samples = []
        self.notes = {}
        self.distinct = set()
        self.mc_runs = []
        self.assumptions = []

    def pick(self, quick, thorough):
        return quick if self.quick else thorough

    def add_stats(self, st):
        self.states += st.get('states', 0)
        self.transitions += st.get('transitions', 0)

    def sample(self, x, limit=4):
        if len(self.samples) < limit:
            self.samples.append(x)

    def vacuous(self, msg):
        """a vacuity guard of the sample: machinery failure (exit 2) - unless violations were found, which are reported first
        (a changed tree may well make a class of outcomes disappear; that is the violation's business, not a broken check)"""
        if self.violations:
            self.notes.setdefault('vacuity_notes', []).append(msg)
            return
        raise tlc.MachineryError(msg)

    def violation(self, what, replay_obj):
        os.makedirs(os.path.join(REPLAYS, self.pid), exist_ok=True)
        blob = json.dumps(replay_obj, sort_keys=True)
        h = hashlib.sha1(blob.encode()).hexdigest()[:12]
        path = os.path.join(REPLAYS, self.pid, f'{h}.json')
        with open(path, 'w') as fh:
            fh.write(blob)
        self.violations.append((what, path))
        return path


def _star(fa):
    f, a = fa
    return f(*a)


def pmap(func, arglist, procs=12, chunk=32):
    """run func(*args) for every args tuple in worker processes (real-code observation is CPU bound)"""
    arglist = list(arglist)
    if len(arglist) < 200:
        return [func(*a) for a in arglist]
    import multiprocessing
    with multiprocessing.get_context('fork').Pool(procs) as pool:
        return pool.map(_star, [(func, a) for a in arglist], chunksize=chunk)


def load_known(pid):
    """open findings for this property: list of dict(finding, deviation, what)"""
    res = []
    if not os.path.exists(KNOWN):
        return res
    for line in open(KNOWN):
        line = line.strip()
        if not line.startswith('open:'):
            continue
        head, _, what = line.partition('::')
        fields = dict(f.split('=', 1) for f in head[5:].split() if '=' in f)
        if fields.get('property') == pid:
            fields['what'] = what.strip()
            res.append(fields)
    return res


def case_key(case, fields):
    return hashlib.sha1(json.dumps([case.get(f) for f in fields], sort_keys=True).encode()).hexdigest()


def judge(ctx, module, cases, canary_fn=None, cfg_consts='', invariants=(), tag='tr', describe=None,
          known_dev=None, nontrivial=None, key_fields=('model', 'expr', 'globals', 'limit'), timeout=3000):
    """Validate recorded real executions against `module`; append canaries (must be REJECTed);
    turn REJECTs into violations unless explained by an open known finding (re-validated with the
    finding's deviation switched on).  Returns the list of verdicts for `cases`."""
    n = len(cases)
    if n == 0:
        return []
    canaries = []
    if canary_fn is not None:
        step = max(1, n // 24)
        for i in range(0, n, step):
            for c in canary_fn(copy.deepcopy(cases[i])):
                canaries.append((i, c))
    batch = cases + [c for _, c in canaries]
    verdicts, st = tlc.validate_traces(module, batch, ctx.work, cfg_consts, invariants, tag=tag, timeout=timeout)
    ctx.add_stats(st)
    ctx.traces += n
    ctx.evaluations += n
    # binding self-test
    # (a corruption can land on something the law deliberately leaves open - an allowed set - so a single accepted
    # canary is recorded, not fatal; the binding is considered demonstrated when at least 4 in 5 are rejected)
    ncan = nbad = 0
    for (base, c), v in zip(canaries, verdicts[n:]):
        if verdicts[base][0] == 'ACCEPT':
            if v[0] == 'REJECT':
                ncan += 1
            else:
                nbad += 1
                path = os.path.join(ctx.work, f'canary_not_rejected_{tag}.json')
                json.dump(c, open(path, 'w'))
                print(f'note: {ctx.pid}: a corrupted trace was not rejected ({v[0]}) - see {path}', file=sys.stderr)
    if nbad and (ncan == 0 or nbad * 4 > ncan):
        raise tlc.MachineryError(f'{ctx.pid}: {nbad} of {ncan + nbad} corrupted traces were not rejected - see {ctx.work}/canary_not_rejected_{tag}.json')
    ctx.notes['canaries_rejected'] = ctx.notes.get('canaries_rejected', 0) + ncan
    ctx.notes['canaries_not_rejected'] = ctx.notes.get('canaries_not_rejected', 0) + nbad
    rejected = [i for i in range(n) if verdicts[i][0] == 'REJECT']
    explained = {}
    if rejected and known_dev:
        for kf in known_dev:
            todo = [i for i in rejected if i not in explained]
            if not todo:
                break
            v2, st2 = tlc.validate_traces(module, [cases[i] for i in todo], ctx.work,
                                          kf['cfg'], invariants, tag=tag + 'k', timeout=timeout)
            ctx.add_stats(st2)
            for i, v in zip(todo, v2):
                if v[0] == 'ACCEPT':
                    explained[i] = kf
    for i in range(n):
        v = verdicts[i]
        if v[0] == 'SKIP':
            ctx.skips += 1
        elif v[0] == 'ACCEPT':
            if 'contained-only' in v[1]:
                ctx.notes['accepted_for_containment_only'] = ctx.notes.get('accepted_for_containment_only', 0) + 1
            else:
                ctx.notes['accepted_with_full_comparison'] = ctx.notes.get('accepted_with_full_comparison', 0) + 1
            nt = nontrivial is None or nontrivial(cases[i])
            if nt:
                ctx.distinct.add(case_key(cases[i], key_fields))
            # samples: spread over the batch, non-trivial cases preferred
            if nt and (len(ctx.samples) < 2 or (i % max(1, n // 7) == 0)):
                ctx.sample(describe(cases[i]) if describe else cases[i], limit=6)
        elif i in explained:
            kf = explained[i]
            ctx.known_hits[kf['finding']] = ctx.known_hits.get(kf['finding'], 0) + 1
            ctx.notes.setdefault('known_' + kf['finding'], kf['what'])
        else:
            ctx.violation(v[1], {'property': ctx.pid, 'module': module, 'case': cases[i], 'verdict': list(v),
                                 'cfg_consts': cfg_consts})
    return verdicts[:n]


def finish(ctx, level='model_checking', rule='', extra=None, exhaustive=False):
    wall = time.time() - ctx.t0
    cov = {
        'states': max(ctx.states, 0), 'transitions': max(ctx.transitions, 0),
        'traces_validated_against_impl': ctx.traces,
        'evaluations': ctx.evaluations, 'distinct_nontrivial': len(ctx.distinct),
        'rule': rule, 'samples': ctx.samples[:4] or ['(none)'],
        'skipped_outside_exact_domain': ctx.skips,
        'exhaustive': exhaustive,
        'known_findings_matched': ctx.known_hits,
        'model_checking_runs': ctx.mc_runs,
    }
    cov.update(ctx.notes)
    if extra:
        cov.update(extra)
    ev = {'property_id': ctx.pid, 'tier': ctx.tier, 'seed': ctx.seed, 'level': level, 'coverage': cov,
          'assumptions': ctx.assumptions, 'wall_s': round(wall, 2), 'violations': len(ctx.violations)}
    evdir = EVIDENCE if not ctx.pid.startswith('X') else os.path.join(EVIDENCE, 'extra')     # X..: coverage beyond the listed properties
    os.makedirs(evdir, exist_ok=True)
    with open(os.path.join(evdir, f'{ctx.pid}.json'), 'w') as fh:
        json.dump(ev, fh, indent=1, default=str)
    for fid, cnt in sorted(ctx.known_hits.items()):
        print(f'KNOWN-FINDING: property={ctx.pid} {ctx.notes.get("known_" + fid, fid)} [{fid}, {cnt} traces]')
    seen = set()
    for what, path in ctx.violations[:25]:
        if path in seen:
            continue
        seen.add(path)
        print(f'VIOLATION property={ctx.pid} replay={path}')
        print(f'  {what[:400]}')
    print(f'{ctx.pid} {ctx.tier}: traces={ctx.traces} states={ctx.states} skips={ctx.skips} '
          f'violations={len(ctx.violations)} wall={wall:.1f}s')
    return 1 if ctx.violations else 0


def run_check(pid, fn):
    """entry point used by bin/check"""
    import argparse
    ap = argparse.ArgumentParser()
    ap.add_argument('--tier', default=os.environ.get('VERIF_TIER', 'quick'), choices=['quick', 'thorough'])
    ap.add_argument('--replay')
    args = ap.parse_args(sys.argv[2:])
    seed = int(os.environ.get('VERIF_SEED', '0') or 0)
    ctx = Ctx(pid, args.tier, seed)
    try:
        if args.replay:
            rc = fn(ctx, replay=json.load(open(args.replay)))
        else:
            rc = fn(ctx, replay=None)
    except tlc.MachineryError as exc:
        print(f'MACHINERY-FAILURE {pid}: {exc}', file=sys.stderr)
        sys.exit(2)
    except Exception as exc:  # pylint: disable=broad-except
        # an exception of the driver itself is a machinery failure (exit 2), never an alarm (exit 1 is reserved for VIOLATION lines)
        import traceback
        traceback.print_exc()
        print(f'MACHINERY-FAILURE {pid}: driver raised {type(exc).__name__}: {exc}', file=sys.stderr)
        sys.exit(2)
    sys.exit(rc)
