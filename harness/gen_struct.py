"""Random structured programs (abstract structured AST of spec/BareCore.tla) for C01 / C07 / C10 / C18:
grammar-generated to nesting depth 5 with up to 3 functions (recursion, functions as values)."""
from . import gen_jump as J

GVARS = ['ga', 'gb', 'gc', 'gd']


def cond(rnd, scope, depth):
    r = rnd.random()
    v = J.var(rnd.choice(scope))
    if r < 0.4:
        return J.call('probe', J.num(rnd.randint(100, 199)), v)
    if r < 0.6:
        return {'k': 'bin', 'op': rnd.choice(['<', '==', '!=', '>=']), 'l': v, 'r': J.num(rnd.randint(0, 3))}
    if r < 0.8:
        return {'k': 'bin', 'op': rnd.choice(['&&', '||']), 'l': J.call('probe', J.num(rnd.randint(100, 199)), v),
                'r': J.var(rnd.choice(scope))}
    return {'k': 'un', 'op': '!', 'e': v}


def grp(e):
    """operands that are binary expressions are written in parentheses, so that the generated tree IS the
    tree the text denotes whatever the operator precedences"""
    return {'k': 'grp', 'e': e} if e['k'] == 'bin' else e


def rexp(rnd, scope, fns, d=0):
    r = rnd.random()
    if d > 1 or r < 0.4:
        return rnd.choice([J.num(rnd.randint(0, 5)), J.var(rnd.choice(scope)), J.s(rnd.choice(['', 'a', 'bc']))])
    if r < 0.6:
        return {'k': 'bin', 'op': rnd.choice(['+', '-', '*', '<', '==']), 'l': grp(rexp(rnd, scope, fns, d + 1)), 'r': grp(rexp(rnd, scope, fns, d + 1))}
    if r < 0.75 and fns:
        return J.call(rnd.choice(fns), *[rexp(rnd, scope, fns, d + 1) for _ in range(rnd.randint(0, 2))])
    if r < 0.88:
        return J.call('probe', J.num(rnd.randint(200, 299)), rexp(rnd, scope, fns, d + 1))
    if r < 0.94:
        # the shared array changes while loops walk it: a for loop fixes the LENGTH once and reads the elements live
        return rnd.choice([J.call('arrayPush', J.var('garr'), J.num(rnd.randint(5, 9))), J.call('arrayPop', J.var('garr')),
                           J.call('arraySet', J.var('garr'), J.num(rnd.randint(0, 2)), J.num(rnd.randint(5, 9))),
                           J.call('arrayShift', J.var('garr'))])
    return J.call('arrayNew', *[rexp(rnd, scope, fns, d + 1) for _ in range(rnd.randint(0, 3))])


def block(rnd, scope, fns, depth, inloop, infn, ctr, may_be_empty=False):
    out = []
    if may_be_empty and rnd.random() < 0.1:
        return out          # an empty arm / loop body / else part
    for _ in range(rnd.randint(1, 3)):
        r = rnd.random()
        if depth <= 0 or r < 0.35:
            c = rnd.random()
            if c < 0.45:
                out.append({'k': 'assign', 'name': rnd.choice([v for v in scope if v[0] not in 'wekc'] or ['lv']), 'e': rexp(rnd, scope, fns)})
            elif c < 0.8:
                out.append({'k': 'expr', 'e': J.call('probe', J.num(rnd.randint(0, 99)), rexp(rnd, scope, fns))})
            elif c < 0.87 and inloop:
                out.append({'k': rnd.choice(['break', 'continue'])})
                if rnd.random() < 0.25:
                    out.append({'k': rnd.choice(['break', 'continue'])})      # an unreachable second one (still lowered)
                break
            elif c < 0.92 and infn:
                out.append({'k': 'return', 'hasE': True, 'e': rexp(rnd, scope, fns)})
                break
            else:
                out.append({'k': 'expr', 'e': {'k': 'grp', 'e': rexp(rnd, scope, fns)}})
        elif r < 0.6:
            arms = [{'cond': cond(rnd, scope, depth), 'body': block(rnd, scope, fns, depth - 1, inloop, infn, ctr, True)}
                    for _ in range(rnd.choice([1, 1, 2, 3]))]
            has_else = rnd.random() < 0.5
            out.append({'k': 'if', 'arms': arms, 'hasElse': has_else,
                        'els': block(rnd, scope, fns, depth - 1, inloop, infn, ctr, True) if has_else else []})
        elif r < 0.66:
            # while on a VALUE (any type), re-tested at the footer: runs twice when the value is truthy
            ctr[0] += 1
            iv, cv = f'w{ctr[0]}', f'c{ctr[0]}'
            out.append({'k': 'assign', 'name': iv, 'e': J.num(0)})
            out.append({'k': 'assign', 'name': cv, 'e': J.var(rnd.choice([v for v in scope if v[0] not in 'wekc'] or ['ga']))})
            body = [{'k': 'assign', 'name': iv, 'e': {'k': 'bin', 'op': '+', 'l': J.var(iv), 'r': J.num(1)}},
                    {'k': 'expr', 'e': J.call('probe', J.num(rnd.randint(600, 699)), J.var(iv))},
                    {'k': 'if', 'arms': [{'cond': {'k': 'bin', 'op': '>=', 'l': J.var(iv), 'r': J.num(2)},
                                          'body': [{'k': 'assign', 'name': cv, 'e': J.var('null')}]}], 'hasElse': False, 'els': []}] + \
                block(rnd, scope + [iv], fns, depth - 1, True, infn, ctr)
            out.append({'k': 'while', 'cond': J.var(cv), 'body': body})
        elif r < 0.8:
            ctr[0] += 1
            iv = f'w{ctr[0]}'
            out.append({'k': 'assign', 'name': iv, 'e': J.num(0)})
            body = [{'k': 'assign', 'name': iv, 'e': {'k': 'bin', 'op': '+', 'l': J.var(iv), 'r': J.num(1)}}] + \
                block(rnd, scope + [iv], fns, depth - 1, True, infn, ctr)
            c = {'k': 'bin', 'op': '<', 'l': J.var(iv), 'r': J.num(rnd.randint(1, 3))}
            if rnd.random() < 0.5:
                c = J.call('probe', J.num(rnd.randint(300, 399)), c)
            out.append({'k': 'while', 'cond': c, 'body': body})
        else:
            ctr[0] += 1
            vv, kv = f'e{ctr[0]}', f'k{ctr[0]}'
            withidx = rnd.random() < 0.5
            src = rnd.choice([J.var('garr'), J.call('arrayNew', *[J.num(rnd.randint(0, 4)) for _ in range(rnd.randint(0, 3))]),
                              J.var(rnd.choice(scope))])
            out.append({'k': 'for', 'var': vv, 'idx': kv if withidx else '', 'e': src,
                        'body': ([{'k': 'expr', 'e': J.call('probe', J.num(rnd.randint(400, 499)), J.var(vv))}] if rnd.random() < 0.9 else []) +
                        block(rnd, scope + [vv] + ([kv] if withidx else []), fns, depth - 1, True, infn, ctr, True)})
    return out


def rprogram(rnd, maxdepth=5):
    ctr = [0]
    nf = rnd.randint(0, 3)
    fns = [f'fn{i}' for i in range(nf)]
    prog = []
    if rnd.random() < 0.4:
        # control flow at global scope before the functions (the label counter is script-wide)
        prog += block(rnd, GVARS, [], rnd.randint(1, max(1, maxdepth - 1)), False, False, ctr)
    for i, f in enumerate(fns):
        # parameters may carry the name of a global: a MISSING argument is null, it does not fall through to the global
        args = [['pa'], ['pa', 'pb'], [], ['ga'], ['gb', 'pa'], ['pa', 'ga']][rnd.randrange(6)]
        callable_ = fns[:i + 1] if rnd.random() < 0.3 else fns[:i]      # occasional (guarded) recursion
        body = []
        if f in callable_:
            body.append({'k': 'if', 'arms': [{'cond': {'k': 'bin', 'op': '>', 'l': J.var('gdepth'), 'r': J.num(1)},
                                              'body': [{'k': 'return', 'hasE': True, 'e': J.num(0)}]}], 'hasElse': False, 'els': []})
            body.append({'k': 'assign', 'name': 'dummy', 'e': J.call('systemGlobalSet', J.s('gdepth'),
                                                                    {'k': 'bin', 'op': '+', 'l': J.var('gdepth'), 'r': J.num(1)})})
        body += block(rnd, args + GVARS[:2] + ['lv'], callable_, rnd.randint(1, max(1, maxdepth - 1)), False, True, ctr)
        prog.append({'k': 'function', 'name': f, 'args': args, 'last': False, 'body': body})
    prog += block(rnd, GVARS, fns, rnd.randint(1, maxdepth), False, False, ctr)
    if rnd.random() < 0.15:
        # a function defined inside a block at global scope, with its own loop
        inner = block(rnd, ['pa'] + GVARS[:2], [], 2, False, True, ctr)
        fdef = {'k': 'function', 'name': 'fnin', 'args': ['pa'], 'last': False, 'body': inner}
        wrap = rnd.choice(['if', 'for'])
        if wrap == 'if':
            prog.append({'k': 'if', 'arms': [{'cond': J.var('ga'), 'body': [fdef]}], 'hasElse': False, 'els': []})
        else:
            ctr[0] += 1
            prog.append({'k': 'for', 'var': f'e{ctr[0]}', 'idx': '', 'e': J.call('arrayNew', J.num(1), J.num(2)), 'body': [fdef]})
        prog.append({'k': 'expr', 'e': J.call('probe', J.num(501), J.call('fnin', J.num(2)))})
    if fns and rnd.random() < 0.25:
        # a function statement (re)binds the global of that name: a second definition replaces the first, also for a name that
        # already holds a value
        f = rnd.choice(fns + ['ga'])
        prog.append({'k': 'function', 'name': f, 'args': ['pa'], 'last': False,
                     'body': [{'k': 'expr', 'e': J.call('probe', J.num(502), J.var('pa'))}, {'k': 'return', 'hasE': True, 'e': J.num(rnd.randint(50, 59))}]})
        prog.append({'k': 'expr', 'e': J.call('probe', J.num(503), J.call(f, J.num(3)))})
    if fns and rnd.random() < 0.5:
        prog.append({'k': 'assign', 'name': 'fval', 'e': J.var(rnd.choice(fns))})
        prog.append({'k': 'expr', 'e': J.call('probe', J.num(500), J.call('fval', J.num(1)))})
    return prog
