import importlib
import sys

from . import framework


def main():
    if len(sys.argv) < 2:
        print('usage: check <ID> [--tier quick|thorough] [--replay PATH]', file=sys.stderr)
        sys.exit(2)
    pid = sys.argv[1].upper()
    try:
        mod = importlib.import_module(f'harness.props.{pid.lower()}')
    except ModuleNotFoundError:
        print(f'no check for {pid}', file=sys.stderr)
        sys.exit(2)
    framework.run_check(pid, mod.run)


if __name__ == '__main__':
    main()
