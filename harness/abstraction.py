"""alpha / gamma between real BareScript (Python) values, models, text and the abstract
JSON forms read by the TLA+ specification (see spec/BareValues.tla, spec/BareCore.tla).

Trusted, small, shared by every check.  No expected value is ever computed here."""
import datetime
import decimal
import math
import re
import sys
from fractions import Fraction

if hasattr(sys, 'set_int_max_str_digits'):
    sys.set_int_max_str_digits(0)

BOUND = 2 ** 30
MAXDEN = 1024
_REGEX_TYPE = type(re.compile(''))


def cps(s):
    return [ord(c) for c in s]


def uncps(c):
    return ''.join(chr(x) for x in c)


# ---------------------------------------------------------------- numbers
def anum(x):
    """one number type: int and float map to the same abstract number"""
    if isinstance(x, float):
        if math.isnan(x):
            return {'t': 'num', 'f': 'x', 'v': 'nan'}
        if math.isinf(x):
            return {'t': 'num', 'f': 'x', 'v': 'inf' if x > 0 else '-inf'}
        if x == 0:
            if math.copysign(1.0, x) < 0:
                return {'t': 'num', 'f': 'q', 'n': 0, 'd': 1, 'z': 'neg'}
            return {'t': 'num', 'f': 'q', 'n': 0, 'd': 1}
    if x == 0:
        return {'t': 'num', 'f': 'q', 'n': 0, 'd': 1}
    fr = Fraction(x)
    d = fr.denominator
    if d <= MAXDEN and (d & (d - 1)) == 0 and abs(fr.numerator) <= BOUND:
        return {'t': 'num', 'f': 'q', 'n': fr.numerator, 'd': d}
    # decimal form: s * 0.ds * 10^e
    if isinstance(x, int):
        text = str(x)
        big = abs(x) > 2 ** 53
    else:
        text = repr(x)
        big = False
    sign, digits, exp = decimal.Decimal(text).as_tuple()
    digits = list(digits)
    while digits and digits[-1] == 0:
        digits.pop()
        exp += 1
    while digits and digits[0] == 0:
        digits.pop(0)
    r = {'t': 'num', 'f': 'd', 's': -1 if sign else 1, 'ds': digits, 'e': len(digits) + exp}
    if big:
        r['big'] = True
    return r


def num_from_abs(a, as_float=True):
    """gamma for numbers (exact forms only)"""
    if a['f'] == 'q':
        if a['d'] == 1 and not as_float:
            return a['n']
        v = a['n'] / a['d']
        if a['n'] == 0 and a.get('z') == 'neg':
            return -0.0
        return float(v) if as_float else (int(v) if a['d'] == 1 else v)
    if a['f'] == 'd':
        text = ('-' if a['s'] < 0 else '') + '0.' + ''.join(map(str, a['ds'])) + 'e' + str(a['e'])
        return float(text)
    return float(a['v'])


# ---------------------------------------------------------------- values
def adt(v):
    if isinstance(v, datetime.datetime):
        if v.tzinfo is not None:
            v = v.astimezone().replace(tzinfo=None)
        d = v.toordinal() - 1
        ms = ((v.hour * 60 + v.minute) * 60 + v.second) * 1000 + v.microsecond // 1000
        r = {'t': 'dt', 'd': d, 'ms': ms}
        if v.microsecond % 1000:
            r['us'] = v.microsecond % 1000      # sub-millisecond residue (informational)
        return r
    return {'t': 'dt', 'd': v.toordinal() - 1, 'ms': 0}


def aval(v, _depth=0, _seen=None):
    """alpha: real value -> abstract tree value"""
    if v is None:
        return {'t': 'null'}
    if isinstance(v, bool):
        return {'t': 'bool', 'v': v}
    if isinstance(v, (int, float)):
        return anum(v)
    if isinstance(v, str):
        if len(v) > 200000:
            return {'t': 'huge'}       # far beyond what the specification computes (it leaves > 100 000 characters open)
        return {'t': 'str', 'v': cps(v)}
    if isinstance(v, datetime.date):
        return adt(v)
    if isinstance(v, (list, dict)):
        if len(v) > 20000:
            return {'t': 'huge'}       # the specification leaves containers beyond 10 000 elements open
        if _seen is None:
            _seen = set()
        if _depth >= 16:
            return {'t': 'deep'}
        _seen = _seen | {id(v)}
        if isinstance(v, list):
            return {'t': 'array', 'v': [aval(x, _depth + 1, _seen) for x in v]}
        if not all(isinstance(k, str) for k in v):
            return {'t': 'alien', 'py': 'non-string-key'}
        return {'t': 'object', 'v': [{'key': cps(k), 'val': aval(x, _depth + 1, _seen)} for k, x in v.items()]}
    if callable(v):
        return {'t': 'fn'}
    if isinstance(v, _REGEX_TYPE):
        return {'t': 'regex'}
    return {'t': 'alien', 'py': type(v).__name__}


def gval(a, as_float=True):
    """gamma: abstract tree value -> real value (fresh containers)"""
    t = a['t']
    if t == 'null':
        return None
    if t == 'bool':
        return a['v']
    if t == 'num':
        return num_from_abs(a, as_float)
    if t == 'str':
        return uncps(a['v'])
    if t == 'dt':
        return datetime.datetime.fromordinal(a['d'] + 1) + datetime.timedelta(milliseconds=a['ms'], microseconds=a.get('us', 0))
    if t == 'array':
        return [gval(x, as_float) for x in a['v']]
    if t == 'object':
        return {uncps(p['key']): gval(p['val'], as_float) for p in a['v']}
    if t == 'regex':
        return re.compile('x')
    raise ValueError(a)


# ---------------------------------------------------------------- models
NULLVAR = {'k': 'var', 'v': 'null'}


def aexpr(e):
    """real expression model -> abstract expression"""
    (k, v), = e.items()
    if k == 'number':
        return {'k': 'num', 'v': anum(v)}
    if k == 'string':
        return {'k': 'str', 'v': cps(v)}
    if k == 'variable':
        return {'k': 'var', 'v': v}
    if k == 'group':
        return {'k': 'grp', 'e': aexpr(v)}
    if k == 'unary':
        return {'k': 'un', 'op': v['op'], 'e': aexpr(v['expr'])}
    if k == 'binary':
        return {'k': 'bin', 'op': v['op'], 'l': aexpr(v['left']), 'r': aexpr(v['right'])}
    if k == 'function':
        return {'k': 'call', 'name': v['name'], 'args': [aexpr(a) for a in v.get('args', [])],
                'noargs': 'args' not in v}
    raise ValueError(e)


def astmt(s):
    (k, v), = s.items()
    if k == 'expr':
        return {'k': 'expr', 'name': v.get('name', ''), 'e': aexpr(v['expr'])}
    if k == 'jump':
        return {'k': 'jump', 'label': v['label'], 'hasE': 'expr' in v,
                'e': aexpr(v['expr']) if 'expr' in v else NULLVAR}
    if k == 'label':
        return {'k': 'label', 'v': v}
    if k == 'return':
        return {'k': 'return', 'hasE': 'expr' in v, 'e': aexpr(v['expr']) if 'expr' in v else NULLVAR}
    if k == 'function':
        return {'k': 'function', 'name': v['name'], 'args': list(v.get('args') or []),
                'last': bool(v.get('lastArgArray')), 'body': [astmt(x) for x in v['statements']]}
    if k == 'include':
        return {'k': 'include', 'incs': [{'url': cps(i['url']), 'system': bool(i.get('system'))} for i in v['includes']]}
    raise ValueError(s)


def amodel(script):
    return [astmt(s) for s in script['statements']]


def gexpr(a):
    """abstract expression -> real expression model (numbers as floats, as the parser produces)"""
    k = a['k']
    if k == 'num':
        return {'number': num_from_abs(a['v'])}
    if k == 'str':
        return {'string': uncps(a['v'])}
    if k == 'var':
        return {'variable': a['v']}
    if k == 'grp':
        return {'group': gexpr(a['e'])}
    if k == 'un':
        return {'unary': {'op': a['op'], 'expr': gexpr(a['e'])}}
    if k == 'bin':
        return {'binary': {'op': a['op'], 'left': gexpr(a['l']), 'right': gexpr(a['r'])}}
    if k == 'call':
        f = {'name': a['name']}
        if not a.get('noargs'):
            f['args'] = [gexpr(x) for x in a['args']]
        return {'function': f}
    raise ValueError(a)


def gstmt(a):
    k = a['k']
    if k == 'expr':
        e = {'expr': gexpr(a['e'])}
        if a['name']:
            e['name'] = a['name']
        return {'expr': e}
    if k == 'jump':
        j = {'label': a['label']}
        if a['hasE']:
            j['expr'] = gexpr(a['e'])
        return {'jump': j}
    if k == 'label':
        return {'label': a['v']}
    if k == 'return':
        return {'return': ({'expr': gexpr(a['e'])} if a['hasE'] else {})}
    if k == 'function':
        f = {'name': a['name'], 'statements': [gstmt(x) for x in a['body']]}
        if a['args']:
            f['args'] = list(a['args'])
        if a['last']:
            f['lastArgArray'] = True
        return {'function': f}
    if k == 'include':
        return {'include': {'includes': [dict({'url': uncps(i['url'])}, **({'system': True} if i['system'] else {}))
                                         for i in a['incs']]}}
    raise ValueError(a)


def gmodel(stmts):
    return {'statements': [gstmt(s) for s in stmts]}


# ---------------------------------------------------------------- text (pretty printer)
_PREC = {'**': 7, '*': 6, '/': 6, '%': 6, '+': 5, '-': 5, '<=': 4, '<': 4, '>=': 4, '>': 4,
         '==': 3, '!=': 3, '&&': 2, '||': 1}


def num_text(a):
    """source text of a non-negative exact number literal"""
    if a['f'] != 'q':
        return repr(num_from_abs(a))
    assert a['n'] >= 0, a
    if a['d'] == 1:
        return str(a['n'])
    return repr(a['n'] / a['d'])


def str_text(c):
    s = uncps(c)
    return "'" + s.replace('\\', '\\\\').replace("'", "\\'") + "'"


def expr_text(a):
    """abstract expression -> source text; the tree is rendered literally (groups are explicit
    'grp' nodes), so the caller must only render trees that are parser-shaped"""
    k = a['k']
    if k == 'num':
        return num_text(a['v'])
    if k == 'str':
        return str_text(a['v'])
    if k == 'var':
        v = a['v']
        if re.match(r'^[A-Za-z_]\w*$', v):
            return v
        return '[' + v.replace('\\', '\\\\').replace(']', '\\]') + ']'
    if k == 'grp':
        return '(' + expr_text(a['e']) + ')'
    if k == 'un':
        return a['op'] + expr_text(a['e'])
    if k == 'bin':
        return expr_text(a['l']) + ' ' + a['op'] + ' ' + expr_text(a['r'])
    if k == 'call':
        return a['name'] + '(' + ', '.join(expr_text(x) for x in a['args']) + ')'
    raise ValueError(a)


def jump_text(stmts, indent=''):
    """jump-level abstract model -> source lines"""
    out = []
    for s in stmts:
        k = s['k']
        if k == 'expr':
            out.append(indent + ((s['name'] + ' = ') if s['name'] else '') + expr_text(s['e']))
        elif k == 'jump':
            out.append(indent + (f"jumpif ({expr_text(s['e'])}) " if s['hasE'] else 'jump ') + s['label'])
        elif k == 'label':
            out.append(indent + s['v'] + ':')
        elif k == 'return':
            out.append(indent + 'return' + ((' ' + expr_text(s['e'])) if s['hasE'] else ''))
        elif k == 'function':
            args = ', '.join(s['args']) + ('...' if s['last'] else '')
            out.append(indent + f"function {s['name']}({args}):")
            out.extend(jump_text(s['body'], indent + '    '))
            out.append(indent + 'endfunction')
        elif k == 'include':
            for i in s['incs']:
                u = uncps(i['url'])
                out.append(indent + ('include <' + u + '>' if i['system'] else "include '" + u.replace("'", "\\'") + "'"))
        else:
            raise ValueError(s)
    return out


def struct_text(block, indent='', step='    '):
    """structured abstract program (spec/BareCore.tla, structured statements) -> source lines"""
    out = []
    for s in block:
        k = s['k']
        if k == 'assign':
            out.append(f"{indent}{s['name']} = {expr_text(s['e'])}")
        elif k == 'expr':
            out.append(indent + expr_text(s['e']))
        elif k == 'if':
            for i, arm in enumerate(s['arms']):
                out.append(f"{indent}{'if' if i == 0 else 'elif'} {expr_text(arm['cond'])}:")
                out.extend(struct_text(arm['body'], indent + step, step))
            if s['hasElse']:
                out.append(indent + 'else:')
                out.extend(struct_text(s['els'], indent + step, step))
            out.append(indent + 'endif')
        elif k == 'while':
            out.append(f"{indent}while {expr_text(s['cond'])}:")
            out.extend(struct_text(s['body'], indent + step, step))
            out.append(indent + 'endwhile')
        elif k == 'for':
            out.append(f"{indent}for {s['var']}{(', ' + s['idx']) if s['idx'] else ''} in {expr_text(s['e'])}:")
            out.extend(struct_text(s['body'], indent + step, step))
            out.append(indent + 'endfor')
        elif k == 'break':
            out.append(indent + 'break')
        elif k == 'continue':
            out.append(indent + 'continue')
        elif k == 'return':
            out.append(indent + 'return' + ((' ' + expr_text(s['e'])) if s['hasE'] else ''))
        elif k == 'function':
            args = ', '.join(s['args']) + ('...' if s['last'] else '')
            out.append(f"{indent}function {s['name']}({args}):")
            out.extend(struct_text(s['body'], indent + step, step))
            out.append(indent + 'endfunction')
        else:
            raise ValueError(s)
    return out
