---------------------------- MODULE BareDatetime ----------------------------
(* Proleptic Gregorian calendar arithmetic (reference layer for C16, used by BareText for
   the ISO text of datetimes).  A datetime is (days since 0001-01-01, millisecond of day)
   of the normalised NAIVE LOCAL value.  A zone is a sequence of rules
       [fromD, fromMs, off]   (UTC instant from which the whole-minute offset `off` applies,
                               expressed as days/ms of the UTC time line; sorted ascending)
   the first rule applies from the beginning of time.                                   *)
EXTENDS Integers, Sequences

MsPerDay == 86400000
IsLeap(y) == (y % 4 = 0 /\ y % 100 # 0) \/ y % 400 = 0
DaysInMonth(y, m) ==
    CASE m \in {1, 3, 5, 7, 8, 10, 12} -> 31
      [] m \in {4, 6, 9, 11} -> 30
      [] OTHER -> IF IsLeap(y) THEN 29 ELSE 28
CumDays == <<0, 31, 59, 90, 120, 151, 181, 212, 243, 273, 304, 334>>
DaysBeforeMonth(y, m) == CumDays[m] + (IF m > 2 /\ IsLeap(y) THEN 1 ELSE 0)
DaysBeforeYear(y) == (y - 1) * 365 + (y - 1) \div 4 - (y - 1) \div 100 + (y - 1) \div 400

\* 1 <= m <= 12, any integer d (day 1 = first of the month; d may be out of range: pure day arithmetic)
DaysFromCivil(y, m, d) == DaysBeforeYear(y) + DaysBeforeMonth(y, m) + d - 1

MinDay == 0                      \* 0001-01-01
MaxDay == DaysBeforeYear(10000) - 1   \* 9999-12-31

\* days >= 0  ->  [y, m, d]
CivilFromDays(n0) ==
    LET n400 == n0 \div 146097
        a == n0 % 146097
        n100 == IF a \div 36524 > 3 THEN 3 ELSE a \div 36524
        b == a - n100 * 36524
        n4 == b \div 1461
        c == b - n4 * 1461
        n1 == IF c \div 365 > 3 THEN 3 ELSE c \div 365
        doy == c - n1 * 365
        y == n400 * 400 + n100 * 100 + n4 * 4 + n1 + 1
        m == CHOOSE mm \in 1..12 : DaysBeforeMonth(y, mm) <= doy
                                   /\ (mm = 12 \/ DaysBeforeMonth(y, mm + 1) > doy)
    IN [y |-> y, m |-> m, d |-> doy - DaysBeforeMonth(y, m) + 1]

(* Normalise datetimeNew components by pure arithmetic (A31).
   Month is carried into the year first (month-1 div 12), then everything else is a number
   of days / milliseconds added to the first of that month.  Returns [ok, d, ms].
   ms-level quantities are kept small: h, mi, s, ms components are bounded by the callers. *)
Normalize(y, mo, d, h, mi, s, ms) ==
    LET mz == mo - 1
        yy == y + (mz \div 12)
        mm == (mz % 12) + 1
        \* total milliseconds relative to midnight, split to avoid 32-bit overflow
        secs == h * 3600 + mi * 60 + s            \* |secs| small by caller's bounds
        tms == (secs % 86400) * 1000 + ms         \* < 86 400 000 + |ms|
        dcarry == secs \div 86400 + tms \div MsPerDay
        msod == tms % MsPerDay
    \* only the RESULT has to lie in years 1..9999: an intermediate year outside (month 24 of 9999 with day -10000) is fine
    IN IF yy < -100 \/ yy > 10100 THEN [ok |-> FALSE, d |-> 0, ms |-> 0]
       ELSE LET days == DaysFromCivil(yy, mm, d) + dcarry IN
            IF days < MinDay \/ days > MaxDay THEN [ok |-> FALSE, d |-> 0, ms |-> 0]
            ELSE [ok |-> TRUE, d |-> days, ms |-> msod]

\* add a (possibly negative) number of milliseconds given as (dd days, mm ms) with 0 <= mm < MsPerDay
AddMs(d, ms, dd, mm) ==
    LET t == ms + mm IN [d |-> d + dd + t \div MsPerDay, ms |-> t % MsPerDay]

(***************************** zones *****************************)
\* lexicographic order on (d, ms)
Before(d1, m1, d2, m2) == d1 < d2 \/ (d1 = d2 /\ m1 < m2)
\* offset in force at UTC instant (d, ms)
RECURSIVE OffsetAtUTC(_, _, _, _)
OffsetAtUTC(zone, i, d, ms) ==
    IF i = Len(zone) THEN zone[i].off
    ELSE IF Before(d, ms, zone[i + 1].fromD, zone[i + 1].fromMs) THEN zone[i].off
    ELSE OffsetAtUTC(zone, i + 1, d, ms)
Shift(d, ms, minutes) == AddMs(d, ms, (minutes * 60000) \div MsPerDay, (minutes * 60000) % MsPerDay)
\* the set of offsets o such that local (d, ms) - o is a UTC instant at which o is in force
ValidOffsets(zone, d, ms) ==
    { o \in { zone[i].off : i \in 1..Len(zone) } :
        LET u == Shift(d, ms, -o) IN OffsetAtUTC(zone, 1, u.d, u.ms) = o }
Exists(zone, d, ms) == ValidOffsets(zone, d, ms) # {}
UTCZone == << [fromD |-> 0, fromMs |-> 0, off |-> 0] >>
=============================================================================
