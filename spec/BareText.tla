---------------------------- MODULE BareText ----------------------------
(* Value -> text (A24, A26): number formatting, compact JSON, ISO datetimes, ToText.
   Text is a sequence of code points.  Operators that cannot give a determined text
   (wildcard numbers, zeros of unknown sign, > 15 significant digits) return ok = FALSE;
   callers turn that into a SKIP, never into a verdict.                                  *)
EXTENDS BareValues, BareDatetime

S_null     == <<110, 117, 108, 108>>
S_true     == <<116, 114, 117, 101>>
S_false    == <<102, 97, 108, 115, 101>>
S_function == <<60, 102, 117, 110, 99, 116, 105, 111, 110, 62>>
S_regex    == <<60, 114, 101, 103, 101, 120, 62>>
cMinus == 45   cPlus == 43   cDot == 46   cZero == 48   cE == 101
cQuote == 34   cBackslash == 92   cComma == 44   cColon == 58
cLBracket == 91   cRBracket == 93   cLBrace == 123   cRBrace == 125   cT == 84   cU == 117

OK(s)  == [ok |-> TRUE, s |-> s]
NoText == [ok |-> FALSE, s |-> <<>>]

RECURSIVE NatDigits(_)
NatDigits(n) == IF n < 10 THEN <<n>> ELSE NatDigits(n \div 10) \o <<n % 10>>
DigitChars(ds) == [i \in 1..Len(ds) |-> cZero + ds[i]]
NatText(n) == DigitChars(NatDigits(n))
IntText(n) == IF n < 0 THEN <<cMinus>> \o NatText(-n) ELSE NatText(n)
Zeros(k) == IF k <= 0 THEN <<>> ELSE [i \in 1..k |-> 0]
\* n >= 0 as exactly w digits (zero padded)
PadNat(n, w) == LET ds == NatDigits(n) IN DigitChars(Zeros(w - Len(ds)) \o ds)

(***************************** numbers *****************************)
\* layout of Python's repr(float) after the BareScript ".0" clean-up, from sign, significant
\* digits ds (no leading / trailing zero) and exponent e with value 0.ds * 10^e
DecimalText(s, ds, e) ==
    LET x == e - 1                       \* scientific exponent
        k == Len(ds)
        sign == IF s < 0 THEN <<cMinus>> ELSE <<>>
    IN IF x >= -4 /\ x < 16 THEN
            IF x >= 0 THEN
                IF k <= x + 1 THEN sign \o DigitChars(ds \o Zeros(x + 1 - k))
                ELSE sign \o DigitChars(SubSeq(ds, 1, x + 1)) \o <<cDot>> \o DigitChars(SubSeq(ds, x + 2, k))
            ELSE sign \o <<cZero, cDot>> \o DigitChars(Zeros(-x - 1) \o ds)
       ELSE sign \o DigitChars(<<ds[1]>>)
              \o (IF k > 1 THEN <<cDot>> \o DigitChars(SubSeq(ds, 2, k)) ELSE <<>>)
              \o <<cE, IF x < 0 THEN cMinus ELSE cPlus>>
              \o (IF Abs(x) < 10 THEN <<cZero>> ELSE <<>>) \o NatText(Abs(x))

NumText(v) ==
    IF v.f = "q" THEN
        IF v.n = 0 THEN
            IF "z" \in DOMAIN v THEN (IF v.z = "neg" THEN OK(<<cMinus, cZero>>) ELSE NoText) ELSE OK(<<cZero>>)
        ELSE IF v.d = 1 THEN OK(IntText(v.n))
        ELSE LET m == Abs(v.n)
                 ip == NatDigits(m \div v.d)
                 fr == FracDigits(m % v.d, v.d, 12)
                 sig == (IF m \div v.d = 0 THEN 0 ELSE Len(ip)) + Len(fr)
             IN IF sig > 15 THEN NoText
                ELSE OK((IF v.n < 0 THEN <<cMinus>> ELSE <<>>) \o DigitChars(ip) \o <<cDot>> \o DigitChars(fr))
    ELSE IF v.f = "d" THEN
        IF "big" \in DOMAIN v THEN NoText ELSE OK(DecimalText(v.s, v.ds, v.e))
    ELSE NoText

(***************************** datetimes *****************************)
\* ISO text of local (d, ms) at UTC offset `off` minutes: YYYY-MM-DDTHH:MM:SS[.mmm]+HH:MM
\* (DtTextUs: a datetime that carries a sub-millisecond residue always prints its millisecond field, ".000" included)
DtTextF(d, ms, off, force) ==
    LET c == CivilFromDays(d)
        h == ms \div 3600000   mi == (ms \div 60000) % 60   s == (ms \div 1000) % 60   f == ms % 1000
        ao == Abs(off)
    IN PadNat(c.y, 4) \o <<cMinus>> \o PadNat(c.m, 2) \o <<cMinus>> \o PadNat(c.d, 2) \o <<cT>>
       \o PadNat(h, 2) \o <<cColon>> \o PadNat(mi, 2) \o <<cColon>> \o PadNat(s, 2)
       \o (IF f # 0 \/ force THEN <<cDot>> \o PadNat(f, 3) ELSE <<>>)
       \o <<IF off < 0 THEN cMinus ELSE cPlus>> \o PadNat(ao \div 60, 2) \o <<cColon>> \o PadNat(ao % 60, 2)
DtText(d, ms, off) == DtTextF(d, ms, off, FALSE)

\* the local-time conversion behind the ISO text is specified away from the ends of the calendar
\* (first and last year: the host's time-zone conversion may not exist there)
DtTextDefined(v) == v.d >= DaysBeforeYear(2) /\ v.d < DaysBeforeYear(9999)

(***************************** ISO text -> [ok, d, ms, isDate, off] *****************************)
Dg(t, i) == t[i] - 48
IsDig(t, i) == i <= Len(t) /\ t[i] >= 48 /\ t[i] <= 57
Num2(t, i) == Dg(t, i) * 10 + Dg(t, i + 1)
Num4(t, i) == Num2(t, i) * 100 + Num2(t, i + 2)
DateOK(t) == Len(t) >= 10 /\ (\A i \in {1, 2, 3, 4, 6, 7, 9, 10} : IsDig(t, i)) /\ t[5] = 45 /\ t[8] = 45
RECURSIVE FracEnd(_, _)
FracEnd(t, i) == IF IsDig(t, i) THEN FracEnd(t, i + 1) ELSE i
Frac3(t, i, j) ==      \* first three fraction digits as milliseconds (truncation)
    (IF i < j THEN Dg(t, i) * 100 ELSE 0) + (IF i + 1 < j THEN Dg(t, i + 1) * 10 ELSE 0) + (IF i + 2 < j THEN Dg(t, i + 2) ELSE 0)
IsoOf(t) ==
    LET bad == [ok |-> FALSE, d |-> 0, ms |-> 0, isDate |-> FALSE, off |-> 0] IN
    IF ~DateOK(t) THEN bad
    ELSE LET y == Num4(t, 1)  mo == Num2(t, 6)  dd == Num2(t, 9) IN
         IF y < 1 \/ mo < 1 \/ mo > 12 \/ dd < 1 \/ dd > DaysInMonth(y, mo) THEN bad
         ELSE IF Len(t) = 10 THEN [ok |-> TRUE, d |-> DaysFromCivil(y, mo, dd), ms |-> 0, isDate |-> TRUE, off |-> 0]
         ELSE IF Len(t) < 20 \/ t[11] # 84 \/ ~(\A i \in {12, 13, 15, 16, 18, 19} : IsDig(t, i)) \/ t[14] # 58 \/ t[17] # 58 THEN bad
         ELSE LET h == Num2(t, 12)  mi == Num2(t, 15)  s == Num2(t, 18)
                  hasFrac == t[20] = 46
                  fe == IF hasFrac THEN FracEnd(t, 21) ELSE 20
                  nfrac == fe - 21
              IN IF h > 23 \/ mi > 59 \/ s > 59 \/ (hasFrac /\ (nfrac < 1 \/ nfrac > 6)) \/ fe > Len(t) THEN bad
                 ELSE LET msod == ((h * 60 + mi) * 60 + s) * 1000 + (IF hasFrac THEN Frac3(t, 21, fe) ELSE 0) IN
                      IF t[fe] = 90 /\ Len(t) = fe THEN [ok |-> TRUE, d |-> DaysFromCivil(y, mo, dd), ms |-> msod, isDate |-> FALSE, off |-> 0]
                      ELSE IF t[fe] \in {43, 45} /\ Len(t) = fe + 5 /\ IsDig(t, fe + 1) /\ IsDig(t, fe + 2) /\ t[fe + 3] = 58 /\ IsDig(t, fe + 4) /\ IsDig(t, fe + 5)
                                /\ Num2(t, fe + 1) <= 23 /\ Num2(t, fe + 4) <= 59
                           THEN [ok |-> TRUE, d |-> DaysFromCivil(y, mo, dd), ms |-> msod, isDate |-> FALSE,
                                 off |-> (IF t[fe] = 45 THEN -1 ELSE 1) * (Num2(t, fe + 1) * 60 + Num2(t, fe + 4))]
                      ELSE bad

(***************************** compact JSON (canonical text) *****************************)
HexDigit(n) == IF n < 10 THEN cZero + n ELSE 97 + n - 10
Hex4(n) == <<HexDigit(n \div 4096), HexDigit((n \div 256) % 16), HexDigit((n \div 16) % 16), HexDigit(n % 16)>>
EscapeCP(c) ==
    CASE c = cQuote     -> <<cBackslash, cQuote>>
      [] c = cBackslash -> <<cBackslash, cBackslash>>
      [] c = 10 -> <<cBackslash, 110>>
      [] c = 13 -> <<cBackslash, 114>>
      [] c = 9  -> <<cBackslash, 116>>
      [] c = 8  -> <<cBackslash, 98>>
      [] c = 12 -> <<cBackslash, 102>>
      [] c >= 32 /\ c <= 126 -> <<c>>
      [] c < 65536 -> <<cBackslash, cU>> \o Hex4(c)
      [] OTHER -> LET u == c - 65536 IN
                  <<cBackslash, cU>> \o Hex4(55296 + u \div 1024) \o <<cBackslash, cU>> \o Hex4(56320 + (u % 1024))
RECURSIVE EscapeSeq(_)
EscapeSeq(cs) == IF cs = <<>> THEN <<>> ELSE EscapeCP(Head(cs)) \o EscapeSeq(Tail(cs))
JsonString(cs) == <<cQuote>> \o EscapeSeq(cs) \o <<cQuote>>

\* tzoff: the UTC offset function is not available inside nested JSON; datetimes inside
\* containers are serialised with the offset supplied by the caller's zone operator.
RECURSIVE JsonText(_, _, _), JsonElems(_, _, _, _), JsonPairs(_, _, _, _)
JsonElems(s, i, heap, off) ==
    IF i > Len(s) THEN OK(<<>>)
    ELSE LET a == JsonText(s[i], heap, off)
             r == JsonElems(s, i + 1, heap, off)
         IN IF a.ok /\ r.ok THEN OK((IF i > 1 THEN <<cComma>> ELSE <<>>) \o a.s \o r.s) ELSE NoText
JsonPairs(s, i, heap, off) ==
    IF i > Len(s) THEN OK(<<>>)
    ELSE LET a == JsonText(s[i].val, heap, off)
             r == JsonPairs(s, i + 1, heap, off)
         IN IF a.ok /\ r.ok THEN OK((IF i > 1 THEN <<cComma>> ELSE <<>>) \o JsonString(s[i].key) \o <<cColon>> \o a.s \o r.s)
            ELSE NoText
JsonText(v, heap, off) ==
    CASE v.t = "null"   -> OK(S_null)
      [] v.t = "bool"   -> OK(IF v.v THEN S_true ELSE S_false)
      [] v.t = "num"    -> IF v.f = "x" THEN NoText ELSE NumText(v)
      [] v.t = "str"    -> OK(JsonString(v.v))
      [] v.t = "dt"     -> IF DtTextDefined(v) THEN OK(JsonString(DtTextF(v.d, v.ms, off, UsOf(v) # 0))) ELSE NoText
      [] v.t = "fn"     -> OK(JsonString(S_function))
      [] v.t = "array"  -> LET r == JsonElems(Elems(v, heap), 1, heap, off) IN
                           IF r.ok THEN OK(<<cLBracket>> \o r.s \o <<cRBracket>>) ELSE NoText
      [] v.t = "object" -> LET r == JsonPairs(SortPairs(Elems(v, heap)), 1, heap, off) IN
                           IF r.ok THEN OK(<<cLBrace>> \o r.s \o <<cRBrace>>) ELSE NoText
      [] OTHER          -> OK(S_null)          \* regex and anything else: null

(***************************** ToText (value_string) *****************************)
ToText(v, heap, off) ==
    CASE v.t = "null"  -> OK(S_null)
      [] v.t = "str"   -> OK(v.v)
      [] v.t = "bool"  -> OK(IF v.v THEN S_true ELSE S_false)
      [] v.t = "num"   -> NumText(v)
      [] v.t = "dt"    -> IF DtTextDefined(v) THEN OK(DtTextF(v.d, v.ms, off, UsOf(v) # 0)) ELSE NoText
      [] v.t \in {"array", "object"} -> JsonText(v, heap, off)
      [] v.t = "fn"    -> OK(S_function)
      [] v.t = "regex" -> OK(S_regex)
      [] OTHER         -> NoText
=============================================================================
