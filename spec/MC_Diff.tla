---------------------------- MODULE MC_Diff ----------------------------
(* C20 leg A: the diffLines algorithm satisfies Reconstructs for all pairs of line lists of
   length <= N over a 3-letter alphabet.                                                   *)
EXTENDS BareDiff
CONSTANT N
Lists == UNION { [1..k -> {<<97>>, <<98>>, <<99>>}] : k \in 0..N }
VARIABLES l, r
vars == <<l, r>>
Init == l \in Lists /\ r \in Lists
Next == UNCHANGED vars
Spec == Init /\ [][Next]_vars
Correct == Reconstructs(l, r, DiffAlg(l, r))
\* blocks alternate sensibly: no two adjacent blocks of the same type
Compact == LET d == DiffAlg(l, r) IN \A i \in 1..(Len(d) - 1) : d[i].type # d[i + 1].type
=============================================================================
