---------------------------- MODULE Trace_Regex ----------------------------
(* X02: recorded calls of the REAL regexNew / regexMatch / regexMatchAll / regexReplace / regexSplit (through
   execute_script) judged against the reference semantics of BareRegex.  A case is
     [kind, pat, ng, gnames, flags [i, m, s], flagsOK, text, tpl, obs]
   obs: match    [null, index, input, groups (sequence of [key, null, v])]
        matchall [null, ms (sequence of match records)]
        replace / split-item  [null, v]        split [null, items]
   One verdict line per case.                                                                              *)
EXTENDS BareRegex, Json, IOUtils, TLC

Cases == JsonDeserialize(IOEnv.CASES)
VARIABLES tid, verdict
vars == <<tid, verdict>>
C == Cases[tid]
S == C.text
FL == C.flags

Digit(n) == <<48 + n>>
Item(isNull, v) == [null |-> isNull, v |-> v]
\* the groups object the library builds: "0" whole match, "1".."ng", and each name again
ExpectedPairs(r) ==
    { <<Digit(0), Item(FALSE, Sub(S, r.b, r.e))>> }
    \cup { <<Digit(n), IF Took(r.caps[n]) THEN Item(FALSE, CapText(S, r.caps[n])) ELSE Item(TRUE, <<>>)>> : n \in 1..C.ng }
    \cup { <<C.gnames[n], IF Took(r.caps[n]) THEN Item(FALSE, CapText(S, r.caps[n])) ELSE Item(TRUE, <<>>)>> :
             n \in { k \in 1..C.ng : C.gnames[k] # <<>> } }
ObsPairs(m) == { <<m.groups[k].key, Item(m.groups[k].null, m.groups[k].v)>> : k \in 1..Len(m.groups) }
MatchOK(m, r) == /\ ~m.null /\ m.index = r.b - 1 /\ m.input = S
                 /\ ObsPairs(m) = ExpectedPairs(r) /\ Len(m.groups) = Cardinality(ExpectedPairs(r))

MatchLaw ==
    LET r == Search(C.pat, C.ng, S, FL, 1, 1, FALSE) IN
    IF ~r.found THEN (IF C.obs.null THEN <<"ACCEPT">> ELSE <<"REJECT", "match-reported-where-none-exists", C.obs>>)
    ELSE IF C.obs.null THEN <<"REJECT", "match-not-found", <<r.b - 1, Sub(S, r.b, r.e)>>>>
    ELSE IF MatchOK(C.obs, r) THEN <<"ACCEPT">>
    ELSE <<"REJECT", "match-object", <<"specified", r.b - 1, ExpectedPairs(r), "recorded", C.obs>>>>
MatchAllLaw ==
    LET ms == FindAll(C.pat, C.ng, S, FL, 1, FALSE) IN
    IF C.obs.null THEN <<"REJECT", "regexMatchAll-returned-null", "">>
    ELSE IF Len(C.obs.ms) # Len(ms) THEN <<"REJECT", "number-of-matches", <<Len(ms), Len(C.obs.ms)>>>>
    ELSE IF \E k \in 1..Len(ms) : ~MatchOK(C.obs.ms[k], ms[k]) THEN
        LET k == CHOOSE k \in 1..Len(ms) : ~MatchOK(C.obs.ms[k], ms[k]) IN
        <<"REJECT", "match-object", <<k, "specified", ms[k].b - 1, ExpectedPairs(ms[k]), "recorded", C.obs.ms[k]>>>>
    ELSE <<"ACCEPT">>
ReplaceLaw ==
    IF ~TemplateOK(C.tpl, C.ng) THEN
        (IF C.obs.null THEN <<"ACCEPT">> ELSE <<"REJECT", "reference-to-a-missing-group-accepted", C.obs>>)
    ELSE LET out == Replace(C.pat, C.ng, S, FL, C.tpl) IN
         IF ~C.obs.null /\ C.obs.v = out THEN <<"ACCEPT">> ELSE <<"REJECT", "replace", <<"specified", out, "recorded", C.obs>>>>
SplitLaw ==
    LET out == Split(C.pat, C.ng, S, FL) IN
    IF C.obs.null THEN <<"REJECT", "regexSplit-returned-null", "">>
    ELSE IF Len(C.obs.items) = Len(out) /\ \A k \in 1..Len(out) : C.obs.items[k].null = out[k].null /\ C.obs.items[k].v = out[k].v
         THEN <<"ACCEPT">> ELSE <<"REJECT", "split", <<"specified", out, "recorded", C.obs.items>>>>
Law ==
    IF C.status # "done" THEN <<"REJECT", "call-failed", C.status>>
    ELSE IF ~C.flagsOK THEN (IF C.obs.null THEN <<"ACCEPT">> ELSE <<"REJECT", "invalid-flags-accepted", C.obs>>)
    ELSE CASE C.kind = "match" -> MatchLaw [] C.kind = "matchall" -> MatchAllLaw
           [] C.kind = "replace" -> ReplaceLaw [] C.kind = "split" -> SplitLaw
Init == tid \in 1..Len(Cases) /\ verdict = "open"
Next == /\ verdict = "open" /\ verdict' = Law[1] /\ PrintT(<<"V", tid>> \o Law) /\ UNCHANGED tid
Spec == Init /\ [][Next]_vars
=============================================================================
