---------------------------- MODULE Trace_Core ----------------------------
(* Trace validation of recorded REAL executions (execute_script / evaluate_expression)
   against BareCore.  One TLC run validates a batch of independent traces (tid).
   Every trace gets exactly one verdict line:
       <<"V", tid, "ACCEPT">> | <<"V", tid, "SKIP", why>> | <<"V", tid, "REJECT", clause, detail>>
   The spec machine's budget is trace-bounded (recorded final count + 1).                  *)
EXTENDS BareCore, Json, IOUtils

Cases == JsonDeserialize(IOEnv.CASES)
NCases == Len(Cases)

VARIABLES tid, pc, st, status, ret, verdict, seen
vars == <<tid, pc, st, status, ret, verdict, seen>>

C == Cases[tid]
RangeOf(sq) == { sq[i] : i \in 1..Len(sq) }
Reserved == RangeOf(C.reserved)

(* initial globals: tree values are interned into the heap one by one *)
RECURSIVE InternGlobals(_, _, _, _)
InternGlobals(gs, i, g, heap) ==
    IF i > Len(gs) THEN [g |-> g, heap |-> heap]
    ELSE LET r == Intern(gs[i].val, heap) IN
         InternGlobals(gs, i + 1, (gs[i].name :> r.v) @@ g, r.heap)

EffLim(c) == IF c.limit > 0 /\ c.limit <= c.fin.cnt + 1 THEN c.limit ELSE c.fin.cnt + 1

St0(c) ==
    LET ig == InternGlobals(c.globals, 1, <<>>, <<>>)
        il == InternGlobals(c.locals, 1, <<>>, ig.heap)        \* locals handed to evaluate_expression
        s0 == InitState(ig.g, il.heap, EffLim(c), c.dbg, c.kind = "script", c.names)
    IN [loc0 |-> il.g] @@ [s0 EXCEPT !.inc = c.inc, !.off = c.off]

Init == /\ tid \in 1..NCases
        /\ pc = 1
        /\ st = St0(Cases[tid])
        /\ status = "run"
        /\ ret = Null
        /\ verdict = "open"
        /\ seen = 0

\* events produced by the spec (st.log[i]) against the recorded trace
EventMatches(e, o) ==
    /\ e.ev = o.ev
    /\ CASE e.ev = "probe"   -> e.cnt = o.cnt /\ MatchesSeq(e.args, o.args)
         [] e.ev = "log"     -> e.text = o.text
         [] e.ev = "dbgfail" -> e.name = o.name
         [] e.ev = "fetch"   -> e.url = o.url
         [] OTHER            -> FALSE
NewEventsOK(log, from) ==
    /\ Len(log) <= Len(C.trace)
    /\ \A i \in (from + 1)..Len(log) : EventMatches(log[i], C.trace[i])
FirstBad(log, from) ==
    IF Len(log) > Len(C.trace) THEN Len(C.trace) + 1
    ELSE CHOOSE i \in (from + 1)..Len(log) : ~EventMatches(log[i], C.trace[i])

\* status of the spec run in the vocabulary of the recorded finish event
SpecStatus(s, fin) == IF s.exc = "" THEN "done" ELSE s.exc

GlobalsOK(s) ==
    \* a global holding the library function of its own name is indistinguishable from the injected library
    LET names == { n \in DOMAIN s.g \ Reserved : s.g[n] # LibFn(n) } IN
    /\ \A n \in names : n \in DOMAIN C.fin.globals /\ Matches(Extern(s.g[n], s.heap), C.fin.globals[n])
    /\ \A n \in DOMAIN C.fin.globals : n \in names

Final(s, r) ==
    LET ss == SpecStatus(s, C.fin) IN
    IF s.exc = "skip" THEN
        \* containment-only cases (C05): the run ended in a documented way with a BareScript value;
        \* what the value should be is outside the functional model
        (IF C.containOnly THEN <<"ACCEPT", "contained-only">> ELSE <<"SKIP", "outside the exact domain">>)
    ELSE IF s.exc = "fuel" THEN <<"SKIP", "evaluation fuel">>
    ELSE IF ss = "limit" /\ C.limit = 0 THEN <<"REJECT", "length", "the specified run is longer than the recorded one">>
    ELSE IF ss = "limit" /\ (C.limit > C.fin.cnt + 1) THEN <<"REJECT", "length", "the specified run is longer than the recorded one">>
    ELSE IF ss # C.fin.status THEN <<"REJECT", "status", <<ss, C.fin.status>>>>
    ELSE IF ss = "label" /\ s.excArg # C.fin.arg THEN <<"REJECT", "label-name", <<s.excArg, C.fin.arg>>>>
    ELSE IF ss = "undefined" /\ s.excArg # C.fin.arg THEN <<"REJECT", "undefined-name", <<s.excArg, C.fin.arg>>>>
    ELSE IF ss \in {"include", "parse"} /\ s.excArg # C.fin.url THEN <<"REJECT", "include-location", <<s.excArg, C.fin.url>>>>
    ELSE IF Len(s.log) # Len(C.trace) THEN <<"REJECT", "events", <<"missing events", Len(s.log), Len(C.trace)>>>>
    ELSE IF s.cnt # C.fin.cnt THEN <<"REJECT", "statementCount", <<s.cnt, C.fin.cnt>>>>
    ELSE IF ss = "done" /\ ~Matches(Extern(r, s.heap), C.fin.ret) THEN <<"REJECT", "result", <<Extern(r, s.heap), C.fin.ret>>>>
    ELSE IF C.checkGlobals /\ ~GlobalsOK(s) THEN <<"REJECT", "globals", <<[n \in DOMAIN s.g \ Reserved |-> Extern(s.g[n], s.heap)], C.fin.globals>>>>
    ELSE IF ~C.fin.modelUnchanged THEN <<"REJECT", "model-modified", "">>
    ELSE IF ~C.fin.rerunEqual THEN <<"REJECT", "rerun-differs", "">>
    ELSE <<"ACCEPT">>

Conclude(s, r) ==
    LET f == Final(s, r) IN
    /\ verdict' = f[1]
    /\ PrintT(<<"V", tid>> \o f)

\* a finish event the specification can never produce (host exception, alien value, time-out)
Alien == C.fin.status \notin {"done", "limit", "label", "undefined", "include", "parse"}

StepScript ==
    IF pc > Len(C.model) THEN
        /\ status' = "done" /\ Conclude(st, Null) /\ UNCHANGED <<tid, pc, st, ret, seen>>
    ELSE LET r == Step(C.model, pc, NoLoc, st, DefaultFuel) IN
        IF ~NewEventsOK(r.st.log, seen) THEN
            /\ verdict' = "REJECT" /\ status' = "rejected"
            /\ PrintT(<<"V", tid, "REJECT", "event", <<FirstBad(r.st.log, seen),
                        IF FirstBad(r.st.log, seen) <= Len(r.st.log) THEN r.st.log[FirstBad(r.st.log, seen)] ELSE "none",
                        IF FirstBad(r.st.log, seen) <= Len(C.trace) THEN C.trace[FirstBad(r.st.log, seen)] ELSE "none">>>>)
            /\ UNCHANGED <<tid, pc, st, ret, seen>>
        ELSE IF r.fin \/ r.st.exc # "" THEN
            /\ status' = "done" /\ st' = r.st /\ ret' = r.ret /\ seen' = Len(r.st.log)
            /\ Conclude(r.st, r.ret) /\ UNCHANGED <<tid, pc>>
        ELSE /\ pc' = r.pc /\ st' = r.st /\ seen' = Len(r.st.log)
             /\ UNCHANGED <<tid, status, ret, verdict>>

StepExpr ==
    LET r == Eval(C.expr, IF C.hasLocals THEN [has |-> TRUE, m |-> st.loc0] ELSE NoLoc, st, <<DefaultFuel, C.bi>>) IN
    IF ~NewEventsOK(r.st.log, 0) THEN
        /\ verdict' = "REJECT" /\ status' = "rejected"
        /\ PrintT(<<"V", tid, "REJECT", "event", <<FirstBad(r.st.log, 0),
                    IF FirstBad(r.st.log, 0) <= Len(r.st.log) THEN r.st.log[FirstBad(r.st.log, 0)] ELSE "none",
                    IF FirstBad(r.st.log, 0) <= Len(C.trace) THEN C.trace[FirstBad(r.st.log, 0)] ELSE "none">>>>)
        /\ UNCHANGED <<tid, pc, st, ret, seen>>
    ELSE /\ st' = r.st /\ ret' = r.v /\ status' = "done" /\ seen' = Len(r.st.log)
         /\ Conclude(r.st, r.v)
         /\ UNCHANGED <<tid, pc>>

Next ==
    /\ status = "run"
    /\ IF Alien THEN
            /\ verdict' = "REJECT" /\ status' = "rejected"
            /\ PrintT(<<"V", tid, "REJECT", "escaped", C.fin.status>>)
            /\ UNCHANGED <<tid, pc, st, ret, seen>>
       ELSE IF C.kind = "script" THEN StepScript ELSE StepExpr

Spec == Init /\ [][Next]_vars

(* invariants evaluated in every state of every validated trace *)
BudgetInv == st.lim > 0 => st.cnt <= st.lim + 1
ExcInv == (st.exc = "limit") => st.cnt = st.lim + 1
LogInv == seen <= Len(C.trace)
=============================================================================
