---------------------------- MODULE Trace_Statement ----------------------------
(* X05: what the REAL parse_script makes of one source line, against BareStatement.Classify and the lowering of BareLower.
   A case is [line, ctx, names, okSpans, exprs, obs |-> [outcome, model, async]]:
     ctx      where the line was placed: "plain" (alone) or the slot it was written for -
              "if" / "while" / "for" (followed by the closing keyword), "function" (followed by a statement and
              endfunction), "elif" / "else" / "endif" / "endwhile" / "endfor" / "break" / "continue" / "endfunction"
              (inside the matching construct)
     okSpans  every substring [s, e] of the line the real parse_expression accepts, with the index of its tree in exprs
     names    identifier table (TLA+ string -> code points) for the identifiers of the line
   The specification classifies the line, builds the program the wrapper then denotes, lowers it, and the real model
   must be that model; if the block grammar (BareLines.Machine) rejects the kind sequence the real parser must raise
   BareScriptParserError; kind sequences the grammar accepts but that are not the slot's construct are left open (SKIP). *)
EXTENDS BareLower, Json, IOUtils, TreeEq
ST == INSTANCE BareStatement
LN == INSTANCE BareLines WITH Dev <- {}

Cases == JsonDeserialize(IOEnv.CASES)
VARIABLES tid, verdict
vars == <<tid, verdict>>
C == Cases[tid]
L == C.line
K == ST!Classify(L)

NameOf(cs) == IF \E n \in DOMAIN C.names : C.names[n] = cs THEN CHOOSE n \in DOMAIN C.names : C.names[n] = cs ELSE "?"
HasSpan == K.s > 0
SpanIdx == { i \in 1..Len(C.okSpans) : C.okSpans[i].s = K.s /\ C.okSpans[i].e = K.e }
SpanOK == HasSpan => SpanIdx # {}
E == IF HasSpan /\ SpanIdx # {} THEN C.exprs[C.okSpans[CHOOSE i \in SpanIdx : TRUE].id] ELSE VarE("null")

C0 == VarE("c0")
A0 == VarE("a0")
X1 == [k |-> "assign", name |-> "x1", e |-> NumE(1)]
X2 == [k |-> "assign", name |-> "x2", e |-> NumE(2)]
IfS(arms, hasElse, els) == [k |-> "if", arms |-> arms, hasElse |-> hasElse, els |-> els]
Arm(c, b) == [cond |-> c, body |-> b]
ForS(v, ix, e, b) == [k |-> "for", var |-> v, idx |-> ix, e |-> e, body |-> b]
WhileS(c, b) == [k |-> "while", cond |-> c, body |-> b]
FnS(n, args, last, b) == [k |-> "function", name |-> n, args |-> args, last |-> last, body |-> b]

Simple == {"comment", "assign", "expr", "label", "jump", "jumpif", "return", "include", "includesys"}
\* the line as a jump-level statement list (simple forms)
SimpleCode ==
    CASE K.k = "comment" -> <<>>
      [] K.k = "assign" -> <<JAssign(NameOf(K.name), E)>>
      [] K.k = "expr" -> <<JExpr(E)>>
      [] K.k = "label" -> <<JLabel(NameOf(K.name))>>
      [] K.k = "jump" -> <<JJump(NameOf(K.name))>>
      [] K.k = "jumpif" -> <<JJumpIf(NameOf(K.name), E)>>
      [] K.k = "return" -> <<[k |-> "return", hasE |-> HasSpan, e |-> E]>>
      [] K.k = "include" -> <<[k |-> "include", incs |-> <<[url |-> K.url, system |-> FALSE]>>]>>
      [] K.k = "includesys" -> <<[k |-> "include", incs |-> <<[url |-> K.url, system |-> TRUE]>>]>>
ArgNames == [i \in 1..Len(K.args) |-> NameOf(K.args[i])]
\* the structured program the wrapper denotes when the line is the construct the slot was written for
SlotProgram ==
    CASE C.ctx = "if" -> <<IfS(<<Arm(E, <<>>)>>, FALSE, <<>>)>>
      [] C.ctx = "while" -> <<WhileS(E, <<>>)>>
      [] C.ctx = "for" -> <<ForS(NameOf(K.name), IF K.idx = <<>> THEN "" ELSE NameOf(K.idx), E, <<>>)>>
      [] C.ctx = "function" -> <<FnS(NameOf(K.name), ArgNames, K.last, <<X1>>)>>
      [] C.ctx = "elif" -> <<IfS(<<Arm(C0, <<>>), Arm(E, <<>>)>>, FALSE, <<>>)>>
      [] C.ctx = "else" -> <<IfS(<<Arm(C0, <<X1>>)>>, TRUE, <<X2>>)>>
      [] C.ctx = "endif" -> <<IfS(<<Arm(C0, <<X1>>)>>, FALSE, <<>>)>>
      [] C.ctx = "endwhile" -> <<WhileS(C0, <<X1>>)>>
      [] C.ctx = "endfor" -> <<ForS("v0", "", A0, <<X1>>)>>
      [] C.ctx = "break" -> <<ForS("v0", "", A0, <<[k |-> "break"]>>)>>
      [] C.ctx = "continue" -> <<ForS("v0", "", A0, <<[k |-> "continue"]>>)>>
      [] C.ctx = "endfunction" -> <<FnS("f0", <<>>, FALSE, <<X1>>)>>
\* the kinds of the wrapper's lines with the slot taken by kind k (BareLines alphabet)
LK(k) == IF k \in Simple THEN (IF k = "comment" THEN <<>> ELSE <<"stmt">>) ELSE <<k>>
WrapperKinds(k) ==
    CASE C.ctx = "plain" -> LK(k)
      [] C.ctx = "if" -> LK(k) \o <<"endif">>
      [] C.ctx = "while" -> LK(k) \o <<"endwhile">>
      [] C.ctx = "for" -> LK(k) \o <<"endfor">>
      [] C.ctx = "function" -> LK(k) \o <<"stmt", "endfunction">>
      [] C.ctx = "elif" -> <<"if">> \o LK(k) \o <<"endif">>
      [] C.ctx = "else" -> <<"if", "stmt">> \o LK(k) \o <<"stmt", "endif">>
      [] C.ctx = "endif" -> <<"if", "stmt">> \o LK(k)
      [] C.ctx = "endwhile" -> <<"while", "stmt">> \o LK(k)
      [] C.ctx = "endfor" -> <<"for", "stmt">> \o LK(k)
      [] C.ctx \in {"break", "continue"} -> <<"for">> \o LK(k) \o <<"endfor">>
      [] C.ctx = "endfunction" -> <<"function", "stmt">> \o LK(k)

IsModel == C.obs.outcome = "model"
Law ==
    IF C.obs.outcome \notin {"model", "error"} THEN <<"REJECT", "escaped", C.obs.outcome>>
    ELSE IF ~SpanOK THEN        \* the expression part is not an expression: a syntax error whatever the form
        (IF IsModel THEN <<"REJECT", "syntax-error-expected", <<K.k, K.s, K.e>>>> ELSE <<"ACCEPT">>)
    ELSE IF LN!MachineOutcome(WrapperKinds(K.k)) = "error" THEN
        (IF IsModel THEN <<"REJECT", "block-structure-error-expected", <<K.k, C.ctx>>>> ELSE <<"ACCEPT">>)
    ELSE IF C.ctx = "plain" THEN
        (IF K.k \notin Simple THEN <<"SKIP", "not a simple statement">>
         ELSE IF ~IsModel THEN <<"REJECT", "valid-statement-rejected", K.k>>
         ELSE IF ModelEq(C.obs.model, SimpleCode) THEN <<"ACCEPT">>
         ELSE <<"REJECT", "statement", <<K.k, "specified", SimpleCode, "parsed", C.obs.model>>>>)
    ELSE IF K.k # C.ctx THEN <<"SKIP", "another construct in the slot">>
    ELSE IF ~IsModel THEN <<"REJECT", "valid-statement-rejected", K.k>>
    ELSE IF K.k = "function" /\ C.obs.async # K.async THEN <<"REJECT", "async-marker", <<K.async, C.obs.async>>>>
    ELSE IF ModelEq(C.obs.model, Lower(SlotProgram)) THEN <<"ACCEPT">>
    ELSE <<"REJECT", "construct", <<K.k, "specified", Lower(SlotProgram), "parsed", C.obs.model>>>>
Init == tid \in 1..Len(Cases) /\ verdict = "open"
Next == /\ verdict = "open" /\ verdict' = Law[1] /\ PrintT(<<"V", tid>> \o Law) /\ UNCHANGED tid
Spec == Init /\ [][Next]_vars
=============================================================================
