---------------------------- MODULE MC_Scope ----------------------------
(* C04 leg A: every statement list <= N over ScopeAlphabet run by the BareCore machine.
   Action properties on every top-level step:
     GlobalsFrame   a global changes only when the executed top-level statement is an
                    assignment to that name or a function definition of that name - in
                    particular no call, however nested, writes a global through a local
                    assignment (the one systemGlobalSet('pp', ...) statement of the alphabet may write pp)
     FunctionBinds  executing a function statement binds exactly that global to a script function
     LibraryKept    the library is never written into the globals by the machine          *)
EXTENDS ScopeAlphabet
CONSTANTS N, Limit
VARIABLES ix, pc, st, status
vars == <<ix, pc, st, status>>
Init == /\ ix \in Tuples(N) /\ pc = 1 /\ status = "run"
        /\ st = InitState(G0, <<>>, Limit, FALSE, TRUE, Names0)
Next == /\ status = "run"
        /\ IF pc > Len(ProgOf(ix)) THEN status' = "done" /\ UNCHANGED <<ix, pc, st>>
           ELSE LET r == Step(ProgOf(ix), pc, NoLoc, st, 50) IN
                /\ st' = r.st /\ pc' = r.pc
                /\ status' = IF r.st.exc # "" THEN r.st.exc ELSE IF r.fin THEN "done" ELSE "run"
                /\ UNCHANGED ix
Spec == Init /\ [][Next]_vars
Cur == ProgOf(ix)[pc]
Changed == { n \in DOMAIN st'.g : n \notin DOMAIN st.g \/ st'.g[n] # st.g[n] }
\* the one statement of the alphabet that writes a global through the library: systemGlobalSet('pp', ...)
RECURSIVE CallsIn(_)
CallsIn(e) == CASE e.k = "call" -> {e.name} \cup UNION { CallsIn(e.args[i]) : i \in 1..Len(e.args) }
                [] e.k = "bin" -> CallsIn(e.l) \cup CallsIn(e.r)
                [] e.k \in {"un", "grp"} -> CallsIn(e.e)
                [] OTHER -> {}
SetsPP == Cur.k = "expr" /\ "systemGlobalSet" \in CallsIn(Cur.e)
GlobalsFrame == [][ pc <= Len(ProgOf(ix)) =>
                      \A n \in Changed : (Cur.k = "expr" /\ Cur.name = n) \/ (Cur.k = "function" /\ Cur.name = n) \/ (n = "pp" /\ SetsPP) ]_vars
FunctionBinds == [][ (pc <= Len(ProgOf(ix)) /\ Cur.k = "function" /\ st'.exc = "") =>
                       (st'.g[Cur.name].t = "fn" /\ st'.g[Cur.name].f = "script" /\ st'.g[Cur.name].def.body = Cur.body) ]_vars
LibraryKept == \A n \in DOMAIN st.g : st.g[n].t = "fn" => st.g[n].f \in {"script", "host", "partial"}
NeverShrinks == [][ DOMAIN st.g \subseteq DOMAIN st'.g ]_vars
EndInv == status \in {"run", "done", "limit", "label", "undefined"}
=============================================================================
