---------------------------- MODULE BareRegex ----------------------------
(* Reference semantics of the regex library functions (regexNew / regexMatch / regexMatchAll / regexReplace /
   regexSplit) for a subset of the pattern language - coverage beyond the listed properties (check id X02).

   Patterns are trees:
       [k "lit", c]                      one character (code point)
       [k "any"]                         .      (no line feed unless flag s)
       [k "cls", neg, set]               [abc] / [^abc]
       [k "seq", ps]   [k "alt", ps]     concatenation / alternation (leftmost alternative first)
       [k "rep", p, min, max, greedy]    p? p* p+ p*? p+? p{min,max}   (max = Inf for unbounded; the body is not nullable)
       [k "grp", n, name, p]             capturing group number n (name "" when unnamed)
       [k "bol"]  [k "eol"]              ^  $   (flag m: at line boundaries; without m, $ also before a final line feed)
   Flags: i (ASCII case folding), m, s.

   The matcher is the classical backtracking semantics written as a PRIORITY-ORDERED list of results: M(p, i, caps)
   is the sequence of [e, caps] (end position, captures) in the order a backtracking engine would try them; the first
   element is "the" match.  Positions are 1-based here; the library's `index` is 0-based.
   Captures: function from group number to <<start, end>> (end exclusive) or <<0, 0>> when the group did not take part. *)
EXTENDS Integers, Sequences, FiniteSets

Inf == 99
LF == 10

Fold(c, ci) == IF ci /\ c >= 65 /\ c <= 90 THEN c + 32 ELSE c
CharEq(a, b, ci) == Fold(a, ci) = Fold(b, ci)

NoCaps(ng) == [n \in 1..ng |-> <<0, 0>>]

RECURSIVE M(_, _, _, _, _)
RECURSIVE MSeq(_, _, _, _, _, _)
RECURSIVE MAlt(_, _, _, _, _, _)
RECURSIVE MRep(_, _, _, _, _, _, _)
RECURSIVE MSeqOver(_, _, _, _, _, _)
RECURSIVE MRepOver(_, _, _, _, _, _, _)
\* fl = [i, m, s] flags
M(p, s, fl, i, caps) ==
    CASE p.k = "lit" -> IF i <= Len(s) /\ CharEq(s[i], p.c, fl.i) THEN << [e |-> i + 1, caps |-> caps] >> ELSE <<>>
      [] p.k = "any" -> IF i <= Len(s) /\ (fl.s \/ s[i] # LF) THEN << [e |-> i + 1, caps |-> caps] >> ELSE <<>>
      [] p.k = "cls" -> IF i <= Len(s) /\ ((\E j \in 1..Len(p.set) : CharEq(s[i], p.set[j], fl.i)) <=> ~p.neg)
                        THEN << [e |-> i + 1, caps |-> caps] >> ELSE <<>>
      [] p.k = "seq" -> MSeq(p.ps, 1, s, fl, i, caps)
      [] p.k = "alt" -> MAlt(p.ps, 1, s, fl, i, caps)
      [] p.k = "rep" -> MRep(p, 0, s, fl, i, caps, 0)
      [] p.k = "grp" -> LET rs == M(p.p, s, fl, i, caps) IN
                        [k \in 1..Len(rs) |-> [e |-> rs[k].e, caps |-> [rs[k].caps EXCEPT ![p.n] = <<i, rs[k].e>>]]]
      [] p.k = "bol" -> IF i = 1 \/ (fl.m /\ s[i - 1] = LF) THEN << [e |-> i, caps |-> caps] >> ELSE <<>>
      [] p.k = "eol" -> IF i = Len(s) + 1 \/ (i = Len(s) /\ s[i] = LF) \/ (fl.m /\ i <= Len(s) /\ s[i] = LF)
                        THEN << [e |-> i, caps |-> caps] >> ELSE <<>>
MSeq(ps, k, s, fl, i, caps) ==
    IF k > Len(ps) THEN << [e |-> i, caps |-> caps] >>
    ELSE MSeqOver(M(ps[k], s, fl, i, caps), 1, ps, k, s, fl)
\* the continuations of every way ps[k] matched, in priority order
MSeqOver(rs, j, ps, k, s, fl) ==
    IF j > Len(rs) THEN <<>> ELSE MSeq(ps, k + 1, s, fl, rs[j].e, rs[j].caps) \o MSeqOver(rs, j + 1, ps, k, s, fl)
MAlt(ps, k, s, fl, i, caps) ==
    IF k > Len(ps) THEN <<>> ELSE M(ps[k], s, fl, i, caps) \o MAlt(ps, k + 1, s, fl, i, caps)
MRep(p, cnt, s, fl, i, caps, unused) ==
    LET more == IF cnt < p.max
                THEN MRepOver(M(p.p, s, fl, i, caps), 1, p, cnt, s, fl, i)
                ELSE <<>>
        stop == IF cnt >= p.min THEN << [e |-> i, caps |-> caps] >> ELSE <<>>
    IN IF p.greedy THEN more \o stop ELSE stop \o more

\* one more iteration for every way the body matched (an iteration that consumes nothing is not repeated)
MRepOver(rs, j, p, cnt, s, fl, i) ==
    IF j > Len(rs) THEN <<>>
    ELSE (IF rs[j].e = i THEN <<>> ELSE MRep(p, cnt + 1, s, fl, rs[j].e, rs[j].caps, 0)) \o MRepOver(rs, j + 1, p, cnt, s, fl, i)

\* ---- search: leftmost start, first result in priority order; mustAdvance forbids an empty match AT `from`
RECURSIVE Search(_, _, _, _, _, _, _)
Search(p, ng, s, fl, start, from, mustAdvance) ==
    IF start > Len(s) + 1 THEN [found |-> FALSE, b |-> 0, e |-> 0, caps |-> NoCaps(ng)]
    ELSE LET rs == M(p, s, fl, start, NoCaps(ng))
             ok == SelectSeq(rs, LAMBDA r : ~(mustAdvance /\ start = from /\ r.e = start))
         IN IF ok # <<>> THEN [found |-> TRUE, b |-> start, e |-> ok[1].e, caps |-> ok[1].caps]
            ELSE Search(p, ng, s, fl, start + 1, from, mustAdvance)

\* all matches the way finditer / sub / split iterate: continue at the end of the previous match; after an EMPTY match
\* the next match may not be empty at the same position
RECURSIVE FindAll(_, _, _, _, _, _)
FindAll(p, ng, s, fl, pos, must) ==
    LET r == Search(p, ng, s, fl, pos, pos, must) IN
    IF ~r.found THEN <<>>
    ELSE <<r>> \o FindAll(p, ng, s, fl, r.e, r.e = r.b)

Sub(s, b, e) == SubSeq(s, b, e - 1)        \* [b, e) ; empty when e <= b
CapText(s, c) == Sub(s, c[1], c[2])
Took(c) == c[1] # 0

(* ---- replacement template: sequence of [k "lit", c] | [k "ref", n] (the $n form) ; $$ is written as a literal $ ---- *)
RECURSIVE Expand(_, _, _, _, _)
Expand(tpl, k, s, r, ng) ==
    IF k > Len(tpl) THEN <<>>
    ELSE (IF tpl[k].k = "lit" THEN <<tpl[k].c>>
          ELSE IF tpl[k].n = 0 THEN Sub(s, r.b, r.e)
          ELSE IF Took(r.caps[tpl[k].n]) THEN CapText(s, r.caps[tpl[k].n]) ELSE <<>>) \o Expand(tpl, k + 1, s, r, ng)
TemplateOK(tpl, ng) == \A k \in 1..Len(tpl) : tpl[k].k = "ref" => tpl[k].n <= ng
RECURSIVE ReplaceFrom(_, _, _, _, _, _)
ReplaceFrom(ms, k, s, last, tpl, ng) ==
    IF k > Len(ms) THEN Sub(s, last, Len(s) + 1)
    ELSE Sub(s, last, ms[k].b) \o Expand(tpl, 1, s, ms[k], ng) \o ReplaceFrom(ms, k + 1, s, ms[k].e, tpl, ng)
Replace(p, ng, s, fl, tpl) == ReplaceFrom(FindAll(p, ng, s, fl, 1, FALSE), 1, s, 1, tpl, ng)

(* ---- split: the pieces between matches, each match contributing its groups (null when a group took no part) ---- *)
GroupItems(s, r, ng) == [n \in 1..ng |-> IF Took(r.caps[n]) THEN [null |-> FALSE, v |-> CapText(s, r.caps[n])] ELSE [null |-> TRUE, v |-> <<>>]]
RECURSIVE SplitFrom(_, _, _, _, _)
SplitFrom(ms, k, s, last, ng) ==
    IF k > Len(ms) THEN << [null |-> FALSE, v |-> Sub(s, last, Len(s) + 1)] >>
    ELSE << [null |-> FALSE, v |-> Sub(s, last, ms[k].b)] >> \o GroupItems(s, ms[k], ng) \o SplitFrom(ms, k + 1, s, ms[k].e, ng)
Split(p, ng, s, fl) == SplitFrom(FindAll(p, ng, s, fl, 1, FALSE), 1, s, 1, ng)

(* ---- the match object: 0-based index, groups "0".."ng" plus named ones ---- *)
MatchObj(s, r, ng) == [index |-> r.b - 1, whole |-> Sub(s, r.b, r.e), groups |-> GroupItems(s, r, ng)]
=============================================================================
