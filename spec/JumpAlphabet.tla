---------------------------- MODULE JumpAlphabet ----------------------------
(* The fixed alphabet of jump-level statements used by the exhaustive instances (C08, C09, C18).
   Single source of truth: the Python driver obtains it from TLC (PrintAlphabet) and enumerates
   index tuples, so enumeration of "all statement lists <= N" is exhaustive by construction. *)
EXTENDS BareCore, Json


V(n) == [k |-> "var", v |-> n]
Nm(n) == [k |-> "num", v |-> IntV(n)]
Bin(op, l, r) == [k |-> "bin", op |-> op, l |-> l, r |-> r]
CallE(name, args) == [k |-> "call", name |-> name, args |-> args, noargs |-> FALSE]
ExprS(e) == [k |-> "expr", name |-> "", e |-> e]
Assign(n, e) == [k |-> "expr", name |-> n, e |-> e]
Jump(l) == [k |-> "jump", label |-> l, hasE |-> FALSE, e |-> V("null")]
JumpIf(l, e) == [k |-> "jump", label |-> l, hasE |-> TRUE, e |-> e]
LabelS(l) == [k |-> "label", v |-> l]
Ret == [k |-> "return", hasE |-> FALSE, e |-> V("null")]
RetE(e) == [k |-> "return", hasE |-> TRUE, e |-> e]
Fun(name, args, body) == [k |-> "function", name |-> name, args |-> args, last |-> FALSE, body |-> body]

LogA == ExprS(CallE("probe", <<Nm(1), V("a")>>))
IncA == Assign("a", Bin("+", V("a"), Nm(1)))
CondA == Bin("<", V("a"), Nm(3))
CallF == Assign("b", CallE("ff", <<V("a")>>))

\* one-level function bodies (from the same alphabet)
Bodies == <<
    <<LogA, RetE(Bin("+", V("p"), Nm(10)))>>,
    <<JumpIf("L1", V("p")), LogA, LabelS("L1"), IncA>>,
    <<Jump("L2"), LogA>>,                                    \* L2 is not defined in the body: jumps never reach the caller's label
    <<LabelS("L1"), Assign("p", Bin("+", V("p"), Nm(1))), JumpIf("L1", Bin("<", V("p"), Nm(3))), RetE(V("p"))>>,
    <<Assign("a", Nm(7)), LogA, Ret, LogA>>,
    <<LabelS("L2"), LabelS("L2"), RetE(V("a"))>> >>

Alphabet == <<
    LogA, IncA,
    Jump("L1"), Jump("L2"), JumpIf("L1", CondA), JumpIf("L2", CondA),
    LabelS("L1"), LabelS("L2"),
    Ret, RetE(V("a")), CallF >>
    \o [i \in 1..Len(Bodies) |-> Fun("ff", <<"p">>, Bodies[i])]
    \* a parameter named like a global, and a call that does not supply it: the parameter is null, the global is not read
    \* (its own name: calling one of the looping ff bodies without its argument would never end when there is no limit)
    \o << Fun("fg", <<"a">>, <<LogA, Assign("b", V("a")), RetE(V("a"))>>), Assign("b", CallE("fg", <<>>)) >>
    \* a function WITHOUT parameters that assigns: the assignment is local to the call all the same
    \o << Fun("ff", <<>>, <<Assign("a", Nm(7)), Assign("b", V("a")), LogA, RetE(V("b"))>>) >>

Tuples(n) == UNION { [1..k -> 1..Len(Alphabet)] : k \in 1..n }
ProgOf(ix) == [j \in 1..Len(ix) |-> Alphabet[ix[j]]]

G0 == ("a" :> IntV(0)) @@ ("b" :> Null) @@ ("probe" :> HostFn("probe"))
Names0 == [a |-> <<97>>, b |-> <<98>>]
PrintAlphabet == PrintT(<<"ALPHABET", ToJson(Alphabet)>>)
=============================================================================
