---------------------------- MODULE TreeEq ----------------------------
(* Type-safe structural equality of abstract tree values.  TLC raises an error when it compares records whose
   same-named field holds values of different kinds ([t |-> "bool", v |-> TRUE] = [t |-> "str", v |-> <<..>>]),
   so recorded values of possibly different types are compared tag first.                                  *)
EXTENDS Integers, Sequences
RECURSIVE TreeEq(_, _)
TreeEq(a, b) ==
    /\ a.t = b.t
    /\ CASE a.t = "array" -> Len(a.v) = Len(b.v) /\ \A i \in 1..Len(a.v) : TreeEq(a.v[i], b.v[i])
         [] a.t = "object" -> Len(a.v) = Len(b.v) /\ \A i \in 1..Len(a.v) : a.v[i].key = b.v[i].key /\ TreeEq(a.v[i].val, b.v[i].val)
         [] a.t = "num" -> a.f = b.f /\ a = b
         [] OTHER -> a = b
TreeSeqEq(x, y) == Len(x) = Len(y) /\ \A i \in 1..Len(x) : TreeEq(x[i], y[i])
TreeMapEq(f, g) == DOMAIN f = DOMAIN g /\ \A n \in DOMAIN f : TreeEq(f[n], g[n])
\* events: [ev, ...] with optional args (values) - everything else compared field by field after the tag
EventEq(e, o) ==
    /\ e.ev = o.ev
    /\ CASE e.ev = "probe" -> TreeSeqEq(e.args, o.args) /\ (("cnt" \in DOMAIN e /\ "cnt" \in DOMAIN o) => e.cnt = o.cnt)
         [] OTHER -> e = o
EventSeqEq(x, y) == Len(x) = Len(y) /\ \A i \in 1..Len(x) : EventEq(x[i], y[i])
(* expressions and jump-level statements (spec/BareCore.tla abstract syntax) *)
RECURSIVE ExprEq(_, _)
ExprEq(a, b) ==
    /\ a.k = b.k
    /\ CASE a.k = "num" -> TreeEq(a.v, b.v)
         [] a.k \in {"str", "var"} -> a.v = b.v
         [] a.k = "grp" -> ExprEq(a.e, b.e)
         [] a.k = "un" -> a.op = b.op /\ ExprEq(a.e, b.e)
         [] a.k = "bin" -> a.op = b.op /\ ExprEq(a.l, b.l) /\ ExprEq(a.r, b.r)
         [] a.k = "call" -> a.name = b.name /\ Len(a.args) = Len(b.args) /\ \A i \in 1..Len(a.args) : ExprEq(a.args[i], b.args[i])
         [] OTHER -> FALSE
RECURSIVE ModelEq(_, _)
StmtEq(a, b) ==
    /\ a.k = b.k
    /\ CASE a.k = "expr" -> a.name = b.name /\ ExprEq(a.e, b.e)
         [] a.k = "jump" -> a.label = b.label /\ a.hasE = b.hasE /\ (a.hasE => ExprEq(a.e, b.e))
         [] a.k = "label" -> a.v = b.v
         [] a.k = "return" -> a.hasE = b.hasE /\ (a.hasE => ExprEq(a.e, b.e))
         [] a.k = "function" -> a.name = b.name /\ a.args = b.args /\ a.last = b.last /\ ModelEq(a.body, b.body)
         [] OTHER -> a = b
ModelEq(x, y) == Len(x) = Len(y) /\ \A i \in 1..Len(x) : StmtEq(x[i], y[i])
=============================================================================
