---------------------------- MODULE Trace_Alias ----------------------------
(* C03, alias clause: in expression mode every spreadsheet-style built-in behaves exactly as the
   library function it is documented to alias.  A case records one call of the alias through
   evaluate_expression and one call of the library function through execute_script with the
   same arguments; the documented table (BareLib!ExprAliases) names the function it must equal. *)
EXTENDS BareLib, Json, IOUtils, TreeEq
Cases == JsonDeserialize(IOEnv.CASES)
VARIABLES tid, verdict
vars == <<tid, verdict>>
C == Cases[tid]
Law ==
    IF C.alias \notin DOMAIN ExprAliases THEN "not-an-alias"
    ELSE IF ExprAliases[C.alias] # C.lib THEN "wrong-target"
    ELSE IF C.s1 # C.s2 THEN "status-differs"
    ELSE IF ~C.nondet /\ ~TreeEq(C.r1, C.r2) THEN "result-differs"
    ELSE IF ~C.nondet /\ ~TreeMapEq(C.g1, C.g2) THEN "effect-differs"
    ELSE "ok"
Init == tid \in 1..Len(Cases) /\ verdict = "open"
Next == /\ verdict = "open"
        /\ verdict' = (IF Law = "ok" THEN "ACCEPT" ELSE "REJECT")
        /\ IF Law = "ok" THEN PrintT(<<"V", tid, "ACCEPT">>) ELSE PrintT(<<"V", tid, "REJECT", Law, <<C.alias, C.lib, C.r1, C.r2>>>>)
        /\ UNCHANGED tid
Spec == Init /\ [][Next]_vars
=============================================================================
