---------------------------- MODULE MC_Struct ----------------------------
(* C01 / C07 leg A: for every program of StructFamily and every input of the chosen input set,
   the structured (big-step, source-level) meaning ExecBlock and the jump machine run on the
   lowering Lower(prog) have the same observables: result, sequence of probe events, final
   globals without the reserved temporaries.  With Dev = {} this must hold; with
   Dev = {"WhileContinueSkipsTest"} TLC exhibits the F7 counterexample.
   Also: WellFormed(Lower(prog)) (C07).                                                   *)
EXTENDS StructFamily

CONSTANTS ShardI, ShardN   \* this JVM checks the programs with index = ShardI (mod ShardN)
CONSTANT InputMode       \* "two": all-truthy / all-falsy;  "cover": + every single flip, all array inputs

VARIABLES prog, truth, rot, arrIx
vars == <<prog, truth, rot, arrIx>>

AllT == [v \in TruthVars |-> TRUE]
AllF == [v \in TruthVars |-> FALSE]
Flips(f) == { [f EXCEPT ![v] = ~f[v]] : v \in TruthVars }
TruthSets == IF InputMode = "one" THEN {AllT} ELSE IF InputMode = "two" THEN {AllT, AllF} ELSE {AllT, AllF} \cup Flips(AllT) \cup Flips(AllF)
ArrSet == IF InputMode \in {"one", "two"} THEN {1} ELSE 1..Len(ArrVals)

MyParts == { pc \in PartIds : (pc[1] * 7 + pc[2]) % ShardN = ShardI }
MyProgs(dummy) == UNION { ProgramsPart(pc[1], pc[2]) : pc \in MyParts }
Init == /\ prog \in MyProgs(0)
        /\ truth \in TruthSets
        /\ rot \in (IF InputMode \in {"one", "two"} THEN {0} ELSE {0, 3})
        /\ arrIx \in ArrSet
Next == UNCHANGED vars
Spec == Init /\ [][Next]_vars

\* initial globals: the truth variables, arr, the host probe
RECURSIVE InternAll(_, _, _)
InternAll(names, g, heap) ==
    IF names = {} THEN [g |-> g, heap |-> heap]
    ELSE LET n == CHOOSE x \in names : TRUE
             r == Intern(ValOf(n, truth[n], rot), heap)
         IN InternAll(names \ {n}, (n :> r.v) @@ g, r.heap)
S0 ==
    LET a == Intern(ArrVals[arrIx], <<>>)
        r == InternAll(TruthVars, ("arr" :> a.v) @@ ("probe" :> HostFn("probe")), a.heap)
    IN InitState(r.g, r.heap, 3000, FALSE, TRUE, <<>>)

NoCnt(log) == [i \in 1..Len(log) |-> [ev |-> log[i].ev, args |-> log[i].args]]
Reserved == ReservedNames(40)
ObsGlobals(s) == [n \in DOMAIN s.g \ Reserved |-> Extern(s.g[n], s.heap)]
SameGlobals(a, b) ==
    LET ga == ObsGlobals(a)  gb == ObsGlobals(b) IN
    DOMAIN ga = DOMAIN gb /\ \A n \in DOMAIN ga : Matches(ga[n], gb[n])

Equiv ==
    LET a == ExecBlock(prog, 1, NoLoc, S0, 100)
        code == Lower(prog)
        b == Run(code, 1, NoLoc, S0, 100)
    IN \/ a.st.exc = "limit"                 \* the structured run itself does not end within the bound
       \/ /\ a.st.exc = "" /\ b.st.exc = ""
          /\ Matches(Extern(IF a.sig = "ret" THEN a.v ELSE Null, a.st.heap), Extern(b.ret, b.st.heap))
          /\ NoCnt(a.st.log) = NoCnt(b.st.log)
          /\ SameGlobals(a.st, b.st)
       \* both end with the same documented error at the same point (a function defined in a branch not taken)
       \/ /\ a.st.exc = "undefined" /\ b.st.exc = "undefined" /\ a.st.excArg = b.st.excArg
          /\ NoCnt(a.st.log) = NoCnt(b.st.log)
          /\ SameGlobals(a.st, b.st)
WF == WellFormed(Lower(prog), AllLabels(Lower(prog)))
\* no structured program of the family may be cut off by the bound (vacuity guard)
Terminating == ExecBlock(prog, 1, NoLoc, S0, 100).st.exc \in {"", "undefined"}

EmitProg == (truth = AllT /\ rot = 0 /\ arrIx = 1) => PrintT(<<"PROG", ToJson(prog)>>)
PrintInputs == PrintT(<<"INPUTS", ToJson([truthy |-> TruthyVals, falsy |-> FalsyVals, arrs |-> ArrVals, vars |-> VarList])>>)
=============================================================================
