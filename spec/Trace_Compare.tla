---------------------------- MODULE Trace_Compare ----------------------------
(* C11 on recorded results of the real code.
   kind "matrix"   vals (tree values), m[i][j] = systemCompare(vals[i], vals[j]) recorded for all i, j;
                   rows from..to are judged in this case: every entry must equal Compare(vals[i], vals[j]),
                   and the laws are RE-CHECKED on the recorded matrix itself (so a law violation is reported
                   even where specification and code agree on a wrong entry)
   kind "ops"      the six relational operators are the sign tests of Compare
   kind "sorted"   arraySort: an ordered permutation
   kind "datasort" dataSort(rows, fields with directions): an ordered permutation, stable
   kind "minmax"   mathMin / mathMax return a least / greatest argument
   kind "indexof"  arrayIndexOf / arrayLastIndexOf: first / last index with Compare = 0             *)
EXTENDS BareValues, Json, IOUtils
Cases == JsonDeserialize(IOEnv.CASES)
VARIABLES tid, verdict
vars == <<tid, verdict>>
C == Cases[tid]
Cmp(a, b) == Compare(a, b, <<>>)

(* permutation: same multiset under structural equality *)
ValEq(a, b) == a.t = b.t /\ a = b
CountEq(s, x) == Cardinality({ i \in 1..Len(s) : ValEq(s[i], x) })
IsPerm(a, b) == Len(a) = Len(b) /\ \A i \in 1..Len(a) : CountEq(a, a[i]) = CountEq(b, a[i])

MatrixLaw ==
    LET n == Len(C.vals)  m == C.m IN
    IF \E i \in C.from..C.to : \E j \in 1..n : m[i][j] # Cmp(C.vals[i], C.vals[j]) THEN
        LET i == CHOOSE i \in C.from..C.to : \E j \in 1..n : m[i][j] # Cmp(C.vals[i], C.vals[j])
            j == CHOOSE j \in 1..n : m[i][j] # Cmp(C.vals[i], C.vals[j])
        IN <<"REJECT", "entry", <<C.vals[i], C.vals[j], "specified", Cmp(C.vals[i], C.vals[j]), "recorded", m[i][j]>>>>
    ELSE IF \E i \in C.from..C.to : m[i][i] # 0 THEN <<"REJECT", "reflexive", "">>
    ELSE IF \E i \in C.from..C.to : \E j \in 1..n : m[i][j] # -m[j][i] THEN <<"REJECT", "antisymmetric", "">>
    ELSE IF \E i \in C.from..C.to : \E j \in 1..n : \E k \in 1..n : m[i][j] <= 0 /\ m[j][k] <= 0 /\ m[i][k] > 0 THEN
        LET i == CHOOSE i \in C.from..C.to : \E j \in 1..n : \E k \in 1..n : m[i][j] <= 0 /\ m[j][k] <= 0 /\ m[i][k] > 0
            j == CHOOSE j \in 1..n : \E k \in 1..n : m[i][j] <= 0 /\ m[j][k] <= 0 /\ m[i][k] > 0
            k == CHOOSE k \in 1..n : m[i][j] <= 0 /\ m[j][k] <= 0 /\ m[i][k] > 0
        IN <<"REJECT", "transitive", <<C.vals[i], C.vals[j], C.vals[k]>>>>
    ELSE <<"ACCEPT">>

OpsLaw ==
    LET c == Cmp(C.a, C.b) IN
    IF C.eq = (c = 0) /\ C.ne = (c # 0) /\ C.lt = (c < 0) /\ C.le = (c <= 0) /\ C.gt = (c > 0) /\ C.ge = (c >= 0) /\ C.cmp = c
    THEN <<"ACCEPT">> ELSE <<"REJECT", "operators-are-not-the-sign-tests", <<C.a, C.b, c>>>>

SortedLaw ==
    IF ~IsPerm(C.inp, C.out) THEN <<"REJECT", "not-a-permutation", <<C.inp, C.out>>>>
    ELSE IF \E i \in 1..(Len(C.out) - 1) : Cmp(C.out[i], C.out[i + 1]) > 0 THEN <<"REJECT", "not-ordered", C.out>>
    ELSE <<"ACCEPT">>

\* row comparator: fields in order, each ascending or descending, missing field = null
Field(row, f) == IF \E p \in 1..Len(row.v) : row.v[p].key = f THEN row.v[CHOOSE p \in 1..Len(row.v) : row.v[p].key = f].val ELSE Null
RECURSIVE RowCmp(_, _, _, _)
RowCmp(x, y, fs, i) ==
    IF i > Len(fs) THEN 0
    ELSE LET c == Cmp(Field(x, fs[i].name), Field(y, fs[i].name)) IN
         IF c # 0 THEN (IF fs[i].desc THEN -c ELSE c) ELSE RowCmp(x, y, fs, i + 1)
DataSortLaw ==
    IF Len(C.inp) # Len(C.out) \/ Len(C.perm) # Len(C.inp) THEN <<"REJECT", "not-a-permutation", "">>
    \* perm[i] = position in the input of output row i (recorded by object identity)
    ELSE IF { C.perm[i] : i \in 1..Len(C.perm) } # 1..Len(C.inp) THEN <<"REJECT", "not-a-permutation", C.perm>>
    ELSE IF \E i \in 1..Len(C.out) : C.out[i] # C.inp[C.perm[i]] THEN <<"REJECT", "rows-altered", "">>
    ELSE IF \E i \in 1..(Len(C.out) - 1) : RowCmp(C.out[i], C.out[i + 1], C.fields, 1) > 0 THEN <<"REJECT", "not-ordered", C.out>>
    ELSE IF \E i \in 1..(Len(C.out) - 1) : RowCmp(C.out[i], C.out[i + 1], C.fields, 1) = 0 /\ C.perm[i] > C.perm[i + 1]
        THEN <<"REJECT", "not-stable", C.perm>>
    ELSE <<"ACCEPT">>

MinMaxLaw ==
    IF C.args = <<>> THEN (IF C.out.t = "null" THEN <<"ACCEPT">> ELSE <<"REJECT", "empty", C.out>>)
    ELSE IF ~\E i \in 1..Len(C.args) : ValEq(C.args[i], C.out) THEN <<"REJECT", "not-an-argument", C.out>>
    ELSE IF C.which = "min" /\ \E i \in 1..Len(C.args) : Cmp(C.out, C.args[i]) > 0 THEN <<"REJECT", "not-least", C.out>>
    ELSE IF C.which = "max" /\ \E i \in 1..Len(C.args) : Cmp(C.out, C.args[i]) < 0 THEN <<"REJECT", "not-greatest", C.out>>
    ELSE <<"ACCEPT">>

IndexOfLaw ==
    LET hits == { i \in (C.start + 1)..Len(C.arr) : Cmp(C.arr[i], C.val) = 0 }
        lhits == { i \in 1..Len(C.arr) : Cmp(C.arr[i], C.val) = 0 }
        want == IF C.which = "first" THEN (IF hits = {} THEN -1 ELSE (CHOOSE i \in hits : \A x \in hits : i <= x) - 1)
                ELSE (IF lhits = {} THEN -1 ELSE (CHOOSE i \in lhits : \A x \in lhits : i >= x) - 1)
    IN IF C.out = want THEN <<"ACCEPT">> ELSE <<"REJECT", "index", <<want, C.out>>>>

Law == CASE C.kind = "matrix" -> MatrixLaw [] C.kind = "ops" -> OpsLaw [] C.kind = "sorted" -> SortedLaw
         [] C.kind = "datasort" -> DataSortLaw [] C.kind = "minmax" -> MinMaxLaw [] C.kind = "indexof" -> IndexOfLaw
Init == tid \in 1..Len(Cases) /\ verdict = "open"
Next == /\ verdict = "open" /\ verdict' = Law[1] /\ PrintT(<<"V", tid>> \o Law) /\ UNCHANGED tid
Spec == Init /\ [][Next]_vars
=============================================================================
