---------------------------- MODULE MC_Expr ----------------------------
(* C03 leg A: design-level checks of expression evaluation.
   (1) Operator matrix: every binary / unary operator applied to every pair of representative
       values of all nine types yields a BareScript value (closure), relational operators are
       the sign tests of Compare, && and || return one of their operands.
   (2) Effect order: expression trees to depth 2 whose leaves are effect-logging probes numbered
       in source order: the log is strictly increasing (each sub-expression at most once, left to
       right), complete when the tree has no lazy operator, and a lazy operator skips exactly the
       leaves of the operand it does not need.                                              *)
EXTENDS BareCore, Json

BinOps == {"+", "-", "*", "/", "%", "**", "==", "!=", "<", "<=", ">", ">=", "&&", "||"}
Reps == <<
    Null, Bool(TRUE), Bool(FALSE), IntV(0), IntV(1), IntV(-1), IntV(2), Q(1, 2), Q(-5, 2),
    [t |-> "num", f |-> "d", s |-> 1, ds |-> <<1>>, e |-> 301],
    [t |-> "num", f |-> "d", s |-> -1, ds |-> <<1, 2, 3, 4, 5, 6, 7, 8, 9, 0, 1, 2>>, e |-> 12],
    Str(<<>>), Str(<<97>>), Str(<<97, 98>>), Str(<<49>>),
    Dt(738885, 0), Dt(738885, 1),
    [t |-> "array", v |-> <<>>], [t |-> "array", v |-> <<IntV(1)>>], [t |-> "array", v |-> <<IntV(1), IntV(2)>>],
    [t |-> "object", v |-> <<>>], [t |-> "object", v |-> <<[key |-> <<97>>, val |-> IntV(1)]>>],
    [t |-> "fn", f |-> "lib", name |-> "arrayNew"], Regex >>

VARIABLES mode, op, i, j, tree
vars == <<mode, op, i, j, tree>>

St0 == InitState(("probe" :> HostFn("probe")), <<>>, 0, FALSE, FALSE, <<>>)
ValueOK(v) == v.t \in {"null", "bool", "num", "str", "dt", "array", "object", "fn", "regex", "wild"}

(* ---- operator matrix ---- *)
Operand(k, heap) == Intern(Reps[k], heap)
MatrixResult ==
    LET a == Operand(i, <<>>)
        b == Operand(j, a.heap)
    IN [a |-> a.v, b |-> b.v, heap |-> b.heap, r |-> BinOp(op, a.v, b.v, b.heap, 0)]
MatrixOK ==
    mode = "matrix" =>
        LET m == MatrixResult IN
        /\ m.r.t # "skip" /\ ValueOK(m.r)
        /\ (op \in {"==", "!=", "<", "<=", ">", ">="} => m.r.t = "bool")
        /\ (op = "==" => m.r.v = (Compare(m.a, m.b, m.heap) = 0))
        /\ (op = "<" => m.r.v = (Compare(m.a, m.b, m.heap) < 0))
        /\ (op = ">=" => m.r.v = ~(Compare(m.a, m.b, m.heap) < 0))
        \* unsupported operand types yield null
        /\ (op \in {"*", "/", "%", "**"} /\ (m.a.t # "num" \/ m.b.t # "num") => m.r = Null)
        /\ (op = "-" /\ ~(m.a.t = "num" /\ m.b.t = "num") /\ ~(m.a.t = "dt" /\ m.b.t = "dt") => m.r = Null)
        /\ (op = "+" /\ m.a.t = "bool" /\ m.b.t \in {"bool", "num", "null"} => m.r = Null)

(* ---- effect order ---- *)
LeafVals == <<IntV(0), IntV(1), Str(<<97>>)>>
Leaf(id, v) == [k |-> "call", name |-> "probe", noargs |-> FALSE,
                args |-> <<[k |-> "num", v |-> IntV(id)], (IF v.t = "str" THEN [k |-> "str", v |-> v.v] ELSE [k |-> "num", v |-> v])>>]
TreeOps == {"+", "<", "&&", "||"}
\* shapes with leaf placeholders; ids assigned in source order by Number
RECURSIVE Shapes(_)
Shapes(d) ==
    IF d = 0 THEN { [k |-> "leaf", v |-> x] : x \in 1..Len(LeafVals) }
    ELSE Shapes(0)
         \cup { [k |-> "bin", op |-> o, l |-> l, r |-> r] : o \in TreeOps, l \in Shapes(d - 1), r \in Shapes(d - 1) }
         \cup { [k |-> "un", op |-> "!", e |-> e] : e \in Shapes(d - 1) }
RootShapes(d) == Shapes(d) \cup { [k |-> "if", c |-> c, a |-> a, b |-> b] : c \in Shapes(d - 1), a \in Shapes(0), b \in Shapes(0) }
RECURSIVE Number(_, _)
Number(s, next) ==      \* -> [e, next]
    CASE s.k = "leaf" -> [e |-> Leaf(next, LeafVals[s.v]), next |-> next + 1]
      [] s.k = "un"   -> LET r == Number(s.e, next) IN [e |-> [k |-> "un", op |-> s.op, e |-> r.e], next |-> r.next]
      [] s.k = "bin"  -> LET l == Number(s.l, next)  r == Number(s.r, l.next) IN
                         [e |-> [k |-> "bin", op |-> s.op, l |-> l.e, r |-> r.e], next |-> r.next]
      [] s.k = "if"   -> LET c == Number(s.c, next)  a == Number(s.a, c.next)  b == Number(s.b, a.next) IN
                         [e |-> [k |-> "call", name |-> "if", noargs |-> FALSE, args |-> <<c.e, a.e, b.e>>], next |-> b.next]
RECURSIVE Lazy(_)
Lazy(s) == CASE s.k = "leaf" -> FALSE
             [] s.k = "un" -> Lazy(s.e)
             [] s.k = "bin" -> s.op \in {"&&", "||"} \/ Lazy(s.l) \/ Lazy(s.r)
             [] OTHER -> TRUE
Ids(log) == [x \in 1..Len(log) |-> log[x].args[1].n]
OrderOK ==
    mode = "tree" =>
        LET nb == Number(tree, 1)
            r == Eval(nb.e, NoLoc, St0, <<100, TRUE>>)
            ids == Ids(r.st.log)
        IN /\ r.st.exc = ""
           /\ \A x \in 1..(Len(ids) - 1) : ids[x] < ids[x + 1]
           /\ (~Lazy(tree) => ids = [x \in 1..(nb.next - 1) |-> x])
           /\ Len(ids) >= 1 /\ ids[1] = 1
           /\ ValueOK(r.v)
           \* && / || at the root return an operand: the value logged by the last probe that ran
           /\ (tree.k = "bin" /\ tree.op \in {"&&", "||"} /\ tree.l.k = "leaf" /\ tree.r.k = "leaf"
                 => r.v \in { LeafVals[tree.l.v], LeafVals[tree.r.v] })
           /\ (tree.k = "if" => Len(ids) = (Number(tree.c, 1).next - 1) + 1 \/ Lazy(tree.c))

CONSTANT Depth
Init == \/ mode = "matrix" /\ op \in BinOps /\ i \in 1..Len(Reps) /\ j \in 1..Len(Reps) /\ tree = [k |-> "none"]
        \/ mode = "tree" /\ op = "" /\ i = 0 /\ j = 0 /\ tree \in RootShapes(Depth)
Next == UNCHANGED vars
Spec == Init /\ [][Next]_vars
PrintReps == PrintT(<<"REPS", ToJson(Reps)>>)
PrintAliases == PrintT(<<"ALIASES", ToJson(ExprAliases)>>)
\* generation (leg B): every numbered tree of the family, as JSON
EmitTree == mode = "tree" => PrintT(<<"TREE", ToJson(Number(tree, 1).e)>>)
=============================================================================
