---------------------------- MODULE Trace_LintExact ----------------------------
(* X04: the warnings reported by the REAL lint_script for a model (parsed into [kind, scope, name, i1, i2]) must be,
   as a bag, exactly the warnings BareLintExact specifies.  One verdict line per case.                    *)
EXTENDS BareLintExact, Json, IOUtils, TLC
Cases == JsonDeserialize(IOEnv.CASES)
VARIABLES tid, verdict
vars == <<tid, verdict>>
C == Cases[tid]
M == C.model
Obs == C.warnings
ObsSet == { Obs[j] : j \in 1..Len(Obs) }
ObsCount(w) == Cardinality({ j \in 1..Len(Obs) : Obs[j] = w })
Law ==
    IF C.raised # "" THEN <<"REJECT", "lint_script-raised", C.raised>>
    ELSE LET all == SpecSupport(M) \cup ObsSet
             bad == { w \in all : SpecCount(M, w) # ObsCount(w) } IN
         IF bad = {} THEN <<"ACCEPT">>
         ELSE LET w == CHOOSE w \in bad : TRUE IN
              <<"REJECT", IF SpecCount(M, w) > ObsCount(w) THEN "warning-not-reported" ELSE "warning-not-specified",
                <<w, "specified", SpecCount(M, w), "reported", ObsCount(w)>>>>
Init == tid \in 1..Len(Cases) /\ verdict = "open"
Next == /\ verdict = "open" /\ verdict' = Law[1] /\ PrintT(<<"V", tid>> \o Law) /\ UNCHANGED tid
Spec == Init /\ [][Next]_vars
=============================================================================
