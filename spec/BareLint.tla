---------------------------- MODULE BareLint ----------------------------
(* C18: the lint rules as sets over a jump-level model, and the edits that act on a warning.
   Scopes: "" (global statement list) and each function statement (identified by its index).
     UnknownLabels(code)  label names a jump of the scope targets without a definition in the scope
     RedefLabels(code)    label names defined more than once in the scope
     UnusedLabels(code)   label names defined in the scope and never targeted by a jump of the scope
     PointlessAt(code)    indices of expression statements (no assignment) without a call in them
     UnusedVars(f)        names assigned in the function body, never read, not parameters
     UnusedArgs(f)        parameters never read in the body
   Edits: DeleteStmt, RenameAssigned, RenameArg.                                                  *)
EXTENDS BareCore

RECURSIVE ExprNames(_), Pointless(_)
ExprNames(e) ==
    CASE e.k = "var" -> {e.v}
      [] e.k \in {"grp", "un"} -> ExprNames(e.e)
      [] e.k = "bin" -> ExprNames(e.l) \cup ExprNames(e.r)
      [] e.k = "call" -> {e.name} \cup UNION { ExprNames(e.args[i]) : i \in 1..Len(e.args) }
      [] OTHER -> {}
Pointless(e) ==
    CASE e.k = "call" -> FALSE
      [] e.k = "bin" -> Pointless(e.l) /\ Pointless(e.r)
      [] e.k \in {"un", "grp"} -> Pointless(e.e)
      [] OTHER -> TRUE
StmtUses(s) ==
    CASE s.k = "expr" -> ExprNames(s.e)
      [] s.k \in {"jump", "return"} -> IF s.hasE THEN ExprNames(s.e) ELSE {}
      [] OTHER -> {}
Uses(code) == UNION { StmtUses(code[i]) : i \in 1..Len(code) }
Assigned(code) == { code[i].name : i \in { j \in 1..Len(code) : code[j].k = "expr" /\ code[j].name # "" } }
LabelDefs(code) == { code[i].v : i \in { j \in 1..Len(code) : code[j].k = "label" } }
LabelCount(code, l) == Cardinality({ i \in 1..Len(code) : code[i].k = "label" /\ code[i].v = l })
JumpTargets(code) == { code[i].label : i \in { j \in 1..Len(code) : code[j].k = "jump" } }
UnknownLabels(code) == JumpTargets(code) \ LabelDefs(code)
RedefLabels(code) == { l \in LabelDefs(code) : LabelCount(code, l) > 1 }
UnusedLabels(code) == LabelDefs(code) \ JumpTargets(code)
PointlessAt(code) == { i \in 1..Len(code) : code[i].k = "expr" /\ code[i].name = "" /\ Pointless(code[i].e) }
ArgSet(f) == { f.args[i] : i \in 1..Len(f.args) }
UnusedVars(f) == Assigned(f.body) \ Uses(f.body)        \* also a parameter that is re-assigned but never read
UnusedArgs(f) == ArgSet(f) \ Uses(f.body)
DupArgs(f) == { a \in ArgSet(f) : Cardinality({ i \in 1..Len(f.args) : f.args[i] = a }) > 1 }
FunctionNames(code) == { code[i].name : i \in { j \in 1..Len(code) : code[j].k = "function" } }
RedefFunctions(code) == { n \in FunctionNames(code) : Cardinality({ i \in 1..Len(code) : code[i].k = "function" /\ code[i].name = n }) > 1 }

(* edits *)
DeleteStmt(code, i) == SubSeq(code, 1, i - 1) \o SubSeq(code, i + 1, Len(code))
DeleteLabel(code, l) == SelectSeq(code, LAMBDA s : ~(s.k = "label" /\ s.v = l))
RenameAssigned(code, v, w) == [i \in 1..Len(code) |-> IF code[i].k = "expr" /\ code[i].name = v THEN [code[i] EXCEPT !.name = w] ELSE code[i]]
RenameArg(f, a, w) == [f EXCEPT !.args = [i \in 1..Len(f.args) |-> IF f.args[i] = a THEN w ELSE f.args[i]]]
=============================================================================
