---------------------------- MODULE BareNumText ----------------------------
(* C13: the text layer BareScript adds around CPython's shortest round-trip repr.
   ReprText(s, ds, e)   Python's repr(float) layout for the decimal  s * 0.ds * 10^e
                        (fixed notation for scientific exponent -4..15 with ".0" for integral values)
   Cleanup(t)           strip a trailing "." followed only by zeros (regex \.0*$)
   DecOfText(t)         the decimal a numeric text denotes - the grammar accepted by numberParseFloat:
                        optional blanks, optional sign, digits with an optional fraction (or a fraction alone),
                        optional exponent [eE] with optional sign, optional blanks
   LiteralOK(t)         the BareScript source literal grammar: sign?, digits, optional fraction, optional e with SIGNED exponent
   IntText(t, radix)    [+-]? digits of the radix, for numberParseInt                          *)
EXTENDS BareJson

ReprText(s, ds, e) ==
    LET x == e - 1
        k == Len(ds)
        sign == IF s < 0 THEN <<cMinus>> ELSE <<>>
    IN IF x >= -4 /\ x < 16 THEN
            IF x >= 0 THEN
                IF k <= x + 1 THEN sign \o DigitChars(ds \o Zeros(x + 1 - k)) \o <<cDot, cZero>>
                ELSE sign \o DigitChars(SubSeq(ds, 1, x + 1)) \o <<cDot>> \o DigitChars(SubSeq(ds, x + 2, k))
            ELSE sign \o <<cZero, cDot>> \o DigitChars(Zeros(-x - 1) \o ds)
       ELSE sign \o DigitChars(<<ds[1]>>)
              \o (IF k > 1 THEN <<cDot>> \o DigitChars(SubSeq(ds, 2, k)) ELSE <<>>)
              \o <<cE, IF x < 0 THEN cMinus ELSE cPlus>>
              \o (IF Abs(x) < 10 THEN <<cZero>> ELSE <<>>) \o NatText(Abs(x))
RECURSIVE StripZerosEnd(_)
StripZerosEnd(t) == IF t # <<>> /\ t[Len(t)] = cZero THEN StripZerosEnd(SubSeq(t, 1, Len(t) - 1)) ELSE t
Cleanup(t) == LET z == StripZerosEnd(t) IN IF z # <<>> /\ z[Len(z)] = cDot THEN SubSeq(z, 1, Len(z) - 1) ELSE t

IsWsP(c) == c \in {9, 10, 11, 12, 13, 28, 29, 30, 31, 32, 133, 160}
RECURSIVE LTrim(_), RTrim(_)
LTrim(t) == IF t # <<>> /\ IsWsP(Head(t)) THEN LTrim(Tail(t)) ELSE t
RTrim(t) == IF t # <<>> /\ IsWsP(t[Len(t)]) THEN RTrim(SubSeq(t, 1, Len(t) - 1)) ELSE t
\* general decimal text: [ok, s, ds, e, dot, exp, lowerE, expSigned]
DecOfText(t0) ==
    LET t == RTrim(LTrim(t0))
        hasSign == t # <<>> /\ t[1] \in {cPlus, cMinus}
        neg == hasSign /\ t[1] = cMinus
        a == IF hasSign THEN 2 ELSE 1
        b == DigitsEnd(t, a)
        hasDot == b <= Len(t) /\ t[b] = cDot
        c == IF hasDot THEN DigitsEnd(t, b + 1) ELSE b
        hasExp == c <= Len(t) /\ t[c] \in {101, 69}
        expSigned == hasExp /\ c + 1 <= Len(t) /\ t[c + 1] \in {cPlus, cMinus}
        es == IF expSigned THEN c + 2 ELSE c + 1
        ee == IF hasExp THEN DigitsEnd(t, es) ELSE c
        nInt == b - a
        nFrac == IF hasDot THEN c - b - 1 ELSE 0
        bad == [ok |-> FALSE, s |-> 1, ds |-> <<>>, e |-> 0, dot |-> FALSE, exp |-> FALSE, lowerE |-> FALSE, expSigned |-> FALSE, intDigits |-> 0]
    IN IF t = <<>> \/ nInt + nFrac = 0 \/ (hasExp /\ ee = es) \/ ee # Len(t) + 1 THEN bad
       ELSE LET ip == [k \in 1..nInt |-> t[a + k - 1] - 48]
                fp == [k \in 1..nFrac |-> t[b + k] - 48]
                all == ip \o fp
                lead == Len(all) - Len(StripLead(all))
                ds == StripTrail(StripLead(all))
                ex == IF hasExp THEN (IF expSigned /\ t[c + 1] = cMinus THEN -ExpVal(t, es, ee) ELSE ExpVal(t, es, ee)) ELSE 0
            IN [ok |-> TRUE, s |-> IF neg THEN -1 ELSE 1, ds |-> ds, e |-> IF ds = <<>> THEN 0 ELSE nInt - lead + ex,
                dot |-> hasDot, exp |-> hasExp, lowerE |-> hasExp /\ t[c] = 101, expSigned |-> expSigned, intDigits |-> nInt]
\* source literal: no surrounding blanks, at least one integer digit, lower-case e with a signed exponent
LiteralOK(t) == LET d == DecOfText(t) IN
    d.ok /\ t = RTrim(LTrim(t)) /\ d.intDigits >= 1 /\ (d.exp => d.lowerE /\ d.expSigned)

DigitVal(c) == IF c >= 48 /\ c <= 57 THEN c - 48 ELSE IF c >= 97 /\ c <= 122 THEN c - 87 ELSE IF c >= 65 /\ c <= 90 THEN c - 55 ELSE 99
\* [ok, s, digits (values, leading zeros stripped)]
IntOfText(t0, radix) ==
    LET t == RTrim(LTrim(t0))
        hasSign == t # <<>> /\ t[1] \in {cPlus, cMinus}
        a == IF hasSign THEN 2 ELSE 1
    IN IF a > Len(t) \/ \E k \in a..Len(t) : DigitVal(t[k]) >= radix THEN [ok |-> FALSE, s |-> 1, ds |-> <<>>]
       ELSE [ok |-> TRUE, s |-> IF hasSign /\ t[1] = cMinus THEN -1 ELSE 1, ds |-> StripLead([k \in 1..(Len(t) - a + 1) |-> DigitVal(t[a + k - 1])])]
=============================================================================
