---------------------------- MODULE Trace_Struct ----------------------------
(* C01 on recorded executions: parse_script + execute_script of the SOURCE TEXT of a structured
   program must give the result, the probe / log sequence and the final globals of the
   structured big-step meaning ExecBlock (reference layer; Dev = {}).
   With Dev # {} the trace is instead judged against the implementation-shaped layer
   Run(Lower(prog)) with exactly those deviations switched on - used only to attribute an
   already rejected trace to an open known finding.
   Diagnostic (never a verdict): whether the real parser's model equals Lower(prog).       *)
EXTENDS BareLower, Json, IOUtils, TreeEq

Cases == JsonDeserialize(IOEnv.CASES)
VARIABLES tid, verdict
vars == <<tid, verdict>>
C == Cases[tid]
RangeOf(sq) == { sq[i] : i \in 1..Len(sq) }

RECURSIVE InternGlobals(_, _, _, _)
InternGlobals(gs, i, g, heap) ==
    IF i > Len(gs) THEN [g |-> g, heap |-> heap]
    ELSE LET r == Intern(gs[i].val, heap) IN InternGlobals(gs, i + 1, (gs[i].name :> r.v) @@ g, r.heap)
S0 == LET ig == InternGlobals(C.globals, 1, <<>>, <<>>) IN
      InitState(ig.g, ig.heap, C.fin.cnt + 5, C.dbg, TRUE, C.names)   \* structured ticks <= jump-level statements

EvMatch(e, o) ==
    /\ e.ev = o.ev
    /\ CASE e.ev = "probe" -> MatchesSeq(e.args, o.args)
         [] e.ev = "log" -> e.text = o.text
         [] e.ev = "dbgfail" -> e.name = o.name
         [] OTHER -> FALSE
LogOK(log) == Len(log) = Len(C.trace) /\ \A i \in 1..Len(log) : EvMatch(log[i], C.trace[i])
PrefixCompatible(log) == \A i \in 1..Min2(Len(log), Len(C.trace)) : EvMatch(log[i], C.trace[i])
FirstDiff(log) == IF \E i \in 1..Min2(Len(log), Len(C.trace)) : ~EvMatch(log[i], C.trace[i])
                  THEN CHOOSE i \in 1..Min2(Len(log), Len(C.trace)) : ~EvMatch(log[i], C.trace[i])
                                /\ \A j \in 1..(i - 1) : EvMatch(log[j], C.trace[j])
                  ELSE Min2(Len(log), Len(C.trace)) + 1
Reserved == RangeOf(C.reserved)
GlobalsOK(s) ==
    LET names == { n \in DOMAIN s.g \ Reserved : s.g[n] # LibFn(n) } IN
    /\ \A n \in names : n \in DOMAIN C.fin.globals /\ Matches(Extern(s.g[n], s.heap), C.fin.globals[n])
    /\ \A n \in DOMAIN C.fin.globals : n \in names

Outcome ==      \* [st, ret]
    IF Dev = {} THEN
        LET a == ExecBlock(C.prog, 1, NoLoc, S0, 200) IN [st |-> a.st, ret |-> IF a.sig = "ret" THEN a.v ELSE Null]
    ELSE LET b == Run(Lower(C.prog), 1, NoLoc, [S0 EXCEPT !.lim = C.fin.cnt + 1], 200) IN [st |-> b.st, ret |-> b.ret]

Judge ==
    LET o == Outcome  s == o.st IN
    IF C.fin.status \notin {"done", "limit", "label", "undefined"} THEN <<"REJECT", "escaped", C.fin.status>>
    ELSE IF s.exc = "skip" THEN <<"SKIP", "outside the exact domain">>
    ELSE IF s.exc = "fuel" THEN <<"SKIP", "evaluation fuel">>
    ELSE IF s.exc = "limit" THEN
        \* the specified run was cut by the evaluation bound: only a program that does not end either
        \* (recorded run aborted by its statement limit) can be explained, and then the two event
        \* sequences must agree on their common prefix
        (IF C.fin.status = "limit" /\ PrefixCompatible(s.log) THEN <<"ACCEPT">>
         ELSE <<"REJECT", "length", "the specified run does not end where the recorded one does">>)
    ELSE IF (IF s.exc = "" THEN "done" ELSE s.exc) # C.fin.status THEN <<"REJECT", "status", <<s.exc, C.fin.status>>>>
    ELSE IF ~LogOK(s.log) THEN
        <<"REJECT", "events", <<FirstDiff(s.log),
            IF FirstDiff(s.log) <= Len(s.log) THEN s.log[FirstDiff(s.log)] ELSE "none",
            IF FirstDiff(s.log) <= Len(C.trace) THEN C.trace[FirstDiff(s.log)] ELSE "none">>>>
    ELSE IF s.exc = "" /\ ~Matches(Extern(o.ret, s.heap), C.fin.ret) THEN <<"REJECT", "result", <<Extern(o.ret, s.heap), C.fin.ret>>>>
    ELSE IF s.exc = "" /\ ~GlobalsOK(s) THEN <<"REJECT", "globals", C.fin.globals>>
    ELSE <<"ACCEPT">>

\* diagnostic only
LoweringConformant == ModelEq(Lower(C.prog), C.parsed)

Init == tid \in 1..Len(Cases) /\ verdict = "open"
Next == /\ verdict = "open"
        /\ LET j == Judge IN
           /\ verdict' = j[1]
           /\ PrintT(<<"V", tid>> \o j)
           /\ (j[1] = "ACCEPT" /\ Dev = {} /\ ~LoweringConformant => PrintT(<<"NONCONFORMANT-LOWERING", tid>>))
        /\ UNCHANGED tid
Spec == Init /\ [][Next]_vars
=============================================================================
