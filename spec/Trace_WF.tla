---------------------------- MODULE Trace_WF ----------------------------
(* C07 on real parser output: the model returned by parse_script for a structured program is
   WellFormed - in every scope (global statement list, each function body) every jump to a
   reserved-prefix label targets a label defined exactly once in that scope and every
   reserved-prefix label is the target of a jump - it is accepted by the published schema
   (validate_script) and lint_script reports no unknown / unused / redefined label.
   Diagnostic: does the model equal Lower(prog) literally?                                  *)
EXTENDS BareLower, Json, IOUtils, TreeEq
Cases == JsonDeserialize(IOEnv.CASES)
VARIABLES tid, verdict
vars == <<tid, verdict>>
C == Cases[tid]
RangeOf(sq) == { sq[i] : i \in 1..Len(sq) }
Law ==
    IF ~C.parsedOK THEN <<"REJECT", "parser-rejected-structured-program", C.error>>
    ELSE IF ~WellFormed(C.parsed, RangeOf(C.reserved)) THEN <<"REJECT", "not-well-formed", "">>
    ELSE IF ~C.schemaValid THEN <<"REJECT", "schema", C.error>>
    ELSE IF C.labelWarnings # <<>> THEN <<"REJECT", "lint-label-warning", C.labelWarnings>>
    ELSE <<"ACCEPT">>
Init == tid \in 1..Len(Cases) /\ verdict = "open"
Next == /\ verdict = "open"
        /\ verdict' = Law[1]
        /\ PrintT(<<"V", tid>> \o Law)
        /\ (Law[1] = "ACCEPT" /\ C.hasProg /\ ~ModelEq(Lower(C.prog), C.parsed) => PrintT(<<"NONCONFORMANT-LOWERING", tid>>))
        /\ UNCHANGED tid
Spec == Init /\ [][Next]_vars
=============================================================================
