---------------------------- MODULE MC_NumText ----------------------------
(* C13 leg A: for every decimal with <= MaxDigits significant digits and every exponent of the double
   range, the clean-up applied to Python's repr layout keeps the denotation, removes the fraction
   exactly for integral values in fixed notation, agrees with the direct layout DecimalText, and for
   non-negative numbers yields a valid source literal with the same denotation.                 *)
EXTENDS BareNumText
CONSTANTS MaxDigits, ENeg, EHi   \* exponents -ENeg .. EHi (a cfg file cannot hold a negative literal)
DigitSeqs == UNION { { ds \in [1..k -> 0..9] : ds[1] # 0 /\ ds[k] # 0 } : k \in 1..MaxDigits }
VARIABLES s, ds, e
vars == <<s, ds, e>>
Init == s \in {1, -1} /\ ds \in DigitSeqs /\ e \in (-ENeg)..EHi
Next == UNCHANGED vars
Spec == Init /\ [][Next]_vars
T == ReprText(s, ds, e)
CT == Cleanup(T)
Integral == e >= Len(ds)
Fixed == e - 1 >= -4 /\ e - 1 < 16
SameDenotation == LET d == DecOfText(CT) IN d.ok /\ d.s = s /\ d.ds = ds /\ d.e = e
ReprDenotes == LET d == DecOfText(T) IN d.ok /\ d.s = s /\ d.ds = ds /\ d.e = e
NoFractionForIntegers == (Integral /\ Fixed) => ~DecOfText(CT).dot
FractionKept == ~Integral => CT = T
AgreesWithDirectLayout == CT = DecimalText(s, ds, e)
LiteralForNonNegative == s > 0 => LiteralOK(CT)
JsonNumberToken == LET r == ParseJson(CT) IN r.ok /\ r.v.t = "jnum" /\ r.v.ds = ds /\ r.v.e = e /\ r.v.s = s
=============================================================================
