---------------------------- MODULE Trace_NumText ----------------------------
(* C13 on the real code.
   kind "print"  a finite number x (abstract decimal read off CPython's repr) and the texts produced by
                 string concatenation, stringNew, arrayJoin and systemLog; the text parsed back by
                 numberParseFloat and, for x >= 0, as a source literal by parse_expression.
   kind "parse"  an arbitrary text through numberParseFloat and numberParseInt(text, radix).       *)
EXTENDS BareNumText, Json, IOUtils
Cases == JsonDeserialize(IOEnv.CASES)
VARIABLES tid, verdict
vars == <<tid, verdict>>
C == Cases[tid]

NonNeg(v) == IF v.f = "q" THEN v.n >= 0 /\ ~("z" \in DOMAIN v) ELSE v.s > 0
PrintLaw ==
    LET t == C.texts[1]  d == DecOfText(t) IN
    IF \E i \in 2..Len(C.texts) : C.texts[i] # t THEN <<"REJECT", "stringification-contexts-disagree", C.texts>>
    ELSE IF ~d.ok THEN <<"REJECT", "text-is-not-a-number", t>>
    ELSE IF ~NumDenotes(d, C.x) THEN <<"REJECT", "text-denotes-another-number", <<t, C.x>>>>
    ELSE IF t # Cleanup(t) THEN <<"REJECT", "trailing-zero-fraction", t>>
    ELSE IF IsIntegralNum(C.x) /\ ~d.exp /\ d.dot THEN <<"REJECT", "integral-value-printed-with-a-fraction", t>>
    ELSE IF ~Matches(C.x, C.back) THEN <<"REJECT", "numberParseFloat-of-the-text-differs", <<C.x, C.back>>>>
    \* "exactly x" includes the sign of zero (-0 is in the property's domain): -0 prints as "-0" and comes back as -0
    ELSE IF C.x.f = "q" /\ C.x.n = 0 /\ C.back.t = "num" /\ (("z" \in DOMAIN C.x) # ("z" \in DOMAIN C.back))
        THEN <<"REJECT", "sign-of-zero-lost", <<t, C.x, C.back>>>>
    ELSE IF NonNeg(C.x) /\ ~LiteralOK(t) THEN <<"REJECT", "text-is-not-a-source-literal", t>>
    ELSE IF NonNeg(C.x) /\ ~Matches(C.x, C.lit) THEN <<"REJECT", "source-literal-denotes-another-number", <<C.x, C.lit>>>>
    ELSE <<"ACCEPT">>

Liberal(t) == \E i \in 1..Len(t) : t[i] = 95 \/ t[i] >= 128
PrefixedInt(t0) == LET t == RTrim(LTrim(t0))
                       a == IF t # <<>> /\ t[1] \in {cPlus, cMinus} THEN 2 ELSE 1
                   IN a + 1 <= Len(t) /\ t[a] = cZero /\ t[a + 1] \in {120, 88, 98, 66, 111, 79}
IsNumber(v) == v.t = "num" /\ v.f # "x"
ZeroNum(v) == v.t = "num" /\ v.f = "q" /\ v.n = 0
FloatLaw ==
    LET d == DecOfText(C.text) IN
    IF C.pf.t = "alien" \/ (C.pf.t = "num" /\ C.pf.f = "x") THEN <<"REJECT", "numberParseFloat-returned-a-non-finite-or-alien-value", C.pf>>
    ELSE IF Liberal(C.text) THEN <<"ACCEPT">>
    ELSE IF ~d.ok THEN (IF C.pf.t = "null" THEN <<"ACCEPT">> ELSE <<"REJECT", "not-a-number-text-parsed", <<C.text, C.pf>>>>)
    ELSE IF d.ds = <<>> THEN (IF ZeroNum(C.pf) THEN <<"ACCEPT">> ELSE <<"REJECT", "zero-text", <<C.text, C.pf>>>>)
    ELSE IF d.e > 310 THEN (IF C.pf.t = "null" THEN <<"ACCEPT">> ELSE <<"REJECT", "overflowing-text-must-give-null", <<C.text, C.pf>>>>)
    ELSE IF d.e >= 308 THEN (IF C.pf.t = "null" \/ IsNumber(C.pf) THEN <<"ACCEPT">> ELSE <<"REJECT", "float-boundary", C.pf>>)
    ELSE IF d.e < -305 \/ Len(d.ds) > 15 THEN (IF IsNumber(C.pf) THEN <<"ACCEPT">> ELSE <<"REJECT", "number-text-not-parsed", <<C.text, C.pf>>>>)
    ELSE IF IsNumber(C.pf) /\ NumDenotes(d, C.pf) THEN <<"ACCEPT">>
    ELSE <<"REJECT", "numberParseFloat-value", <<C.text, C.pf>>>>

RECURSIVE Horner(_, _, _)
Horner(ds, radix, acc) ==       \* -1 when the value leaves the exact domain
    IF ds = <<>> THEN acc
    ELSE IF acc < 0 \/ acc > (Bound \div radix) - 1 THEN -1
    ELSE Horner(Tail(ds), radix, acc * radix + Head(ds))
IntLaw ==
    LET i == IntOfText(C.text, C.radix) IN
    IF C.pi.t = "alien" \/ (C.pi.t = "num" /\ C.pi.f = "x") THEN <<"REJECT", "numberParseInt-returned-a-non-finite-or-alien-value", C.pi>>
    ELSE IF C.radix < 2 \/ C.radix > 36 THEN (IF C.pi.t = "null" THEN <<"ACCEPT">> ELSE <<"REJECT", "invalid-radix-accepted", C.pi>>)
    ELSE IF Liberal(C.text) \/ PrefixedInt(C.text) THEN <<"ACCEPT">>
    ELSE IF ~i.ok THEN (IF C.pi.t = "null" THEN <<"ACCEPT">> ELSE <<"REJECT", "not-an-integer-text-parsed", <<C.text, C.radix, C.pi>>>>)
    ELSE LET n == Horner(i.ds, C.radix, 0) IN
         IF n < 0 THEN (IF IsNumber(C.pi) THEN <<"ACCEPT">> ELSE <<"REJECT", "integer-text-not-parsed", C.pi>>)
         ELSE IF IsNumber(C.pi) /\ C.pi.f = "q" /\ C.pi.d = 1 /\ C.pi.n = i.s * n THEN <<"ACCEPT">>
         ELSE <<"REJECT", "numberParseInt-value", <<C.text, C.radix, i.s * n, C.pi>>>>
ParseLaw == IF FloatLaw[1] # "ACCEPT" THEN FloatLaw ELSE IntLaw
Law == IF C.kind = "print" THEN PrintLaw ELSE ParseLaw
Init == tid \in 1..Len(Cases) /\ verdict = "open"
Next == /\ verdict = "open" /\ verdict' = Law[1] /\ PrintT(<<"V", tid>> \o Law) /\ UNCHANGED tid
Spec == Init /\ [][Next]_vars
=============================================================================
