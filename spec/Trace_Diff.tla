---------------------------- MODULE Trace_Diff ----------------------------
(* C20 on the shipped include library: the value returned by the REAL diffLines (diff.bare parsed and
   executed by the real parser and runtime) for (left, right) must satisfy Reconstructs; every shipped
   include script parses, validates against the schema and is lint-clean.                        *)
EXTENDS BareDiff, Json, IOUtils
Cases == JsonDeserialize(IOEnv.CASES)
VARIABLES tid, verdict
vars == <<tid, verdict>>
C == Cases[tid]
KeyOf(obj, k) == IF \E i \in 1..Len(obj.v) : obj.v[i].key = k THEN obj.v[CHOOSE i \in 1..Len(obj.v) : obj.v[i].key = k].val ELSE [t |-> "missing"]
K_type == <<116, 121, 112, 101>>
K_lines == <<108, 105, 110, 101, 115>>
S_Identical == <<73, 100, 101, 110, 116, 105, 99, 97, 108>>
S_Add == <<65, 100, 100>>
S_Remove == <<82, 101, 109, 111, 118, 101>>
TypeName(cp) == IF cp = S_Identical THEN "Identical" ELSE IF cp = S_Add THEN "Add" ELSE IF cp = S_Remove THEN "Remove" ELSE "?"
WellShaped(d) ==
    /\ d.t = "array"
    /\ \A i \in 1..Len(d.v) :
          /\ d.v[i].t = "object" /\ KeyOf(d.v[i], K_type).t = "str" /\ KeyOf(d.v[i], K_lines).t = "array"
          /\ \A j \in 1..Len(KeyOf(d.v[i], K_lines).v) : KeyOf(d.v[i], K_lines).v[j].t = "str"
Blocks(d) == [i \in 1..Len(d.v) |-> [type |-> TypeName(KeyOf(d.v[i], K_type).v),
                                     lines |-> [j \in 1..Len(KeyOf(d.v[i], K_lines).v) |-> KeyOf(d.v[i], K_lines).v[j].v]]]
\* the lines of an input: a text is split at LF (a preceding CR belongs to the line end); an array of texts
\* contributes the lines of each element in order
RECURSIVE SplitLines(_, _)
SplitLines(t, cur) ==
    IF t = <<>> THEN <<cur>>
    ELSE IF Head(t) = 10 THEN <<IF cur # <<>> /\ cur[Len(cur)] = 13 THEN SubSeq(cur, 1, Len(cur) - 1) ELSE cur>> \o SplitLines(Tail(t), <<>>)
    ELSE SplitLines(Tail(t), Append(cur, Head(t)))
RECURSIVE LinesOfParts(_)
LinesOfParts(ps) == IF ps = <<>> THEN <<>> ELSE SplitLines(Head(ps), <<>>) \o LinesOfParts(Tail(ps))
LinesOf(inp) == IF inp.kind = "text" THEN SplitLines(inp.v, <<>>) ELSE LinesOfParts(inp.v)
Law ==
    IF C.kind = "diff" THEN
        IF C.status # "done" THEN <<"REJECT", "diffLines-did-not-return", C.status>>
        ELSE IF ~WellShaped(C.diffs) THEN <<"REJECT", "result-is-not-a-list-of-difference-blocks", C.diffs>>
        ELSE IF ~Reconstructs(LinesOf(C.left), LinesOf(C.right), Blocks(C.diffs)) THEN <<"REJECT", WhyNot(LinesOf(C.left), LinesOf(C.right), Blocks(C.diffs)), <<LinesOf(C.left), LinesOf(C.right), Blocks(C.diffs)>>>>
        ELSE <<"ACCEPT">>
    ELSE
        IF ~C.parsed THEN <<"REJECT", "shipped-script-does-not-parse", C.file>>
        ELSE IF ~C.schemaValid THEN <<"REJECT", "shipped-script-is-not-schema-valid", C.file>>
        ELSE IF C.lint # <<>> THEN <<"REJECT", "shipped-script-has-lint-warnings", <<C.file, C.lint>>>>
        ELSE <<"ACCEPT">>
Init == tid \in 1..Len(Cases) /\ verdict = "open"
Next == /\ verdict = "open" /\ verdict' = Law[1] /\ PrintT(<<"V", tid>> \o Law) /\ UNCHANGED tid
Spec == Init /\ [][Next]_vars
=============================================================================
