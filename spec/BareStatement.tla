---------------------------- MODULE BareStatement ----------------------------
(* What ONE logical source line is for parse_script, character by character - coverage beyond the listed properties
   (check id X05).  The statement forms are tried in the parser's order; the first that fits decides:

     comment | assignment | function header | endfunction | if | elif | else | endif | while | endwhile | for | endfor |
     break | continue | label | jump / jumpif | return | include '..' | include <..> | (otherwise) expression statement

   Classify(l) returns [k, name, idx, args, last, async, s, e, url]:
     k          the form ("comment", "assign", "function", "endfunction", "if", "elif", "else", "endif", "while",
                "endwhile", "for", "endfor", "break", "continue", "label", "jump", "jumpif", "return", "include",
                "includesys", "expr")
     name       assigned variable / function name / label / jump target / loop value variable
     idx        loop index variable (for v, i in ...), <<>> when absent
     args, last, async   function parameters, trailing "...", async marker
     s, e       the span of the line handed to the expression parser (1-based, inclusive; 0, 0 when the form has none)
     url        include target (escapes resolved)
   Blank = space or tab.  Identifiers are [A-Za-z_][A-Za-z0-9_]* (ASCII; the generator stays inside).              *)
EXTENDS Integers, Sequences

IsSp(c) == c \in {32, 9}
IsAlpha(c) == (c >= 65 /\ c <= 90) \/ (c >= 97 /\ c <= 122) \/ c = 95
IsWord(c) == IsAlpha(c) \/ (c >= 48 /\ c <= 57)
RECURSIVE Sp(_, _)
Sp(l, i) == IF i <= Len(l) /\ IsSp(l[i]) THEN Sp(l, i + 1) ELSE i          \* first index >= i that is not a blank
RECURSIVE WordEnd(_, _)
WordEnd(l, i) == IF i <= Len(l) /\ IsWord(l[i]) THEN WordEnd(l, i + 1) ELSE i
IdEnd(l, i) == IF i <= Len(l) /\ IsAlpha(l[i]) THEN WordEnd(l, i) ELSE 0    \* index after the identifier at i, 0 when there is none
Sub(l, a, b) == IF b < a THEN <<>> ELSE SubSeq(l, a, b)
At(l, i, w) == i + Len(w) - 1 <= Len(l) /\ SubSeq(l, i, i + Len(w) - 1) = w
OnlyBlanksFrom(l, i) == Sp(l, i) > Len(l)
LastNonBlank(l) == IF \E i \in 1..Len(l) : ~IsSp(l[i]) THEN CHOOSE i \in 1..Len(l) : ~IsSp(l[i]) /\ \A j \in (i + 1)..Len(l) : IsSp(l[j]) ELSE 0

KwAsync == <<97, 115, 121, 110, 99>>
KwFunction == <<102, 117, 110, 99, 116, 105, 111, 110>>
KwEndfunction == <<101, 110, 100, 102, 117, 110, 99, 116, 105, 111, 110>>
KwIf == <<105, 102>>
KwElif == <<101, 108, 105, 102>>
KwElse == <<101, 108, 115, 101>>
KwEndif == <<101, 110, 100, 105, 102>>
KwWhile == <<119, 104, 105, 108, 101>>
KwEndwhile == <<101, 110, 100, 119, 104, 105, 108, 101>>
KwFor == <<102, 111, 114>>
KwIn == <<105, 110>>
KwEndfor == <<101, 110, 100, 102, 111, 114>>
KwBreak == <<98, 114, 101, 97, 107>>
KwContinue == <<99, 111, 110, 116, 105, 110, 117, 101>>
KwJump == <<106, 117, 109, 112>>
KwJumpif == <<106, 117, 109, 112, 105, 102>>
KwReturn == <<114, 101, 116, 117, 114, 110>>
KwInclude == <<105, 110, 99, 108, 117, 100, 101>>

None == [k |-> "none", name |-> <<>>, idx |-> <<>>, args |-> <<>>, last |-> FALSE, async |-> FALSE, s |-> 0, e |-> 0, url |-> <<>>]
R(k) == [None EXCEPT !.k = k]

\* a keyword alone on the line
Alone(l, w, k) == LET a == Sp(l, 1) IN IF At(l, a, w) /\ OnlyBlanksFrom(l, a + Len(w)) THEN R(k) ELSE None

Comment(l) == LET a == Sp(l, 1) IN IF a > Len(l) \/ l[a] = 35 THEN R("comment") ELSE None

\* name = expression : at least one character after "="; blanks after "=" are skipped unless nothing else follows
Assign(l) ==
    LET a == Sp(l, 1)  e == IdEnd(l, a)  b == IF e > 0 THEN Sp(l, e) ELSE 0 IN
    IF e > 0 /\ b <= Len(l) /\ l[b] = 61 /\ b + 1 <= Len(l)
    THEN [R("assign") EXCEPT !.name = Sub(l, a, e - 1), !.s = IF Sp(l, b + 1) <= Len(l) THEN Sp(l, b + 1) ELSE Len(l), !.e = Len(l)]
    ELSE None

\* identifier list  a , b , c   starting at p: returns [ok, names, end] (end = index after the last identifier)
RECURSIVE ArgList(_, _, _)
ArgList(l, p, acc) ==
    LET e == IdEnd(l, p) IN
    IF e = 0 THEN [names |-> acc, end |-> 0]
    ELSE LET q == Sp(l, e)
             nxt == IF q <= Len(l) /\ l[q] = 44 THEN Sp(l, q + 1) ELSE 0 IN
         IF nxt > 0 /\ IdEnd(l, nxt) > 0 THEN ArgList(l, nxt, Append(acc, Sub(l, p, e - 1)))
         ELSE [names |-> Append(acc, Sub(l, p, e - 1)), end |-> e]

Function(l) ==
    LET a == Sp(l, 1)
        isAsync == At(l, a, KwAsync) /\ At(l, Sp(l, a + 5), KwFunction)
        f == IF isAsync THEN Sp(l, a + 5) ELSE a
        n0 == f + 8 IN
    IF ~At(l, f, KwFunction) \/ ~(n0 <= Len(l) /\ IsSp(l[n0])) THEN None
    ELSE LET n == Sp(l, n0)  ne == IdEnd(l, n)  op == IF ne > 0 THEN Sp(l, ne) ELSE 0 IN
         IF ne = 0 \/ ~(op <= Len(l) /\ l[op] = 40) THEN None
         ELSE LET p == Sp(l, op + 1)
                  al == IF IdEnd(l, p) > 0 THEN ArgList(l, p, <<>>) ELSE [names |-> <<>>, end |-> p]
                  d == Sp(l, al.end)
                  hasDots == At(l, d, <<46, 46, 46>>)
                  c == Sp(l, IF hasDots THEN d + 3 ELSE al.end)
                  col == IF c <= Len(l) /\ l[c] = 41 THEN Sp(l, c + 1) ELSE 0 IN
              IF col > 0 /\ col <= Len(l) /\ l[col] = 58 /\ OnlyBlanksFrom(l, col + 1)
              THEN [R("function") EXCEPT !.name = Sub(l, n, ne - 1), !.args = al.names, !.last = hasDots, !.async = isAsync]
              ELSE None

\* keyword, at least one blank, something, then ":" as the last non-blank character; the expression is everything between
Header(l, w, k) ==
    LET a == Sp(l, 1)  b == a + Len(w)  c == LastNonBlank(l) IN
    IF At(l, a, w) /\ b <= Len(l) /\ IsSp(l[b]) /\ c > 0 /\ l[c] = 58 /\ c - 1 >= b + 1
    THEN [R(k) EXCEPT !.s = IF Sp(l, b) <= c - 1 THEN Sp(l, b) ELSE c - 1, !.e = c - 1]
    ELSE None

ElseForm(l) == LET a == Sp(l, 1)  c == Sp(l, a + 4) IN
               IF At(l, a, KwElse) /\ c <= Len(l) /\ l[c] = 58 /\ OnlyBlanksFrom(l, c + 1) THEN R("else") ELSE None

ForForm(l) ==
    LET a == Sp(l, 1)  b == a + 3  c == LastNonBlank(l) IN
    IF ~(At(l, a, KwFor) /\ b <= Len(l) /\ IsSp(l[b]) /\ c > 0 /\ l[c] = 58) THEN None
    ELSE LET v == Sp(l, b)  ve == IdEnd(l, v) IN
         IF ve = 0 THEN None
         ELSE LET q == Sp(l, ve)
                  ix == IF q <= Len(l) /\ l[q] = 44 THEN Sp(l, q + 1) ELSE 0
                  ixe == IF ix > 0 THEN IdEnd(l, ix) ELSE 0
                  hasIx == ixe > 0
                  t == IF hasIx THEN ixe ELSE ve               \* "in" follows after at least one blank
                  i == Sp(l, t)
                  u == i + 2 IN
              IF t <= Len(l) /\ IsSp(l[t]) /\ At(l, i, KwIn) /\ u <= Len(l) /\ IsSp(l[u]) /\ c - 1 >= u + 1
              THEN [R("for") EXCEPT !.name = Sub(l, v, ve - 1), !.idx = IF hasIx THEN Sub(l, ix, ixe - 1) ELSE <<>>,
                                    !.s = IF Sp(l, u) <= c - 1 THEN Sp(l, u) ELSE c - 1, !.e = c - 1]
              ELSE None

Label(l) == LET a == Sp(l, 1)  e == IdEnd(l, a)  c == IF e > 0 THEN Sp(l, e) ELSE 0 IN
            IF e > 0 /\ c <= Len(l) /\ l[c] = 58 /\ OnlyBlanksFrom(l, c + 1) THEN [R("label") EXCEPT !.name = Sub(l, a, e - 1)] ELSE None

\* the identifier that ends the line, preceded by at least one blank: [start, end] or <<0, 0>>
RECURSIVE WordStart(_, _)
WordStart(l, i) == IF i >= 1 /\ IsWord(l[i]) THEN WordStart(l, i - 1) ELSE i + 1
TailName(l) ==
    LET c == LastNonBlank(l) IN
    IF c = 0 \/ ~IsWord(l[c]) THEN <<0, 0>>
    ELSE LET st == WordStart(l, c) IN
         IF IsAlpha(l[st]) /\ st >= 2 /\ IsSp(l[st - 1]) THEN <<st, c>> ELSE <<0, 0>>
RECURSIVE BackSp(_, _)
BackSp(l, i) == IF i >= 1 /\ IsSp(l[i]) THEN BackSp(l, i - 1) ELSE i          \* last index <= i that is not a blank
Jump(l) ==
    LET a == Sp(l, 1)  t == TailName(l) IN
    IF t[1] = 0 THEN None
    ELSE IF At(l, a, KwJump) /\ a + 4 <= Len(l) /\ IsSp(l[a + 4]) /\ Sp(l, a + 4) = t[1]
         THEN [R("jump") EXCEPT !.name = Sub(l, t[1], t[2])]
    ELSE LET op == Sp(l, a + 6)  cl == BackSp(l, t[1] - 1) IN
         IF At(l, a, KwJumpif) /\ op <= Len(l) /\ l[op] = 40 /\ cl > op + 1 /\ l[cl] = 41
         THEN [R("jumpif") EXCEPT !.name = Sub(l, t[1], t[2]), !.s = op + 1, !.e = cl - 1]
         ELSE None

Return(l) ==
    LET a == Sp(l, 1)  b == a + 6 IN
    IF ~At(l, a, KwReturn) THEN None
    ELSE IF OnlyBlanksFrom(l, b) THEN R("return")
    ELSE IF IsSp(l[b]) THEN [R("return") EXCEPT !.s = Sp(l, b), !.e = Len(l)]
    ELSE None

\* include 'url' : every quote inside the url is written \' ; \\ and \' are un-escaped
RECURSIVE Unescape(_, _)
Unescape(u, q) ==
    IF u = <<>> THEN <<>>
    ELSE IF Len(u) >= 2 /\ u[1] = 92 /\ (u[2] = 92 \/ u[2] = q) THEN <<u[2]>> \o Unescape(SubSeq(u, 3, Len(u)), q)
    ELSE <<u[1]>> \o Unescape(Tail(u), q)
Include(l) ==
    LET a == Sp(l, 1)  b == a + 7  o == Sp(l, b)  c == LastNonBlank(l) IN
    IF ~(At(l, a, KwInclude) /\ b <= Len(l) /\ IsSp(l[b]) /\ o < c) THEN None
    ELSE IF l[o] = 39 /\ l[c] = 39 /\ \A i \in (o + 1)..(c - 1) : l[i] = 39 => (i - 1 > o /\ l[i - 1] = 92)
         THEN [R("include") EXCEPT !.url = Unescape(Sub(l, o + 1, c - 1), 39)]
    ELSE IF l[o] = 60 /\ l[c] = 62 /\ \A i \in (o + 1)..(c - 1) : l[i] # 62
         THEN [R("includesys") EXCEPT !.url = Sub(l, o + 1, c - 1)]
    ELSE None

Forms(l) == << Comment(l), Assign(l), Function(l), Alone(l, KwEndfunction, "endfunction"),
               Header(l, KwIf, "if"), Header(l, KwElif, "elif"), ElseForm(l), Alone(l, KwEndif, "endif"),
               Header(l, KwWhile, "while"), Alone(l, KwEndwhile, "endwhile"), ForForm(l), Alone(l, KwEndfor, "endfor"),
               Alone(l, KwBreak, "break"), Alone(l, KwContinue, "continue"), Label(l), Jump(l), Return(l), Include(l) >>
Classify(l) ==
    LET fs == Forms(l) IN
    IF \E i \in 1..Len(fs) : fs[i].k # "none"
    THEN fs[CHOOSE i \in 1..Len(fs) : fs[i].k # "none" /\ \A j \in 1..(i - 1) : fs[j].k = "none"]
    ELSE [R("expr") EXCEPT !.s = 1, !.e = Len(l)]
=============================================================================
