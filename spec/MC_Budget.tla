---------------------------- MODULE MC_Budget ----------------------------
(* C09 leg A: self-composition.  The same program is run under a positive limit L (run A) and
   without a limit (run B, explored up to Cap statements), in lock step, one top-level
   statement per TLC step.  While A is running the two machines are in the same state; once A
   is aborted its log is a prefix of B's; if B completes within L statements A completes
   identically.                                                                           *)
EXTENDS JumpAlphabet, SequencesExt

CONSTANTS N, MaxL, Cap

VARIABLES ix, L, pa, sa, ra, pb, sb, rb
vars == <<ix, L, pa, sa, ra, pb, sb, rb>>

Status(s, r) == IF s.exc # "" THEN s.exc ELSE r
Init == /\ ix \in Tuples(N)
        /\ L \in 1..MaxL
        /\ pa = 1 /\ pb = 1
        /\ sa = InitState(G0, <<>>, L, FALSE, TRUE, Names0)
        /\ sb = InitState(G0, <<>>, 0, FALSE, TRUE, Names0)
        /\ ra = "run" /\ rb = "run"

StepRun(p, s, r) ==     \* -> <<p', s', r'>>
    IF r # "run" THEN <<p, s, r>>
    ELSE IF p > Len(ProgOf(ix)) THEN <<p, s, "done">>
    ELSE LET x == Step(ProgOf(ix), p, NoLoc, s, 50) IN
         <<x.pc, x.st, IF x.st.exc # "" THEN x.st.exc ELSE IF x.fin THEN "done" ELSE "run">>

Next == /\ (ra = "run" \/ rb = "run")
        /\ LET a == StepRun(pa, sa, ra)  b == StepRun(pb, sb, rb) IN
           /\ pa' = a[1] /\ sa' = a[2] /\ ra' = a[3]
           /\ pb' = b[1] /\ sb' = b[2] /\ rb' = b[3]
        /\ UNCHANGED <<ix, L>>
Spec == Init /\ [][Next]_vars
Bounded == sb.cnt <= Cap

\* exactness
Exact == /\ sa.cnt <= L + 1
         /\ (ra = "limit") <=> (sa.cnt = L + 1)
\* lock step: while the limited run is alive it IS the unlimited run
SameWhileRunning == ra = "run" => (pa = pb /\ sa.g = sb.g /\ sa.heap = sb.heap /\ sa.log = sb.log /\ sa.cnt = sb.cnt)
\* prefix: the effects of an aborted run are a prefix of the unlimited run's effects
PrefixInv == IsPrefix(sa.log, sb.log) \/ (rb = "run" /\ IsPrefix(sb.log, sa.log))
\* completion within the limit: identical outcome
SameWhenWithin == (rb # "run" /\ sb.cnt <= L) => (ra # "run" => (ra = rb /\ sa.log = sb.log /\ sa.g = sb.g /\ sa.cnt = sb.cnt))
\* the limited run is aborted only if the unlimited run really starts more than L statements
AbortJustified == (ra = "limit") => sb.cnt > L \/ rb = "run"
=============================================================================
