---------------------------- MODULE Trace_Cli ----------------------------
(* X01: recorded runs of the REAL command-line driver (bare_script.bare.main with captured stdout and exit status)
   validated against the BareCli machine, one critical section per TLC step.  A case is
       [cfg, names, obs |-> [events, status, raised]]
   where events are the classified stdout lines.  One verdict line per trace.                               *)
EXTENDS BareCli, Json, IOUtils, TLC

Cases == JsonDeserialize(IOEnv.CASES)
VARIABLES tid, c, verdict, seen
vars == <<tid, c, verdict, seen>>
K == Cases[tid]
Obs == K.obs

EvMatches(e, o) ==
    /\ e.ev = o.ev
    /\ CASE e.ev = "log"     -> e.text = o.text
         [] e.ev = "dbgfail" -> e.name = o.name
         [] e.ev = "static"  -> e.name = o.name /\ e.lo <= o.n /\ o.n <= e.hi /\ o.lines = o.n
         [] e.ev = "timing"  -> TRUE
         [] e.ev = "error"   -> /\ e.hasName = o.hasName /\ (e.hasName => e.name = o.name)
                                /\ e.kind = o.kind /\ (e.kind \in {"undefined", "label", "load"} => e.arg = o.arg)
         [] OTHER -> FALSE
NewOK(out, from) == /\ Len(out) <= Len(Obs.events)
                    /\ \A i \in (from + 1)..Len(out) : EvMatches(out[i], Obs.events[i])
FirstBad(out, from) == IF Len(out) > Len(Obs.events) THEN Len(Obs.events) + 1
                       ELSE CHOOSE i \in (from + 1)..Len(out) : ~EvMatches(out[i], Obs.events[i])

Final(d) ==
    IF d.skip THEN <<"SKIP", "outside the exact domain">>
    ELSE IF Len(d.out) # Len(Obs.events) THEN <<"REJECT", "output", <<"lines specified", Len(d.out), "lines printed", Len(Obs.events)>>>>
    ELSE IF d.status # Obs.status THEN <<"REJECT", "exit-status", <<d.status, Obs.status>>>>
    ELSE <<"ACCEPT">>

Init == /\ tid \in 1..Len(Cases)
        /\ c = Cli0(Cases[tid].cfg)
        /\ verdict = "open"
        /\ seen = 0
Next ==
    /\ verdict = "open"
    /\ IF Obs.raised # "" THEN
            /\ verdict' = "REJECT" /\ PrintT(<<"V", tid, "REJECT", "driver-raised", Obs.raised>>) /\ UNCHANGED <<tid, c, seen>>
       ELSE IF c.phase = "done" THEN
            /\ verdict' = Final(c)[1] /\ PrintT(<<"V", tid>> \o Final(c)) /\ UNCHANGED <<tid, c, seen>>
       ELSE LET d == CliStep(K.cfg, K.names, c) IN
            IF ~d.skip /\ ~NewOK(d.out, seen) THEN
                /\ verdict' = "REJECT"
                /\ PrintT(<<"V", tid, "REJECT", "output-line",
                            <<FirstBad(d.out, seen),
                              IF FirstBad(d.out, seen) <= Len(d.out) THEN d.out[FirstBad(d.out, seen)] ELSE "none",
                              IF FirstBad(d.out, seen) <= Len(Obs.events) THEN Obs.events[FirstBad(d.out, seen)] ELSE "none">>>>)
                /\ UNCHANGED <<tid, c, seen>>
            ELSE c' = d /\ seen' = (IF d.skip THEN seen ELSE Len(d.out)) /\ UNCHANGED <<tid, verdict>>
Spec == Init /\ [][Next]_vars

(* evaluated in every state of every validated trace *)
StatusRange == c.status \in 0..255
StopAtFirstFailure == c.status # 0 => c.phase = "done"
SeenInv == seen <= Len(Obs.events)
=============================================================================
