---------------------------- MODULE MC_Regex ----------------------------
(* Leg A of X02: the reference regex semantics checked against its own algebraic laws on every pattern of a small
   family x every text over {a, b, LF} up to length MaxLen.                                                   *)
EXTENDS BareRegex, TLC

CONSTANT MaxLen

A == 97
B == 98
Lit(c) == [k |-> "lit", c |-> c]
Dot == [k |-> "any"]
Cls(neg, set) == [k |-> "cls", neg |-> neg, set |-> set]
SeqP(ps) == [k |-> "seq", ps |-> ps]
AltP(ps) == [k |-> "alt", ps |-> ps]
Rep(p, mn, mx, g) == [k |-> "rep", p |-> p, min |-> mn, max |-> mx, greedy |-> g]
Grp(n, p) == [k |-> "grp", n |-> n, name |-> "", p |-> p]
Bol == [k |-> "bol"]
Eol == [k |-> "eol"]

Atoms == { Lit(A), Lit(B), Dot, Cls(FALSE, <<A, B>>), Cls(TRUE, <<A>>) }
Reps == { Rep(a, mn, mx, g) : a \in Atoms, mn \in {0, 1}, mx \in {1, Inf}, g \in BOOLEAN }
Level1 == Atoms \cup Reps \cup {Bol, Eol}
Level2 == Level1
          \cup { SeqP(<<x, y>>) : x \in Level1, y \in Atoms \cup {Eol} }
          \cup { AltP(<<x, y>>) : x \in Atoms \cup {SeqP(<<Lit(A), Lit(B)>>)}, y \in Atoms }
          \cup { SeqP(<<Grp(1, x), y>>) : x \in Reps, y \in Atoms }
          \cup { Rep(Grp(1, AltP(<<Lit(A), SeqP(<<Lit(A), Lit(B)>>)>>)), 0, Inf, g) : g \in BOOLEAN }
NG(p) == IF p.k = "seq" /\ p.ps[1].k = "grp" THEN 1 ELSE IF p.k = "rep" /\ p.p.k = "grp" THEN 1 ELSE 0
Texts == UNION { [1..n -> {A, B, LF}] : n \in 0..MaxLen }
Flags == { [i |-> FALSE, m |-> mm, s |-> ss] : mm, ss \in BOOLEAN }

VARIABLES p, s, fl
vars == <<p, s, fl>>
Init == p \in Level2 /\ s \in Texts /\ fl \in Flags
Next == UNCHANGED vars
Spec == Init /\ [][Next]_vars

Ms == FindAll(p, NG(p), s, fl, 1, FALSE)
\* matches come in text order, do not overlap, and an empty match is never followed by an empty match at the same place
Ordered == \A k \in 1..Len(Ms) :
              /\ Ms[k].b <= Ms[k].e /\ Ms[k].e <= Len(s) + 1
              /\ (k > 1 => Ms[k].b >= Ms[k - 1].e /\ ~(Ms[k].b = Ms[k].e /\ Ms[k - 1].b = Ms[k - 1].e /\ Ms[k].b = Ms[k - 1].e))
\* replacing every match by itself changes nothing
ReplaceSelf == Replace(p, NG(p), s, fl, << [k |-> "ref", n |-> 0] >>) = s
\* the pieces of a split, with the matched texts put back between them, are the text (patterns without groups)
RECURSIVE Rejoin(_, _, _)
Rejoin(pieces, ms, k) == IF k > Len(ms) THEN pieces[k].v ELSE pieces[k].v \o Sub(s, ms[k].b, ms[k].e) \o Rejoin(pieces, ms, k + 1)
SplitRejoins == NG(p) = 0 => (Len(Split(p, 0, s, fl)) = Len(Ms) + 1 /\ Rejoin(Split(p, 0, s, fl), Ms, 1) = s)
\* the first match of the iteration is the search result; nothing matches before it
FirstIsSearch == LET r == Search(p, NG(p), s, fl, 1, 1, FALSE) IN
                 IF Ms = <<>> THEN ~r.found ELSE r.found /\ r.b = Ms[1].b /\ r.e = Ms[1].e
\* a capture lies inside its match
CapsInside == \A k \in 1..Len(Ms) : \A n \in 1..NG(p) : Took(Ms[k].caps[n]) => Ms[k].b <= Ms[k].caps[n][1] /\ Ms[k].caps[n][2] <= Ms[k].e
\* greedy and lazy repetition find a match at the same leftmost place (the length may differ)
=============================================================================
