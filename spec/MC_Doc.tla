---------------------------- MODULE MC_Doc ----------------------------
(* Leg A of X03: every source of <= N lines over a fixed alphabet of lines, given to the tool as one file or split
   into two files at every position, stepped one line per TLC step.  The alphabet is printed for the driver. *)
EXTENDS BareDoc, Json, TLC

CONSTANT N

Lines == <<
    <<35, 32, 36, 102, 117, 110, 99, 116, 105, 111, 110, 58, 32, 102, 49>>,            \* "# $function: f1"
    <<47, 47, 32, 36, 102, 117, 110, 99, 116, 105, 111, 110, 58, 32, 32, 101, 48, 32>>,   \* "// $function:  e0 "
    <<35, 36, 102, 117, 110, 99, 116, 105, 111, 110, 58>>,                                \* "#$function:"
    <<35, 32, 36, 103, 114, 111, 117, 112, 58, 32, 71>>,                                  \* "# $group: G"
    <<32, 32, 35, 32, 36, 103, 114, 111, 117, 112, 58, 32, 32>>,                          \* "  # $group:  "
    <<35, 32, 36, 100, 111, 99, 58, 32, 116>>,                                            \* "# $doc: t"
    <<35, 32, 36, 100, 111, 99, 58>>,                                                     \* "# $doc:"
    <<35, 32, 36, 100, 111, 99, 58, 32, 32, 105>>,                                        \* "# $doc:  i"   (text " i")
    <<35, 32, 36, 114, 101, 116, 117, 114, 110, 58, 32, 114>>,                            \* "# $return: r"
    <<35, 32, 36, 97, 114, 103, 32, 97, 58, 32, 120>>,                                    \* "# $arg a: x"
    <<35, 32, 36, 97, 114, 103, 32, 97, 58>>,                                             \* "# $arg a:"
    <<35, 32, 36, 97, 114, 103, 32, 32, 114, 46, 46, 46, 58, 121>>,                       \* "# $arg  r...:y"
    <<35, 32, 36, 98, 111, 103, 117, 115, 58, 32, 122>>,                                  \* "# $bogus: z"
    <<35, 32, 36, 97, 114, 103, 32, 49, 120, 58, 32, 98>>,                                \* "# $arg 1x: b"  (not a name: invalid comment)
    <<120, 32, 61, 32, 49>>                                                               \* "x = 1"
>>
NL == Len(Lines)
Sources == UNION { [1..k -> 1..NL] : k \in 0..N }
F1 == <<97>>
F2 == <<98>>
FilesOf(src, cut) ==     \* cut = Len(src): one file; otherwise two files
    IF cut >= Len(src) THEN << [name |-> F1, missing |-> FALSE, lines |-> [i \in 1..Len(src) |-> Lines[src[i]]]] >>
    ELSE << [name |-> F1, missing |-> FALSE, lines |-> [i \in 1..cut |-> Lines[src[i]]]],
            [name |-> F2, missing |-> FALSE, lines |-> [i \in 1..(Len(src) - cut) |-> Lines[src[cut + i]]]] >>

VARIABLES src, cut, fi, n, d
vars == <<src, cut, fi, n, d>>
Files == FilesOf(src, cut)
Init == /\ src \in Sources /\ cut \in 0..Len(src) /\ fi = 1 /\ n = 1 /\ d = Doc0
Next == /\ fi <= Len(Files)
        /\ IF n > Len(Files[fi].lines) THEN fi' = fi + 1 /\ n' = 1 /\ UNCHANGED <<src, cut, d>>
           ELSE d' = DocStep(d, Files[fi].name, n, Files[fi].lines[n]) /\ n' = n + 1 /\ UNCHANGED <<src, cut, fi>>
Spec == Init /\ [][Next]_vars

IsPrefixOf(a, b) == Len(a) <= Len(b) /\ SubSeq(b, 1, Len(a)) = a
ErrorsGrow == [][IsPrefixOf(d.errors, d'.errors)]_vars
FunctionsGrow == [][Len(d'.funcs) >= Len(d.funcs) /\ \A i \in 1..Len(d.funcs) : d'.funcs[i].name = d.funcs[i].name]_vars
\* a step changes the error list or the model, never both; a line that is not a documentation comment changes nothing
OneEffect == [][d'.errors = d.errors \/ d'.funcs = d.funcs]_vars
GroupSetOnce == [][\A i \in 1..Len(d.funcs) : d.funcs[i].hasGroup => d'.funcs[i].group = d.funcs[i].group]_vars
NamesUnique == \A i, j \in 1..Len(d.funcs) : d.funcs[i].name = d.funcs[j].name => i = j
NoLeadingBlank == \A i \in 1..Len(d.funcs) :
    /\ d.funcs[i].name # <<>> /\ (d.funcs[i].hasGroup => d.funcs[i].group # <<>>)
    /\ (d.funcs[i].doc # <<>> => Trim(d.funcs[i].doc[1]) # <<>>)
    /\ (d.funcs[i].ret # <<>> => Trim(d.funcs[i].ret[1]) # <<>>)
    /\ \A a \in 1..Len(d.funcs[i].args) : d.funcs[i].args[a].doc # <<>> /\ Trim(d.funcs[i].args[a].doc[1]) # <<>>
CurValid == d.cur \in 0..Len(d.funcs) /\ (d.funcs # <<>> => d.cur = Len(d.funcs))
\* what the tool finally prints
Out == Finish(d)
OutputSound == /\ (Out.status = 0 <=> Out.errors = <<>>)
               /\ (Out.status = 0 => Out.funcs # <<>> /\ \A i \in 1..Len(Out.funcs) : Out.funcs[i].hasGroup /\ Out.funcs[i].doc # <<>>)
               /\ Len(Out.funcs) = Len(d.funcs)
               /\ \A i \in 1..(Len(Out.funcs) - 1) : Less(Out.funcs[i].name, Out.funcs[i + 1].name)
PrintAlphabet == PrintT(<<"DOCALPHABET", ToJson(Lines)>>)
ASSUME PrintAlphabet
=============================================================================
