---------------------------- MODULE Trace_Lint ----------------------------
(* C18 on the real lint_script.
   kind "lint"  the warnings reported for a model (parsed into [kind, scope, name]); purity flags recorded by
                the driver (did not raise, model deep-equal before / after, two calls equal).  The unknown-label
                and redefinition warnings must be EXACTLY the sets BareLint defines.
   kind "edit"  a warning of an actionable kind was acted on (unused variable / argument renamed, unused label
                or pointless statement deleted) in the REAL model; both models were run by the real runtime with
                the same inputs; nothing observable may differ.                                          *)
EXTENDS BareLint, Json, IOUtils, TreeEq
Cases == JsonDeserialize(IOEnv.CASES)
VARIABLES tid, verdict
vars == <<tid, verdict>>
C == Cases[tid]
M == C.model
FunIdx == { i \in 1..Len(M) : M[i].k = "function" }
Reported(kind) == { <<C.warnings[i].scope, C.warnings[i].name>> : i \in { j \in 1..Len(C.warnings) : C.warnings[j].kind = kind } }
SpecUnknown == { <<"", l>> : l \in UnknownLabels(M) } \cup UNION { { <<M[i].name, l>> : l \in UnknownLabels(M[i].body) } : i \in FunIdx }
SpecRedefLabel == { <<"", l>> : l \in RedefLabels(M) } \cup UNION { { <<M[i].name, l>> : l \in RedefLabels(M[i].body) } : i \in FunIdx }
SpecRedefFn == { <<"", n>> : n \in RedefFunctions(M) }
SpecDupArg == UNION { { <<M[i].name, a>> : a \in DupArgs(M[i]) } : i \in FunIdx }
\* soundness direction for the other kinds: whatever is reported must be justified by the rule
SpecUnusedLabel == { <<"", l>> : l \in UnusedLabels(M) } \cup UNION { { <<M[i].name, l>> : l \in UnusedLabels(M[i].body) } : i \in FunIdx }
SpecUnusedVar == UNION { { <<M[i].name, v>> : v \in UnusedVars(M[i]) } : i \in FunIdx }
SpecUnusedArg == UNION { { <<M[i].name, a>> : a \in UnusedArgs(M[i]) } : i \in FunIdx }
LintLaw ==
    IF C.raised # "" THEN <<"REJECT", "lint_script-raised", C.raised>>
    ELSE IF ~C.unchanged THEN <<"REJECT", "lint_script-modified-the-model", "">>
    ELSE IF ~C.same2 THEN <<"REJECT", "lint_script-is-not-deterministic", "">>
    ELSE IF Reported("unknown-label") # SpecUnknown THEN <<"REJECT", "unknown-label-warnings", <<SpecUnknown, Reported("unknown-label")>>>>
    ELSE IF Reported("redef-label") # SpecRedefLabel THEN <<"REJECT", "label-redefinition-warnings", <<SpecRedefLabel, Reported("redef-label")>>>>
    ELSE IF Reported("redef-function") # SpecRedefFn THEN <<"REJECT", "function-redefinition-warnings", <<SpecRedefFn, Reported("redef-function")>>>>
    ELSE IF Reported("dup-arg") # SpecDupArg THEN <<"REJECT", "duplicate-argument-warnings", <<SpecDupArg, Reported("dup-arg")>>>>
    ELSE IF ~(Reported("unused-label") \subseteq SpecUnusedLabel) THEN <<"REJECT", "unjustified-unused-label-warning", Reported("unused-label") \ SpecUnusedLabel>>
    ELSE IF ~(Reported("unused-variable") \subseteq SpecUnusedVar) THEN <<"REJECT", "unjustified-unused-variable-warning", Reported("unused-variable") \ SpecUnusedVar>>
    ELSE IF ~(Reported("unused-argument") \subseteq SpecUnusedArg) THEN <<"REJECT", "unjustified-unused-argument-warning", Reported("unused-argument") \ SpecUnusedArg>>
    ELSE <<"ACCEPT">>
EditLaw ==
    IF C.base.status # C.edited.status THEN <<"REJECT", "edit-changes-the-outcome", <<C.warning, C.base.status, C.edited.status>>>>
    ELSE IF ~TreeEq(C.base.ret, C.edited.ret) THEN <<"REJECT", "edit-changes-the-result", <<C.warning, C.base.ret, C.edited.ret>>>>
    ELSE IF ~EventSeqEq(C.base.log, C.edited.log) THEN <<"REJECT", "edit-changes-the-output", C.warning>>
    ELSE IF ~TreeMapEq(C.base.globals, C.edited.globals) THEN <<"REJECT", "edit-changes-the-final-globals", <<C.warning, C.base.globals, C.edited.globals>>>>
    ELSE <<"ACCEPT">>
Law == IF C.kind = "lint" THEN LintLaw ELSE EditLaw
Init == tid \in 1..Len(Cases) /\ verdict = "open"
Next == /\ verdict = "open" /\ verdict' = Law[1] /\ PrintT(<<"V", tid>> \o Law) /\ UNCHANGED tid
Spec == Init /\ [][Next]_vars
=============================================================================
