---------------------------- MODULE MC_ExprSyntax ----------------------------
(* C02 leg A: for every operator chain of length <= K over the 14 binary operators (operands are
   opaque atoms) the parser's fold-with-rotation, taken one operator per TLC step, ends in the tree
   the precedence rules dictate, and every intermediate tree satisfies SpineOrdered.          *)
EXTENDS BareExprSyntax
CONSTANT K
VARIABLES ops, i, tree
vars == <<ops, i, tree>>
Atom(n) == [k |-> "var", v |-> n]
Operands(n) == [j \in 1..(n + 1) |-> Atom(j)]
Chains == UNION { [1..n -> { BinOps[x] : x \in 1..Len(BinOps) }] : n \in 1..K }
Init == ops \in Chains /\ i = 1 /\ tree = Atom(1)
Next == /\ i <= Len(ops)
        /\ tree' = ReorderStep(tree, ops[i], Atom(i + 1))
        /\ i' = i + 1
        /\ UNCHANGED ops
Spec == Init /\ [][Next]_vars
SpineInv == SpineOrdered(tree)
\* every intermediate tree is the reference tree of the prefix consumed so far
PrefixInv == tree = PrecTree(Operands(i - 1), SubSeq(ops, 1, i - 1))
FinalInv == (i > Len(ops)) => tree = PrecTree(Operands(Len(ops)), ops) /\ tree = ReorderParse(Atom(1), Operands(Len(ops)), ops, 1)
=============================================================================
