---------------------------- MODULE BareValues ----------------------------
(* The BareScript value domain (reference layer).

   A value is a record with a tag field t:
     null | bool | num | str | dt | array | object | fn | regex | alien
   Numbers have ONE type (C12): the specification cannot express an int/float
   distinction.  A number is held in one of these forms (field f):
     "q"   exact dyadic rational n/d, d a power of two <= 1024, |n| <= 2^30, reduced
           (optional field z = "neg" / "any": sign of a zero, see ZeroAny)
     "d"   an exact decimal  s * 0.d1..dk * 10^e  (d1 # 0, dk # 0) for numbers outside the
           "q" domain; concrete for truthiness / comparison / text, opaque for arithmetic
     "x"   non-finite (inf, -inf, nan) - only ever observed, never produced exactly
   Strings are sequences of code points.  Datetimes are (days since 0001-01-01, ms of day)
   of the normalised naive local value.  Containers come in two forms:
     tree form  [t |-> "array", v |-> <<values>>] / [t |-> "object", v |-> <<[key, val]>>]
     heap form  [t |-> "array", r |-> i]          / [t |-> "object", r |-> i]
   with heap a sequence of [k |-> "array", v |-> <<..>>] / [k |-> "object", v |-> <<[key, val]..>>]
   cells (object pairs in insertion order, keys unique).                                   *)
EXTENDS Integers, Sequences, FiniteSets, TLC

Null      == [t |-> "null"]
Bool(b)   == [t |-> "bool", v |-> b]
Q(n, d)   == [t |-> "num", f |-> "q", n |-> n, d |-> d]
IntV(n)    == Q(n, 1)
ZeroAny   == [t |-> "num", f |-> "q", n |-> 0, d |-> 1, z |-> "any"]
ZeroNeg   == [t |-> "num", f |-> "q", n |-> 0, d |-> 1, z |-> "neg"]
\* wildcards occur only in EXPECTED values: cls is the set of observation classes accepted
\*   "null" | "fin" (finite number) | "nonfin" (inf / nan) | "any" (any BareScript value)
W(cls)    == [t |-> "wild", cls |-> cls]
AnyNum    == W({"fin", "nonfin"})
AnyFinite == W({"fin"})
DivZero   == W({"null", "nonfin"})          \* A5: division / modulo by zero, invalid power
PowWild   == W({"null", "fin", "nonfin"})
AnyVal    == W({"any"})
Str(cs)   == [t |-> "str", v |-> cs]
Dt(d, ms) == [t |-> "dt", d |-> d, ms |-> ms]
\* sub-millisecond residue (microseconds 1..999) of a datetime that was offset by a fractional number of milliseconds;
\* absent (= 0) for every datetime the library itself creates
UsOf(v) == IF "us" \in DOMAIN v THEN v.us ELSE 0
Dt3(d, ms, us) == IF us = 0 THEN Dt(d, ms) ELSE [t |-> "dt", d |-> d, ms |-> ms, us |-> us]
ARef(i)   == [t |-> "array", r |-> i]
ORef(i)   == [t |-> "object", r |-> i]
Regex     == [t |-> "regex"]

Bound == 1073741824          \* 2^30: numerators of the exact domain
MaxDen == 1024

Abs(x) == IF x < 0 THEN -x ELSE x
Sgn(x) == IF x < 0 THEN -1 ELSE IF x = 0 THEN 0 ELSE 1
Min2(a, b) == IF a < b THEN a ELSE b
Max2(a, b) == IF a > b THEN a ELSE b

IsNum(v)  == v.t = "num"
IsQ(v)    == v.t = "num" /\ v.f = "q"
IsD(v)    == v.t = "num" /\ v.f = "d"
IsStr(v)  == v.t = "str"
\* a value whose truthiness / order / text is determined
Concrete(v) == v.t # "wild"
IsZeroQ(v) == IsQ(v) /\ v.n = 0
ZeroSignAny(v) == IsZeroQ(v) /\ "z" \in DOMAIN v /\ v.z = "any"
IsInteger(v) == IsQ(v) /\ v.d = 1

(***************************** type names (A23) *****************************)
TypeName(v) ==
    CASE v.t = "null"   -> "null"
      [] v.t = "bool"   -> "boolean"
      [] v.t = "num"    -> "number"
      [] v.t = "str"    -> "string"
      [] v.t = "dt"     -> "datetime"
      [] v.t = "array"  -> "array"
      [] v.t = "object" -> "object"
      [] v.t = "fn"     -> "function"
      [] v.t = "regex"  -> "regex"
      [] OTHER          -> "unknown"
\* alphabetical rank of the type names
TypeRank(v) ==
    CASE v.t = "array"  -> 1
      [] v.t = "bool"   -> 2
      [] v.t = "dt"     -> 3
      [] v.t = "fn"     -> 4
      [] v.t = "null"   -> 5
      [] v.t = "num"    -> 6
      [] v.t = "object" -> 7
      [] v.t = "regex"  -> 8
      [] v.t = "str"    -> 9
      [] OTHER          -> 10

(***************************** truthiness (A1) *****************************)
\* arrays: heap is needed for the length
Truthy(v, heap) ==
    CASE v.t = "null"  -> FALSE
      [] v.t = "bool"  -> v.v
      [] v.t = "num"   -> IF v.f = "q" THEN v.n # 0 ELSE TRUE     \* "d" is non-zero by construction; "x" is non-zero
      [] v.t = "str"   -> v.v # <<>>
      [] v.t = "array" -> IF "r" \in DOMAIN v THEN heap[v.r].v # <<>> ELSE v.v # <<>>
      [] OTHER         -> TRUE

(***************************** exact arithmetic *****************************)
RECURSIVE Reduce(_, _)
Reduce(n, d) == IF d > 1 /\ n % 2 = 0 THEN Reduce(n \div 2, d \div 2) ELSE <<n, d>>

\* Build a number from n/d (d a power of two): exact when in the domain, else the finite wildcard
MkQ(n, d) ==
    LET r == Reduce(n, d) IN
    IF Abs(r[1]) <= Bound /\ r[2] <= MaxDen THEN Q(r[1], r[2]) ELSE AnyFinite

\* guarded product: <<ok, value>>
MulOK(a, b) == a = 0 \/ b = 0 \/ Abs(a) <= (2147483647 \div Abs(b))
SafeMul(a, b) == IF a = 0 \/ b = 0 THEN 0 ELSE a * b

NegN(a) ==
    IF ~IsQ(a) THEN (IF IsD(a) THEN [a EXCEPT !.s = -a.s] ELSE AnyNum)
    ELSE IF a.n = 0 THEN ZeroAny ELSE Q(-a.n, a.d)

AddQ(a, b) ==
    LET L == Max2(a.d, b.d) IN
    IF MulOK(a.n, L \div a.d) /\ MulOK(b.n, L \div b.d)
    THEN LET x == a.n * (L \div a.d)  y == b.n * (L \div b.d) IN
         \* (strictly below the bound: 2^30 + 2^30 would leave TLC's 32-bit integers)
         IF Abs(x) < Bound /\ Abs(y) < Bound THEN MkQ(x + y, L) ELSE AnyFinite
    ELSE AnyFinite
\* arithmetic with an operand outside the exact domain: some number, possibly non-finite, or null
\* when the host arithmetic overflows (A5)
AddN(a, b) == IF IsQ(a) /\ IsQ(b) THEN AddQ(a, b) ELSE PowWild
SubN(a, b) == IF IsQ(a) /\ IsQ(b) THEN AddQ(a, Q(-b.n, b.d)) ELSE PowWild
MulN(a, b) ==
    IF IsQ(a) /\ IsQ(b) THEN
        IF a.n = 0 \/ b.n = 0 THEN (IF a.n < 0 \/ b.n < 0 \/ ZeroSignAny(a) \/ ZeroSignAny(b) THEN ZeroAny ELSE IntV(0))
        ELSE IF MulOK(a.n, b.n) /\ a.d * b.d <= MaxDen * MaxDen
             THEN LET r == Reduce(a.n * b.n, a.d * b.d) IN
                  IF Abs(r[1]) <= Bound /\ r[2] <= MaxDen THEN Q(r[1], r[2]) ELSE AnyFinite
             ELSE AnyFinite
    ELSE PowWild

RECURSIVE GCD(_, _)
GCD(a, b) == IF b = 0 THEN a ELSE GCD(b, a % b)
IsPow2(x) == x \in {1, 2, 4, 8, 16, 32, 64, 128, 256, 512, 1024}

\* a / b for b # 0 (A5): exact when the quotient is a small dyadic, otherwise some finite number
DivQ(a, b) ==
    IF MulOK(a.n, b.d) /\ MulOK(Abs(b.n), a.d) THEN
        LET p0 == a.n * b.d * Sgn(b.n)
            q0 == Abs(b.n) * a.d
            g == GCD(Abs(p0), q0)
            p == IF g = 0 THEN 0 ELSE p0 \div g
            q == IF g = 0 THEN 1 ELSE q0 \div g
        IN IF p0 = 0 THEN (IF b.n < 0 \/ ZeroSignAny(a) THEN ZeroAny ELSE IntV(0))
           ELSE IF IsPow2(q) /\ Abs(p) <= Bound THEN Q(p, q) ELSE AnyFinite
    ELSE AnyFinite

\* integer power by repeated guarded multiplication
RECURSIVE PowQ(_, _)
PowQ(a, k) == IF k = 0 THEN IntV(1) ELSE LET r == PowQ(a, k - 1) IN IF IsQ(r) THEN MulN(r, a) ELSE AnyNum

(***************************** comparison of numbers *****************************)
FloorQ(a) == a.n \div a.d
FracNum(a) == a.n % a.d                 \* 0 <= FracNum < d
\* fractional digits of r/d (d a power of two <= 1024): at most 10 digits, trailing zeros removed
RECURSIVE FracDigits(_, _, _)
FracDigits(r, d, k) == IF r = 0 \/ k = 0 THEN <<>> ELSE <<(r * 10) \div d>> \o FracDigits((r * 10) % d, d, k - 1)

CmpInt(a, b) == IF a < b THEN -1 ELSE IF a = b THEN 0 ELSE 1
\* lexicographic comparison of digit sequences with implicit trailing zeros
RECURSIVE CmpDigits(_, _)
CmpDigits(x, y) ==
    IF x = <<>> /\ y = <<>> THEN 0
    ELSE LET a == IF x = <<>> THEN 0 ELSE Head(x)
             b == IF y = <<>> THEN 0 ELSE Head(y)
         IN IF a # b THEN CmpInt(a, b)
            ELSE CmpDigits(IF x = <<>> THEN <<>> ELSE Tail(x), IF y = <<>> THEN <<>> ELSE Tail(y))
RECURSIVE DigitsToInt(_, _)
DigitsToInt(ds, acc) == IF ds = <<>> THEN acc ELSE DigitsToInt(Tail(ds), acc * 10 + Head(ds))
Pad(ds, k) == IF k <= Len(ds) THEN ds ELSE ds \o [i \in 1..(k - Len(ds)) |-> 0]

CmpQQ(a, b) ==
    LET fa == FloorQ(a)  fb == FloorQ(b) IN
    IF fa # fb THEN CmpInt(fa, fb)
    ELSE CmpInt(FracNum(a) * b.d, FracNum(b) * a.d)

\* magnitude comparison |q| vs decimal magnitude 0.ds * 10^e   (q > 0 as magnitude record)
CmpMagQD(q, ds, e) ==
    IF e > 10 THEN -1
    ELSE IF e <= 0 THEN
        \* decimal < 1 : integer part 0
        IF FloorQ(q) > 0 THEN 1
        ELSE CmpDigits(FracDigits(FracNum(q), q.d, 12), [i \in 1..(-e) |-> 0] \o ds)
    ELSE LET ip == DigitsToInt(SubSeq(Pad(ds, e), 1, e), 0)
             fr == IF Len(ds) > e THEN SubSeq(ds, e + 1, Len(ds)) ELSE <<>>
         IN IF e = 10 /\ Head(ds) >= 2 THEN -1                       \* >= 2*10^9 > any exact magnitude
            ELSE IF FloorQ(q) # ip THEN CmpInt(FloorQ(q), ip)
            ELSE CmpDigits(FracDigits(FracNum(q), q.d, 12), fr)

CmpQD(q, dd) ==     \* exact q versus decimal dd
    LET sq == Sgn(q.n) IN
    IF sq # dd.s THEN CmpInt(sq, dd.s)
    ELSE IF sq > 0 THEN CmpMagQD(q, dd.ds, dd.e)
    ELSE -CmpMagQD(Q(-q.n, q.d), dd.ds, dd.e)

CmpDD(a, b) ==
    IF a.s # b.s THEN CmpInt(a.s, b.s)
    ELSE LET m == IF a.e # b.e THEN CmpInt(a.e, b.e) ELSE CmpDigits(a.ds, b.ds) IN a.s * m

\* both concrete finite numbers
\* infinities are ordinary values of the order (below / above every finite number, equal to themselves); NaN is outside it
XRank(a) == IF a.f # "x" THEN 0 ELSE IF a.v = "inf" THEN 1 ELSE IF a.v = "-inf" THEN -1 ELSE 2
CmpNum(a, b) ==
    CASE a.f = "x" \/ b.f = "x" -> CmpInt(XRank(a), XRank(b))
      [] IsQ(a) /\ IsQ(b) -> CmpQQ(a, b)
      [] IsQ(a) /\ IsD(b) -> CmpQD(a, b)
      [] IsD(a) /\ IsQ(b) -> -CmpQD(b, a)
      [] OTHER            -> CmpDD(a, b)

\* does a (tree-form) value contain NaN?  NaN is outside the order (C11 is stated for non-NaN values).
RECURSIVE HasNonFinite(_)
HasNonFinite(v) ==
    CASE v.t = "num" -> v.f = "x" /\ v.v = "nan"
      [] v.t = "array" -> \E i \in 1..Len(v.v) : HasNonFinite(v.v[i])
      [] v.t = "object" -> \E i \in 1..Len(v.v) : HasNonFinite(v.v[i].val)
      [] OTHER -> FALSE

(***************************** the total preorder (A23) *****************************)
RECURSIVE CmpSeqCP(_, _)
CmpSeqCP(x, y) ==       \* strings by code point
    IF x = <<>> THEN (IF y = <<>> THEN 0 ELSE -1)
    ELSE IF y = <<>> THEN 1
    ELSE IF Head(x) # Head(y) THEN CmpInt(Head(x), Head(y))
    ELSE CmpSeqCP(Tail(x), Tail(y))

Elems(v, heap) == IF "r" \in DOMAIN v THEN heap[v.r].v ELSE v.v

\* insertion sort of object pairs by key
RECURSIVE InsertPair(_, _), SortPairs(_)
InsertPair(p, s) ==
    IF s = <<>> THEN <<p>>
    ELSE IF CmpSeqCP(p.key, Head(s).key) <= 0 THEN <<p>> \o s
    ELSE <<Head(s)>> \o InsertPair(p, Tail(s))
SortPairs(s) == IF s = <<>> THEN <<>> ELSE InsertPair(Head(s), SortPairs(Tail(s)))

RECURSIVE Compare(_, _, _), CmpElems(_, _, _), CmpPairs(_, _, _)
CmpElems(x, y, heap) ==
    IF x = <<>> \/ y = <<>> THEN CmpInt(Len(x), Len(y))
    ELSE LET c == Compare(Head(x), Head(y), heap) IN
         IF c # 0 THEN c ELSE CmpElems(Tail(x), Tail(y), heap)
CmpPairs(x, y, heap) ==
    IF x = <<>> \/ y = <<>> THEN CmpInt(Len(x), Len(y))
    ELSE LET k == CmpSeqCP(Head(x).key, Head(y).key) IN
         IF k # 0 THEN k
         ELSE LET c == Compare(Head(x).val, Head(y).val, heap) IN
              IF c # 0 THEN c ELSE CmpPairs(Tail(x), Tail(y), heap)
Compare(a, b, heap) ==
    IF a.t = "null" THEN (IF b.t = "null" THEN 0 ELSE -1)
    ELSE IF b.t = "null" THEN 1
    ELSE IF a.t # b.t THEN CmpInt(TypeRank(a), TypeRank(b))
    ELSE CASE a.t = "str"    -> CmpSeqCP(a.v, b.v)
           [] a.t = "bool"   -> CmpInt(IF a.v THEN 1 ELSE 0, IF b.v THEN 1 ELSE 0)
           [] a.t = "num"    -> CmpNum(a, b)
           [] a.t = "dt"     -> IF a.d # b.d THEN CmpInt(a.d, b.d) ELSE IF a.ms # b.ms THEN CmpInt(a.ms, b.ms) ELSE CmpInt(UsOf(a), UsOf(b))
           [] a.t = "array"  -> CmpElems(Elems(a, heap), Elems(b, heap), heap)
           [] a.t = "object" -> CmpPairs(SortPairs(Elems(a, heap)), SortPairs(Elems(b, heap)), heap)
           [] OTHER          -> 0

(***************************** tree <-> heap form *****************************)
\* tree form up to nesting depth 16; deeper (or cyclic) structure is cut with [t |-> "deep"] - alpha does the same
RECURSIVE ExternD(_, _, _)
ExternD(v, heap, d) ==
    IF v.t \in {"array", "object"} /\ d = 0 THEN [t |-> "deep"]
    ELSE IF v.t = "array" /\ "r" \in DOMAIN v THEN
        [t |-> "array", v |-> [i \in 1..Len(heap[v.r].v) |-> ExternD(heap[v.r].v[i], heap, d - 1)]]
    ELSE IF v.t = "object" /\ "r" \in DOMAIN v THEN
        [t |-> "object", v |-> [i \in 1..Len(heap[v.r].v) |-> [key |-> heap[v.r].v[i].key, val |-> ExternD(heap[v.r].v[i].val, heap, d - 1)]]]
    ELSE IF v.t = "fn" THEN [t |-> "fn"]
    ELSE v
Extern(v, heap) == ExternD(v, heap, 16)
ExternSeq(s, heap) == [i \in 1..Len(s) |-> Extern(s[i], heap)]

\* Intern a tree value: returns [v, heap]
RECURSIVE Intern(_, _), InternSeq(_, _, _), InternPairs(_, _, _)
InternSeq(s, i, heap) ==
    IF i > Len(s) THEN [vs |-> <<>>, heap |-> heap]
    ELSE LET a == Intern(s[i], heap)
             r == InternSeq(s, i + 1, a.heap)
         IN [vs |-> <<a.v>> \o r.vs, heap |-> r.heap]
InternPairs(s, i, heap) ==
    IF i > Len(s) THEN [vs |-> <<>>, heap |-> heap]
    ELSE LET a == Intern(s[i].val, heap)
             r == InternPairs(s, i + 1, a.heap)
         IN [vs |-> <<[key |-> s[i].key, val |-> a.v]>> \o r.vs, heap |-> r.heap]
Intern(v, heap) ==
    IF v.t = "array" /\ "v" \in DOMAIN v THEN
        LET r == InternSeq(v.v, 1, heap) IN
        [v |-> ARef(Len(r.heap) + 1), heap |-> Append(r.heap, [k |-> "array", v |-> r.vs])]
    ELSE IF v.t = "object" /\ "v" \in DOMAIN v THEN
        LET r == InternPairs(v.v, 1, heap) IN
        [v |-> ORef(Len(r.heap) + 1), heap |-> Append(r.heap, [k |-> "object", v |-> r.vs])]
    ELSE [v |-> v, heap |-> heap]

(***************************** matching expected against observed (tree form) *****************************)
\* e = what the specification allows (may contain wildcards), o = what was observed.
RECURSIVE Matches(_, _)
MatchNum(e, o) ==
    IF e.f = "q" THEN o.f = "q" /\ o.n = e.n /\ o.d = e.d
    ELSE IF e.f = "d" THEN o.f = "d" /\ o.s = e.s /\ o.ds = e.ds /\ o.e = e.e
    ELSE o.f = "x" /\ o.v = e.v
Matches(e, o) ==
    IF o.t = "huge" THEN TRUE          \* an observation elided for its size (alpha: > 20 000 elements / 200 000 characters)
    ELSE IF e.t = "wild" THEN
        \/ "any" \in e.cls /\ o.t # "alien"
        \/ "null" \in e.cls /\ o.t = "null"
        \/ "fin" \in e.cls /\ o.t = "num" /\ o.f # "x"
        \/ "nonfin" \in e.cls /\ o.t = "num" /\ o.f = "x"
    ELSE IF e.t # o.t THEN FALSE
    ELSE CASE e.t = "num"    -> MatchNum(e, o)
           [] e.t = "bool"   -> e.v = o.v
           [] e.t = "str"    -> e.v = o.v
           [] e.t = "dt"     -> e.d = o.d /\ e.ms = o.ms /\ UsOf(e) = UsOf(o)
           [] e.t = "array"  -> Len(e.v) = Len(o.v) /\ \A i \in 1..Len(e.v) : Matches(e.v[i], o.v[i])
           [] e.t = "object" -> /\ Len(e.v) = Len(o.v)
                                /\ \A i \in 1..Len(e.v) : \E j \in 1..Len(o.v) :
                                       e.v[i].key = o.v[j].key /\ Matches(e.v[i].val, o.v[j].val)
           [] OTHER          -> TRUE        \* null, fn, regex: the tag is the value
MatchesSeq(es, os) == Len(es) = Len(os) /\ \A i \in 1..Len(es) : Matches(es[i], os[i])
=============================================================================
