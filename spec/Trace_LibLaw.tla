---------------------------- MODULE Trace_LibLaw ----------------------------
(* C15 relation clauses, judged on recorded results of the real code:
   regexEscape(s) yields a pattern that matches exactly s: for every probed text t, the real
     matcher accepted ^escape(s)$ against t  iff  t = s;
   URL encoding is reversible by percent-decoding: PercentDecode(result) = UTF8(s), and the result
     consists of unreserved ASCII, "%XX" triplets and the function's documented safe characters only. *)
EXTENDS BareLib, Json, IOUtils
Cases == JsonDeserialize(IOEnv.CASES)
VARIABLES tid, verdict
vars == <<tid, verdict>>
C == Cases[tid]
RECURSIVE UTF8Seq(_)
UTF8Seq(s) == IF s = <<>> THEN <<>> ELSE UTF8(Head(s)) \o UTF8Seq(Tail(s))
HexVal(c) == IF c >= 48 /\ c <= 57 THEN c - 48 ELSE IF c >= 65 /\ c <= 70 THEN c - 55 ELSE IF c >= 97 /\ c <= 102 THEN c - 87 ELSE -1
\* -> [ok, bytes]
RECURSIVE PctDecode(_)
PctDecode(s) ==
    IF s = <<>> THEN [ok |-> TRUE, b |-> <<>>]
    ELSE IF Head(s) = 37 THEN
        IF Len(s) < 3 \/ HexVal(s[2]) < 0 \/ HexVal(s[3]) < 0 THEN [ok |-> FALSE, b |-> <<>>]
        ELSE LET r == PctDecode(SubSeq(s, 4, Len(s))) IN [ok |-> r.ok, b |-> <<HexVal(s[2]) * 16 + HexVal(s[3])>> \o r.b]
    ELSE IF Head(s) > 126 \/ Head(s) <= 32 THEN [ok |-> FALSE, b |-> <<>>]        \* raw non-ASCII / space / control in the output
    ELSE LET r == PctDecode(Tail(s)) IN [ok |-> r.ok, b |-> <<Head(s)>> \o r.b]
Reversible(enc, s) == LET d == PctDecode(enc) IN d.ok /\ d.b = UTF8Seq(s)
Law ==
    IF C.kind = "regexEscape" THEN
        IF ~C.escaped THEN <<"REJECT", "regexEscape-failed", C.s>>
        ELSE IF \E i \in 1..Len(C.tests) : C.tests[i].matched # (C.tests[i].t = C.s)
             THEN <<"REJECT", "regexEscape-does-not-match-exactly", <<C.s, C.tests>>>>
        ELSE <<"ACCEPT">>
    ELSE IF ~Reversible(C.enc, C.s) THEN <<"REJECT", "urlEncode-not-reversible", <<C.s, C.enc>>>>
         ELSE IF ~Reversible(C.comp, C.s) THEN <<"REJECT", "urlEncodeComponent-not-reversible", <<C.s, C.comp>>>>
         ELSE <<"ACCEPT">>
Init == tid \in 1..Len(Cases) /\ verdict = "open"
Next == /\ verdict = "open" /\ verdict' = Law[1] /\ PrintT(<<"V", tid>> \o Law) /\ UNCHANGED tid
Spec == Init /\ [][Next]_vars
=============================================================================
