---------------------------- MODULE MC_Json ----------------------------
(* C14 leg A: over a bounded value domain (strings <= 2 over the alphabet a . 0 , ] } " \ and a
   control character, numbers incl. fractions and a decimal-form number, arrays / objects to depth 2)
   the reference compact serialiser JsonText satisfies Acceptable, and it is injective.        *)
EXTENDS BareJson
Alpha == <<97, 46, 48, 44, 93, 125, 34, 92, 10>>
Strs == {<<>>} \cup { <<Alpha[i]>> : i \in 1..Len(Alpha) } \cup { <<Alpha[i], Alpha[j]>> : i, j \in 1..Len(Alpha) }
Nums == { IntV(0), IntV(1), IntV(-1), IntV(10), Q(3, 2), Q(-1, 4), Q(1, 1024),
          [t |-> "num", f |-> "d", s |-> 1, ds |-> <<1>>, e |-> 17], [t |-> "num", f |-> "d", s |-> 1, ds |-> <<1, 5>>, e |-> -6] }
Leaf == {Null, Bool(TRUE), Bool(FALSE)} \cup Nums \cup { Str(s) : s \in Strs }
SmallLeaf == {Null, IntV(1), Q(3, 2), Str(<<46, 48>>), Str(<<44>>), Str(<<34>>)}
Keys == {<<>>, <<97>>, <<46>>, <<97, 97>>, <<34>>}
L1 == Leaf \cup { [t |-> "array", v |-> <<>>] } \cup { [t |-> "array", v |-> <<x>>] : x \in Leaf }
           \cup { [t |-> "array", v |-> <<x, y>>] : x \in SmallLeaf, y \in SmallLeaf }
           \cup { [t |-> "object", v |-> <<>>] }
           \cup { [t |-> "object", v |-> <<[key |-> k, val |-> x]>>] : k \in Keys, x \in SmallLeaf }
           \cup { [t |-> "object", v |-> <<[key |-> kk[1], val |-> x], [key |-> kk[2], val |-> y]>>] : kk \in { p \in Keys \X Keys : p[1] # p[2] }, x \in {Null, IntV(1)}, y \in {Str(<<93>>)} }
L2 == L1 \cup { [t |-> "array", v |-> <<x>>] : x \in L1 } \cup { [t |-> "object", v |-> <<[key |-> <<97>>, val |-> x]>>] : x \in L1 }
VARIABLES v, w
vars == <<v, w>>
Init == v \in L2 /\ w \in {Null, IntV(1), IntV(10), Q(3, 2), Str(<<49>>), Str(<<>>), [t |-> "array", v |-> <<>>], [t |-> "array", v |-> <<Null>>],
                          [t |-> "object", v |-> <<>>], Str(<<91, 93>>), Str(<<110, 117, 108, 108>>), Bool(TRUE)}
Next == UNCHANGED vars
Spec == Init /\ [][Next]_vars
RoundTrip == LET t == JsonText(v, <<>>, 0) IN t.ok /\ Acceptable(v, t.s)
\* injective: the text of v equals the text of w only if they are the same value
Same(a, b) == a.t = b.t /\ Denotes(ParseJson(JsonText(a, <<>>, 0).s).v, b)
Injective == (JsonText(v, <<>>, 0).s = JsonText(w, <<>>, 0).s) => Same(v, w)
=============================================================================
