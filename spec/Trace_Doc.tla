---------------------------- MODULE Trace_Doc ----------------------------
(* X03: recorded runs of the REAL documentation tool (bare_script.baredoc.main on files in a scratch directory, stdout
   and exit status captured) validated against BareDoc, one source line per TLC step.  A case is
     [files (sequence of [name, missing, lines]), obs |-> [status, errors, funcs, raised]]
   with every text a sequence of code points.  One verdict line per trace.                                    *)
EXTENDS BareDoc, Json, IOUtils, TLC

Cases == JsonDeserialize(IOEnv.CASES)
VARIABLES tid, fi, n, d, verdict
vars == <<tid, fi, n, d, verdict>>
K == Cases[tid]
Obs == K.obs

ErrEq(a, b) == a.file = b.file /\ a.line = b.line /\ a.kind = b.kind /\ a.arg = b.arg
ArgsEq(a, b) == Len(a) = Len(b) /\ \A i \in 1..Len(a) : a[i].name = b[i].name /\ a[i].doc = b[i].doc
FuncEq(a, b) == /\ a.name = b.name /\ a.hasGroup = b.hasGroup /\ a.group = b.group /\ a.doc = b.doc /\ a.ret = b.ret
                /\ ArgsEq(a.args, b.args)
\* errors found while reading are a prefix of what the tool finally prints (it prints them first, in order)
PrefixOK(errs) == Len(errs) <= Len(Obs.errors) /\ \A i \in 1..Len(errs) : ErrEq(errs[i], Obs.errors[i])

Final(dd) ==
    LET out == Finish(dd) IN
    IF out.status # Obs.status THEN <<"REJECT", "exit-status", <<out.status, Obs.status, out.errors>>>>
    ELSE IF out.status = 1 THEN
        (IF Len(out.errors) = Len(Obs.errors) /\ \A i \in 1..Len(out.errors) : ErrEq(out.errors[i], Obs.errors[i]) THEN <<"ACCEPT">>
         ELSE <<"REJECT", "error-report", <<"specified", out.errors, "printed", Obs.errors>>>>)
    ELSE IF Len(out.funcs) = Len(Obs.funcs) /\ \A i \in 1..Len(out.funcs) : FuncEq(out.funcs[i], Obs.funcs[i]) THEN <<"ACCEPT">>
    ELSE <<"REJECT", "library-model", <<"specified", out.funcs, "printed", Obs.funcs>>>>

Init == tid \in 1..Len(Cases) /\ fi = 1 /\ n = 1 /\ d = Doc0 /\ verdict = "open"
Next ==
    /\ verdict = "open"
    /\ IF Obs.raised # "" THEN
            /\ verdict' = "REJECT" /\ PrintT(<<"V", tid, "REJECT", "tool-raised", Obs.raised>>) /\ UNCHANGED <<tid, fi, n, d>>
       ELSE IF fi > Len(K.files) THEN
            /\ verdict' = Final(d)[1] /\ PrintT(<<"V", tid>> \o Final(d)) /\ UNCHANGED <<tid, fi, n, d>>
       ELSE IF K.files[fi].missing THEN
            /\ d' = AddErr(d, Err(K.files[fi].name, 0, "load", K.files[fi].name)) /\ fi' = fi + 1 /\ n' = 1 /\ UNCHANGED <<tid, verdict>>
       ELSE IF n > Len(K.files[fi].lines) THEN fi' = fi + 1 /\ n' = 1 /\ UNCHANGED <<tid, d, verdict>>
       ELSE LET d2 == DocStep(d, K.files[fi].name, n, K.files[fi].lines[n]) IN
            IF Obs.status = 1 /\ ~PrefixOK(d2.errors) THEN
                /\ verdict' = "REJECT"
                /\ PrintT(<<"V", tid, "REJECT", "error-report-line", <<fi, n, d2.errors[Len(d2.errors)], Obs.errors>>>>)
                /\ UNCHANGED <<tid, fi, n, d>>
            ELSE d' = d2 /\ n' = n + 1 /\ UNCHANGED <<tid, fi, verdict>>
Spec == Init /\ [][Next]_vars

(* evaluated in every state of every validated trace *)
NamesUnique == \A i, j \in 1..Len(d.funcs) : d.funcs[i].name = d.funcs[j].name => i = j
CurValid == d.cur \in 0..Len(d.funcs)
=============================================================================
