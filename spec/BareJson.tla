---------------------------- MODULE BareJson ----------------------------
(* C14: RFC 8259 as a recursive-descent recogniser / evaluator over code points.  ParseJson(text)
   returns the value in tree form with object members IN TEXT ORDER (so key order is visible) and
   numbers as normalised decimals [t |-> "jnum", s, ds, e, dot, exp] (the token contains "." / an exponent).
   Acceptable(v, text): the text is valid JSON, denotes v, has sorted unique keys in every object
   and writes integral numbers without a fraction.  Whitespace is free (A26).                *)
EXTENDS BareText

JFail == [ok |-> FALSE, i |-> 0, v |-> Null]
JOk(v, i) == [ok |-> TRUE, i |-> i, v |-> v]
IsWs(c) == c \in {32, 9, 10, 13}
IsDigit(c) == c >= 48 /\ c <= 57
RECURSIVE SkipWs(_, _)
SkipWs(s, i) == IF i <= Len(s) /\ IsWs(s[i]) THEN SkipWs(s, i + 1) ELSE i
Lit(s, i, w) == i + Len(w) - 1 <= Len(s) /\ \A k \in 1..Len(w) : s[i + k - 1] = w[k]
RECURSIVE DigitsEnd(_, _)
DigitsEnd(s, i) == IF i <= Len(s) /\ IsDigit(s[i]) THEN DigitsEnd(s, i + 1) ELSE i
HexV(c) == IF IsDigit(c) THEN c - 48 ELSE IF c >= 97 /\ c <= 102 THEN c - 87 ELSE IF c >= 65 /\ c <= 70 THEN c - 55 ELSE -1
Hex4At(s, i) == HexV(s[i]) * 4096 + HexV(s[i + 1]) * 256 + HexV(s[i + 2]) * 16 + HexV(s[i + 3])
RECURSIVE StrBody(_, _, _)
StrBody(s, i, acc) ==
    IF i > Len(s) THEN JFail
    ELSE IF s[i] = 34 THEN JOk(acc, i + 1)
    ELSE IF s[i] < 32 THEN JFail
    ELSE IF s[i] = 92 THEN
        IF i + 1 > Len(s) THEN JFail
        ELSE LET e == s[i + 1] IN
             IF e = 117 THEN
                IF i + 5 > Len(s) \/ \E k \in 2..5 : HexV(s[i + k]) < 0 THEN JFail
                ELSE LET u == Hex4At(s, i + 2) IN
                     IF u >= 55296 /\ u <= 56319 /\ i + 11 <= Len(s) /\ s[i + 6] = 92 /\ s[i + 7] = 117
                        /\ (\A k \in 8..11 : HexV(s[i + k]) >= 0) /\ Hex4At(s, i + 8) >= 56320 /\ Hex4At(s, i + 8) <= 57343
                     THEN StrBody(s, i + 12, Append(acc, 65536 + (u - 55296) * 1024 + (Hex4At(s, i + 8) - 56320)))
                     ELSE StrBody(s, i + 6, Append(acc, u))
             ELSE LET m == CASE e = 34 -> 34 [] e = 92 -> 92 [] e = 47 -> 47 [] e = 98 -> 8 [] e = 102 -> 12
                             [] e = 110 -> 10 [] e = 114 -> 13 [] e = 116 -> 9 [] OTHER -> -1 IN
                  IF m < 0 THEN JFail ELSE StrBody(s, i + 2, Append(acc, m))
    ELSE StrBody(s, i + 1, Append(acc, s[i]))

\* normalised decimal of a number token: sign, significant digits (no leading / trailing zeros), exponent e
\* with value = s * 0.ds * 10^e; zero has ds = <<>>
RECURSIVE StripLead(_), StripTrail(_), ExpVal(_, _, _)
StripLead(ds) == IF ds # <<>> /\ Head(ds) = 0 THEN StripLead(Tail(ds)) ELSE ds
StripTrail(ds) == IF ds # <<>> /\ ds[Len(ds)] = 0 THEN StripTrail(SubSeq(ds, 1, Len(ds) - 1)) ELSE ds
ExpVal(s, i, j) == IF i >= j THEN 0 ELSE (IF j - i > 4 THEN 99999 ELSE ExpVal(s, i, j - 1) * 10 + (s[j - 1] - 48))
NumTok(s, i) ==
    LET neg == i <= Len(s) /\ s[i] = 45
        a == IF neg THEN i + 1 ELSE i
        b == DigitsEnd(s, a)
    IN IF b = a \/ (s[a] = 48 /\ b > a + 1) THEN JFail
       ELSE LET hasDot == b <= Len(s) /\ s[b] = 46
                c == IF hasDot THEN DigitsEnd(s, b + 1) ELSE b
            IN IF hasDot /\ c = b + 1 THEN JFail
               ELSE LET hasExp == c <= Len(s) /\ s[c] \in {101, 69}
                        es == IF hasExp /\ c + 1 <= Len(s) /\ s[c + 1] \in {43, 45} THEN c + 2 ELSE c + 1
                        ee == IF hasExp THEN DigitsEnd(s, es) ELSE c
                    IN IF hasExp /\ ee = es THEN JFail
                       ELSE LET ip == [k \in 1..(b - a) |-> s[a + k - 1] - 48]
                                fp == IF hasDot THEN [k \in 1..(c - b - 1) |-> s[b + k] - 48] ELSE <<>>
                                all == ip \o fp
                                lead == Len(all) - Len(StripLead(all))
                                ds == StripTrail(StripLead(all))
                                ex == IF hasExp THEN (IF s[c + 1] = 45 THEN -ExpVal(s, es, ee) ELSE ExpVal(s, es, ee)) ELSE 0
                            IN JOk([t |-> "jnum", s |-> IF neg THEN -1 ELSE 1, ds |-> ds,
                                    e |-> IF ds = <<>> THEN 0 ELSE Len(ip) - lead + ex, dot |-> hasDot, exp |-> hasExp], ee)

RECURSIVE JValue(_, _), JElems(_, _, _), JMembers(_, _, _)
JValue(s, i0) ==
    LET i == SkipWs(s, i0) IN
    IF i > Len(s) THEN JFail
    ELSE IF Lit(s, i, S_null) THEN JOk(Null, i + 4)
    ELSE IF Lit(s, i, S_true) THEN JOk(Bool(TRUE), i + 4)
    ELSE IF Lit(s, i, S_false) THEN JOk(Bool(FALSE), i + 5)
    ELSE IF s[i] = 34 THEN LET r == StrBody(s, i + 1, <<>>) IN IF r.ok THEN JOk(Str(r.v), r.i) ELSE JFail
    ELSE IF s[i] = 91 THEN
        LET j == SkipWs(s, i + 1) IN
        IF j <= Len(s) /\ s[j] = 93 THEN JOk([t |-> "array", v |-> <<>>], j + 1) ELSE JElems(s, i + 1, <<>>)
    ELSE IF s[i] = 123 THEN
        LET j == SkipWs(s, i + 1) IN
        IF j <= Len(s) /\ s[j] = 125 THEN JOk([t |-> "object", v |-> <<>>], j + 1) ELSE JMembers(s, i + 1, <<>>)
    ELSE NumTok(s, i)
JElems(s, i, acc) ==
    LET r == JValue(s, i) IN
    IF ~r.ok THEN JFail
    ELSE LET j == SkipWs(s, r.i) IN
         IF j > Len(s) THEN JFail
         ELSE IF s[j] = 44 THEN JElems(s, j + 1, Append(acc, r.v))
         ELSE IF s[j] = 93 THEN JOk([t |-> "array", v |-> Append(acc, r.v)], j + 1)
         ELSE JFail
JMembers(s, i, acc) ==
    LET k == SkipWs(s, i) IN
    IF k > Len(s) \/ s[k] # 34 THEN JFail
    ELSE LET ks == StrBody(s, k + 1, <<>>) IN
         IF ~ks.ok THEN JFail
         ELSE LET c == SkipWs(s, ks.i) IN
              IF c > Len(s) \/ s[c] # 58 THEN JFail
              ELSE LET r == JValue(s, c + 1) IN
                   IF ~r.ok THEN JFail
                   ELSE LET j == SkipWs(s, r.i)
                            acc2 == Append(acc, [key |-> ks.v, val |-> r.v]) IN
                        IF j > Len(s) THEN JFail
                        ELSE IF s[j] = 44 THEN JMembers(s, j + 1, acc2)
                        ELSE IF s[j] = 125 THEN JOk([t |-> "object", v |-> acc2], j + 1)
                        ELSE JFail
ParseJson(s) == LET r == JValue(s, 1) IN IF r.ok /\ SkipWs(s, r.i) = Len(s) + 1 THEN r ELSE JFail

(* the decimal of an abstract number *)
QToDec(q) ==
    LET m == Abs(q.n)
        ip == IF m \div q.d = 0 THEN <<>> ELSE NatDigits(m \div q.d)
        fr == FracDigits(m % q.d, q.d, 12)
        all == ip \o fr
        lead == Len(all) - Len(StripLead(all))
    IN [s |-> IF q.n < 0 THEN -1 ELSE 1, ds |-> StripTrail(StripLead(all)), e |-> IF m = 0 THEN 0 ELSE Len(ip) - lead]
NumDenotes(j, v) ==      \* token j denotes the abstract number v
    IF v.f = "q" THEN LET d == QToDec(v) IN j.ds = d.ds /\ (d.ds = <<>> \/ (j.s = d.s /\ j.e = d.e))
    ELSE IF v.f = "d" THEN j.ds = v.ds /\ j.s = v.s /\ j.e = v.e
    ELSE FALSE
IsIntegralNum(v) == IF v.f = "q" THEN v.d = 1 ELSE v.f = "d" /\ v.e >= Len(v.ds)

\* parsed value p (text order) denotes v; keys sorted ascending and unique; integral numbers without "."
RECURSIVE Denotes(_, _)
KeysSorted(ps) == \A i \in 1..(Len(ps) - 1) : CmpSeqCP(ps[i].key, ps[i + 1].key) < 0
Denotes(p, v) ==
    IF p.t = "jnum" THEN v.t = "num" /\ NumDenotes(p, v) /\ (IsIntegralNum(v) /\ ~p.exp => ~p.dot)    \* fixed notation: no fraction
    ELSE IF p.t # v.t THEN FALSE
    ELSE CASE p.t = "str" -> p.v = v.v
           [] p.t = "bool" -> p.v = v.v
           [] p.t = "array" -> Len(p.v) = Len(v.v) /\ \A i \in 1..Len(p.v) : Denotes(p.v[i], v.v[i])
           [] p.t = "object" -> /\ Len(p.v) = Len(v.v) /\ KeysSorted(p.v)
                                /\ \A i \in 1..Len(p.v) : \E j \in 1..Len(v.v) : p.v[i].key = v.v[j].key /\ Denotes(p.v[i].val, v.v[j].val)
           [] OTHER -> TRUE
Acceptable(v, text) == LET r == ParseJson(text) IN r.ok /\ Denotes(r.v, v)
=============================================================================
