---------------------------- MODULE MC_Compare ----------------------------
(* C11 leg A: the comparison of BareValues is a total preorder on a pool of abstract values of all
   nine types (nested containers, exact and decimal numbers, datetimes): reflexive, antisymmetric,
   transitive, null first, different types by type name.  All pairs and triples are explored.   *)
EXTENDS BareValues
N(n) == IntV(n)
A(s) == [t |-> "array", v |-> s]
O(s) == [t |-> "object", v |-> s]
KV(k, v) == [key |-> k, val |-> v]
Dec(s, ds, e) == [t |-> "num", f |-> "d", s |-> s, ds |-> ds, e |-> e]
Pool == <<
    Null, Bool(FALSE), Bool(TRUE),
    N(0), ZeroNeg, N(1), N(-1), N(2), Q(1, 2), Q(-1, 2), Q(3, 2), Q(1, 1024), N(1073741824),
    Dec(1, <<1>>, 0), Dec(1, <<1, 2, 3, 4, 5, 6, 7, 8, 9, 0, 1>>, 11), Dec(-1, <<1>>, 301), Dec(1, <<1>>, 301),
    Dec(1, <<1, 5>>, 1), Dec(1, <<4, 9, 9, 9, 9, 9, 9, 9, 9, 9, 9, 9, 9, 9, 9, 9, 9>>, 0), Dec(1, <<3, 3, 3, 3>>, 0),
    Str(<<>>), Str(<<97>>), Str(<<97, 98>>), Str(<<98>>), Str(<<65>>), Str(<<128512>>), Str(<<49>>),
    Dt(738885, 0), Dt(738885, 1), Dt(738886, 0), Dt(0, 0),
    A(<<>>), A(<<N(1)>>), A(<<N(1), N(2)>>), A(<<N(2)>>), A(<<Null>>), A(<<A(<<>>)>>), A(<<A(<<N(1)>>), N(0)>>), A(<<Str(<<97>>)>>),
    O(<<>>), O(<<KV(<<97>>, N(1))>>), O(<<KV(<<97>>, N(2))>>), O(<<KV(<<98>>, N(1))>>),
    O(<<KV(<<98>>, N(1)), KV(<<97>>, N(1))>>), O(<<KV(<<97>>, N(1)), KV(<<98>>, N(1))>>), O(<<KV(<<97>>, A(<<N(1)>>))>>),
    [t |-> "fn"], Regex >>
CONSTANT KMod
VARIABLES i, j, k
vars == <<i, j, k>>
Init == i \in 1..Len(Pool) /\ j \in 1..Len(Pool) /\ k \in { x \in 1..Len(Pool) : x % KMod = 0 }
Next == UNCHANGED vars
Spec == Init /\ [][Next]_vars
C(x, y) == Compare(Pool[x], Pool[y], <<>>)
Range == C(i, j) \in {-1, 0, 1}
Reflexive == C(i, i) = 0
Antisymmetric == C(i, j) = -C(j, i)
Transitive == (C(i, j) <= 0 /\ C(j, k) <= 0) => C(i, k) <= 0
EqTransitive == (C(i, j) = 0 /\ C(j, k) = 0) => C(i, k) = 0
NullFirst == (Pool[i].t = "null" /\ Pool[j].t # "null") => C(i, j) = -1
ByTypeName == (Pool[i].t # Pool[j].t /\ Pool[i].t # "null" /\ Pool[j].t # "null") => C(i, j) = CmpInt(TypeRank(Pool[i]), TypeRank(Pool[j]))
=============================================================================
