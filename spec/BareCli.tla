---------------------------- MODULE BareCli ----------------------------
(* The command-line driver (src/bare_script/bare.py main) as a state machine - coverage beyond the
   twenty listed properties (check id X01).  One action per critical section of the driver:

       EvalVar      one "-v NAME EXPR" pair: parse + evaluate (no globals), store into the shared globals
       Load         obtain the source of the next script (a file may be missing; inline code numbers itself)
       Parse        parse_script; a syntax error is reported under the script's name
       Lint         only with -s / -d: static analysis report; with -s a warning ends the run with status 1
       Execute      execute_script with the SHARED globals, debug flag, stdout logging; the result becomes
                    the exit status; a runtime error is reported under the script's name
       Finish       sys.exit(status)

   What the driver promises and the invariants below state:
     - scripts run in command-line order and share one globals object (a later script sees what an earlier
       one assigned, and the -v values);
     - the exit status is the integral result 0..255 of the LAST executed script, else 1 / 0 by truthiness;
       the first non-zero status ends the run: nothing after it is loaded, parsed, linted or executed;
     - with -s nothing is executed at all; every script is reported ("OK" or the warning count);
     - every failure (bad -v expression, missing file, syntax error, runtime error) gives status 1 and an
       error report, never a host traceback.
   Modelled deviation of the code, named: a load failure is reported under the name of the PREVIOUS script
   (error_name is assigned only after a successful load) - `LoadErrorUsesPreviousName`.

   A configuration is [debug, static, vars, scripts]:
     vars[i]    = [name, ok, e]         ok = FALSE: the expression text does not parse
     scripts[i] = [type "file"|"code", name (files: the path), src "ok"|"broken"|"missing", model]
   Output is a sequence of events (the driver's stdout, line classes):
     [ev "log", text]  [ev "dbgfail", name]  [ev "static", name, lo, hi]  [ev "timing"]
     [ev "error", hasName, name, kind, arg]                                                        *)
EXTENDS BareLint

LoadErrorUsesPreviousName == TRUE

\* ---- static analysis: the count of warnings lies between the exactly specified kinds and all justified ones
FunIdxOf(m) == { i \in 1..Len(m) : m[i].k = "function" }
\* exactly specified kinds: unknown labels (one per name), redefinitions (one per EXTRA definition statement of a label /
\* function, one per extra occurrence of an argument name), the empty script
NLabels(code) == Cardinality({ i \in 1..Len(code) : code[i].k = "label" })
NFunctions(code) == Cardinality({ i \in 1..Len(code) : code[i].k = "function" })
ExactWarnings(m) ==
    Cardinality(UnknownLabels(m)) + (NLabels(m) - Cardinality(LabelDefs(m))) + (NFunctions(m) - Cardinality(FunctionNames(m)))
    + (IF m = <<>> THEN 1 ELSE 0)
\* "used before assignment" can only be said of a variable that is both assigned and used in the scope
UsedBeforeBound(code) == Cardinality(Assigned(code) \cap Uses(code))
FnExact(f) == Cardinality(UnknownLabels(f.body)) + (NLabels(f.body) - Cardinality(LabelDefs(f.body))) + (Len(f.args) - Cardinality(ArgSet(f)))
FnSoft(f) == Cardinality(UnusedLabels(f.body)) + Cardinality(PointlessAt(f.body)) + Cardinality(UnusedVars(f)) + Cardinality(UnusedArgs(f))
             + UsedBeforeBound(f.body)
RECURSIVE SumFns(_, _, _)
SumFns(m, i, exact) ==
    IF i > Len(m) THEN 0
    ELSE (IF m[i].k = "function" THEN (IF exact THEN FnExact(m[i]) ELSE FnSoft(m[i])) ELSE 0) + SumFns(m, i + 1, exact)
ExactInFns(m) == SumFns(m, 1, TRUE)
SoftWarnings(m) == Cardinality(UnusedLabels(m)) + Cardinality(PointlessAt(m)) + UsedBeforeBound(m) + SumFns(m, 1, FALSE)
WarnLo(m) == ExactWarnings(m) + ExactInFns(m)
WarnHi(m) == WarnLo(m) + SoftWarnings(m)

\* ---- exit status of a result value
Decidable(v) == v.t # "num" \/ v.f = "q"
StatusOf(v, heap) ==
    IF v.t = "num" /\ v.f = "q" /\ v.d = 1 /\ v.n >= 0 /\ v.n <= 255 THEN v.n
    ELSE IF Truthy(v, heap) THEN 1 ELSE 0

InlineName(k) == "-c " \o ToString(k)

(* driver state:
     phase   "vars" | "load" | "parse" | "lint" | "exec" | "done"
     vi, si  next -v pair / current script
     inl     inline scripts seen so far
     g, heap the shared globals
     status  exit status so far
     out     output events
     hasErr, errName   the name an error would be reported under
     skip    TRUE when the run left the exact domain (no verdict)                                  *)
\* argparse takes the file arguments as ONE group: files separated by a -c are a usage error (exit status 2, nothing on
\* stdout) - behaviour of the host's argument parser that the driver inherits, named here: SplitFileGroupsRejected
FilePos(cfg) == { i \in 1..Len(cfg.scripts) : cfg.scripts[i].type = "file" }
SplitFileGroups(cfg) == \E i, j \in FilePos(cfg) : i < j /\ \E k \in (i + 1)..(j - 1) : k \notin FilePos(cfg)
Cli0(cfg) ==
    [phase |-> IF SplitFileGroups(cfg) THEN "done" ELSE IF cfg.vars = <<>> THEN "load" ELSE "vars", vi |-> 1, si |-> 1, inl |-> 0,
     g |-> <<>>, heap |-> <<>>, status |-> IF SplitFileGroups(cfg) THEN 2 ELSE 0, out |-> <<>>, hasErr |-> FALSE, errName |-> "",
     curName |-> "", skip |-> FALSE, executed |-> 0]

ErrEv(c, kind, arg) == [ev |-> "error", hasName |-> c.hasErr, name |-> c.errName, kind |-> kind, arg |-> arg]
FailWith(c, kind, arg) == [c EXCEPT !.out = Append(@, ErrEv(c, kind, arg)), !.status = 1, !.phase = "done"]

EvalVar(cfg, names, c) ==
    LET v == cfg.vars[c.vi] IN
    IF ~v.ok THEN FailWith(c, "varsyntax", "")
    ELSE LET s0 == InitState(<<>>, c.heap, 0, FALSE, FALSE, names)      \* evaluated WITHOUT globals and WITHOUT the library (built-ins only)
             r == Eval(v.e, NoLoc, s0, <<DefaultFuel, TRUE>>) IN
         IF r.st.exc = "skip" \/ r.st.exc = "fuel" THEN [c EXCEPT !.skip = TRUE, !.phase = "done"]
         ELSE IF r.st.exc # "" THEN FailWith(c, r.st.exc, r.st.excArg)
         ELSE [c EXCEPT !.g = (v.name :> r.v) @@ c.g, !.heap = r.st.heap, !.vi = @ + 1,
                        !.phase = IF c.vi = Len(cfg.vars) THEN "load" ELSE "vars"]

Load(cfg, c) ==
    IF c.si > Len(cfg.scripts) THEN [c EXCEPT !.phase = "done"]
    ELSE LET s == cfg.scripts[c.si] IN
         IF s.type = "file" THEN
            IF s.src = "missing" THEN FailWith(c, "load", s.name)       \* LoadErrorUsesPreviousName
            ELSE [c EXCEPT !.curName = s.name, !.phase = "parse"]
         ELSE [c EXCEPT !.inl = @ + 1, !.curName = InlineName(c.inl + 1), !.phase = "parse"]

Parse(cfg, c) ==
    LET c1 == [c EXCEPT !.hasErr = TRUE, !.errName = c.curName] IN
    IF cfg.scripts[c.si].src = "broken" THEN FailWith(c1, "syntax", "")
    ELSE [c1 EXCEPT !.phase = IF cfg.static \/ cfg.debug THEN "lint" ELSE "exec"]

NextScript(c) == [c EXCEPT !.si = @ + 1, !.phase = "load"]

Lint(cfg, c) ==
    LET m == cfg.scripts[c.si].model
        c1 == [c EXCEPT !.out = Append(@, [ev |-> "static", name |-> c.curName, lo |-> WarnLo(m), hi |-> WarnHi(m)])] IN
    IF cfg.static THEN
        \* the count is not exact (soft kinds): a possible warning with -s makes the outcome undecided
        IF WarnLo(m) > 0 THEN [c1 EXCEPT !.status = 1, !.phase = "done"]
        ELSE IF WarnHi(m) > 0 THEN [c1 EXCEPT !.skip = TRUE, !.phase = "done"]
        ELSE NextScript(c1)
    ELSE [c1 EXCEPT !.phase = "exec"]

Execute(cfg, names, c) ==
    LET m == cfg.scripts[c.si].model
        s0 == InitState(c.g, c.heap, 0, cfg.debug, TRUE, names)
        r == Run(m, 1, NoLoc, s0, DefaultFuel)
        c1 == [c EXCEPT !.out = @ \o r.st.log, !.g = r.st.g, !.heap = r.st.heap, !.executed = @ + 1] IN
    IF r.st.exc = "skip" \/ r.st.exc = "fuel" THEN [c1 EXCEPT !.skip = TRUE, !.phase = "done"]
    ELSE IF r.st.exc # "" THEN FailWith(c1, r.st.exc, r.st.excArg)
    ELSE IF ~Decidable(r.ret) THEN [c1 EXCEPT !.skip = TRUE, !.phase = "done"]
    ELSE LET code == StatusOf(r.ret, r.st.heap)
             c2 == [c1 EXCEPT !.status = code,
                              !.out = IF cfg.debug THEN Append(@, [ev |-> "timing"]) ELSE @] IN
         IF code # 0 THEN [c2 EXCEPT !.phase = "done"] ELSE NextScript(c2)

CliStep(cfg, names, c) ==
    CASE c.phase = "vars"  -> EvalVar(cfg, names, c)
      [] c.phase = "load"  -> Load(cfg, c)
      [] c.phase = "parse" -> Parse(cfg, c)
      [] c.phase = "lint"  -> Lint(cfg, c)
      [] c.phase = "exec"  -> Execute(cfg, names, c)
      [] OTHER -> c

RECURSIVE CliRun(_, _, _)
CliRun(cfg, names, c) == IF c.phase = "done" THEN c ELSE CliRun(cfg, names, CliStep(cfg, names, c))
=============================================================================
