---------------------------- MODULE MC_Lint ----------------------------
(* C18 leg A: on every statement list <= N over the jump alphabet, acting on a warning of the actionable
   kinds (delete an unused label, delete a pointless statement, rename an unused local variable or an
   unused parameter - in the global scope or in a function body) does not change the result, the probe
   sequence or the final globals of the run; and a model with no unknown label in any scope never ends
   with the "Unknown jump label" error.                                                          *)
EXTENDS JumpAlphabet, BareLint
CONSTANT N
VARIABLES ix
vars == <<ix>>
Init == ix \in Tuples(N)
Next == UNCHANGED vars
Spec == Init /\ [][Next]_vars
M == ProgOf(ix)
S0 == InitState(G0, <<>>, 200, FALSE, TRUE, Names0)
NoCnt(log) == [i \in 1..Len(log) |-> [ev |-> log[i].ev, args |-> log[i].args]]
Obs(code) == LET r == Run(code, 1, NoLoc, S0, 60) IN
             [status |-> r.st.exc, ret |-> Extern(r.ret, r.st.heap), log |-> NoCnt(r.st.log),
              g |-> [n \in { x \in DOMAIN r.st.g : r.st.g[x].t # "fn" } |-> Extern(r.st.g[n], r.st.heap)],
              fns |-> { x \in DOMAIN r.st.g : r.st.g[x].t = "fn" }]
FunIdx == { i \in 1..Len(M) : M[i].k = "function" }
\* every edited version of M that a warning of an actionable kind suggests
Edits ==
       { DeleteLabel(M, l) : l \in UnusedLabels(M) }
  \cup { DeleteStmt(M, i) : i \in PointlessAt(M) }
  \cup UNION { { [M EXCEPT ![i].body = DeleteLabel(M[i].body, l)] : l \in UnusedLabels(M[i].body) } : i \in FunIdx }
  \cup UNION { { [M EXCEPT ![i].body = DeleteStmt(M[i].body, j)] : j \in PointlessAt(M[i].body) } : i \in FunIdx }
  \cup UNION { { [M EXCEPT ![i].body = RenameAssigned(M[i].body, v, v \o "_unused")] : v \in UnusedVars(M[i]) } : i \in FunIdx }
  \cup UNION { { [M EXCEPT ![i] = RenameArg(M[i], a, a \o "_unused")] : a \in UnusedArgs(M[i]) } : i \in FunIdx }
EditsSound == LET o == Obs(M) IN o.status = "limit" \/ \A e \in Edits : Obs(e) = o
NoUnknownNoError ==
    (UnknownLabels(M) = {} /\ \A i \in FunIdx : UnknownLabels(M[i].body) = {}) => Obs(M).status # "label"
=============================================================================
