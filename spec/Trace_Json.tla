---------------------------- MODULE Trace_Json ----------------------------
(* C14 on the real serialiser: for a value v, text = jsonStringify(v [, indent]) must satisfy
   Acceptable(v, text) (valid JSON denoting v, sorted keys, integral numbers without a fraction),
   and both jsonParse(text) and a standard JSON parser (Python's json.loads) must give back v.   *)
EXTENDS BareJson, Json, IOUtils
Cases == JsonDeserialize(IOEnv.CASES)
VARIABLES tid, verdict
vars == <<tid, verdict>>
C == Cases[tid]
Law ==
    IF ~C.isText THEN <<"REJECT", "jsonStringify-did-not-return-text", C.v>>
    ELSE LET r == ParseJson(C.text) IN
         IF ~r.ok THEN <<"REJECT", "not-valid-JSON", C.text>>
         ELSE IF ~Denotes(r.v, C.v) THEN <<"REJECT", "text-does-not-denote-the-value", <<C.v, r.v>>>>
         ELSE IF ~Matches(C.v, C.back) THEN <<"REJECT", "jsonParse-of-the-text-differs", <<C.v, C.back>>>>
         ELSE IF ~Matches(C.v, C.std) THEN <<"REJECT", "standard-parser-result-differs", <<C.v, C.std>>>>
         ELSE IF ~C.fresh THEN <<"REJECT", "jsonParse-result-is-not-fresh", C.v>>
         ELSE <<"ACCEPT">>
Init == tid \in 1..Len(Cases) /\ verdict = "open"
Next == /\ verdict = "open" /\ verdict' = Law[1] /\ PrintT(<<"V", tid>> \o Law) /\ UNCHANGED tid
Spec == Init /\ [][Next]_vars
=============================================================================
