---------------------------- MODULE BareDiff ----------------------------
(* C20: what a line difference must satisfy (Reconstructs - reference layer) and a transcription
   of the diffLines algorithm of include/diff.bare (DiffAlg - implementation-shaped layer).
   A difference is a sequence of blocks [type, lines] with type in {"Identical","Add","Remove"}.    *)
EXTENDS Integers, Sequences, TLC

RECURSIVE ConcatOf(_, _)
ConcatOf(ds, types) ==
    IF ds = <<>> THEN <<>>
    ELSE (IF Head(ds).type \in types THEN Head(ds).lines ELSE <<>>) \o ConcatOf(Tail(ds), types)
Reconstructs(l, r, ds) ==
    /\ \A i \in 1..Len(ds) : ds[i].type \in {"Identical", "Add", "Remove"} /\ ds[i].lines # <<>>
    /\ ConcatOf(ds, {"Identical", "Remove"}) = l
    /\ ConcatOf(ds, {"Identical", "Add"}) = r
    /\ (l = r => \A i \in 1..Len(ds) : ds[i].type = "Identical")
WhyNot(l, r, ds) ==
    IF \E i \in 1..Len(ds) : ds[i].type \notin {"Identical", "Add", "Remove"} THEN "unknown block type"
    ELSE IF \E i \in 1..Len(ds) : ds[i].lines = <<>> THEN "empty block"
    ELSE IF ConcatOf(ds, {"Identical", "Remove"}) # l THEN "Identical + Remove blocks do not give the left lines"
    ELSE IF ConcatOf(ds, {"Identical", "Add"}) # r THEN "Identical + Add blocks do not give the right lines"
    ELSE "identical inputs yield an Add or Remove block"

(* the algorithm of diff.bare on 0-based cursors (il, ir) *)
Blk(t, lines) == [type |-> t, lines |-> lines]
From(s, i) == SubSeq(s, i + 1, Len(s))            \* arraySlice(s, i)
Slice(s, i, j) == SubSeq(s, i + 1, j)              \* arraySlice(s, i, j)
RECURSIVE CommonRun(_, _, _, _)
CommonRun(l, r, il, ir) ==   \* number of consecutive identical lines from (il, ir)
    IF il < Len(l) /\ ir < Len(r) /\ l[il + 1] = r[ir + 1] THEN 1 + CommonRun(l, r, il + 1, ir + 1) ELSE 0
\* look-ahead: first left index >= il (outer loop) and for it the first right index >= ir with equal lines
MatchPoint(l, r, il, ir) ==
    LET cands == { p \in il..(Len(l) - 1) : \E q \in ir..(Len(r) - 1) : l[p + 1] = r[q + 1] } IN
    IF cands = {} THEN [found |-> FALSE, il |-> il, ir |-> ir]
    ELSE LET p == CHOOSE p \in cands : \A x \in cands : p <= x
             qs == { q \in ir..(Len(r) - 1) : l[p + 1] = r[q + 1] }
             q == CHOOSE q \in qs : \A x \in qs : q <= x
         IN [found |-> TRUE, il |-> p, ir |-> q]
RECURSIVE DiffFrom(_, _, _, _, _, _)
DiffFrom(l, r, il, ir, acc, fuel) ==
    IF fuel = 0 THEN acc
    ELSE IF ~(il < Len(l) \/ ir < Len(r)) THEN acc
    ELSE IF il >= Len(l) THEN (IF ir < Len(r) THEN Append(acc, Blk("Add", From(r, ir))) ELSE acc)
    ELSE IF ir >= Len(r) THEN Append(acc, Blk("Remove", From(l, il)))
    ELSE LET n == CommonRun(l, r, il, ir) IN
         IF n > 0 THEN DiffFrom(l, r, il + n, ir + n, Append(acc, Blk("Identical", Slice(l, il, il + n))), fuel - 1)
         ELSE LET m == MatchPoint(l, r, il, ir) IN
              IF ~m.found THEN acc \o <<Blk("Remove", From(l, il))>> \o <<Blk("Add", From(r, ir))>>
              ELSE LET a1 == IF m.il > il THEN Append(acc, Blk("Remove", Slice(l, il, m.il))) ELSE acc
                       a2 == IF m.ir > ir THEN Append(a1, Blk("Add", Slice(r, ir, m.ir))) ELSE a1
                   IN DiffFrom(l, r, m.il, m.ir, a2, fuel - 1)
DiffAlg(l, r) == DiffFrom(l, r, 0, 0, <<>>, 200)
=============================================================================
