---------------------------- MODULE Trace_Expr ----------------------------
(* C02 on the real parser: (1) the tree returned by parse_expression for the text of a flat
   expression equals Denote(flat); (2) for a random token string the parser accepts iff the
   token-level grammar does, and a rejection is a BareScriptParserError.                     *)
EXTENDS BareExprSyntax, Json, IOUtils, TreeEq
Cases == JsonDeserialize(IOEnv.CASES)
VARIABLES tid, verdict
vars == <<tid, verdict>>
C == Cases[tid]
Law ==
    IF C.kind = "flat" THEN
        IF C.outcome # "ok" THEN <<"REJECT", "well-formed-expression-rejected", C.outcome>>
        ELSE IF ~ExprEq(C.parsed, Denote(C.flat)) THEN <<"REJECT", "tree", <<Denote(C.flat), C.parsed>>>>
        ELSE <<"ACCEPT">>
    ELSE
        IF C.outcome \notin {"ok", "BareScriptParserError"} THEN <<"REJECT", "escaped", C.outcome>>
        ELSE IF Accepts(C.tokens) /\ C.outcome # "ok" THEN <<"REJECT", "grammatical-text-rejected", C.outcome>>
        ELSE IF ~Accepts(C.tokens) /\ C.outcome = "ok" THEN <<"REJECT", "ungrammatical-text-accepted", C.parsed>>
        ELSE <<"ACCEPT">>
Init == tid \in 1..Len(Cases) /\ verdict = "open"
Next == /\ verdict = "open" /\ verdict' = Law[1] /\ PrintT(<<"V", tid>> \o Law) /\ UNCHANGED tid
Spec == Init /\ [][Next]_vars
=============================================================================
