---------------------------- MODULE Trace_Encode ----------------------------
(* X06: the text-encoding helpers, exactly (C15 only demands that they are reversible / match exactly):
     urlEncode(s)           = every character kept when unreserved (A-Z a-z 0-9 - . _ ~) or one of ' : / & + ,
                              otherwise the upper-case %XX of each of its UTF-8 bytes
     urlEncodeComponent(s)  = the same with the safe set { ' }
     regexEscape(s)         = a backslash before each of ( ) [ ] { } ? * + - | ^ $ \ . & ~ # and the blanks
   A case is [s, enc, comp, esc] (code points; <<0>> stands for "the call did not return a string").            *)
EXTENDS BareLib, Json, IOUtils
Cases == JsonDeserialize(IOEnv.CASES)
VARIABLES tid, verdict
vars == <<tid, verdict>>
C == Cases[tid]
Law ==
    IF C.enc # UrlQuote(C.s, {39, 58, 47, 38, 43}) THEN <<"REJECT", "urlEncode", <<C.s, "specified", UrlQuote(C.s, {39, 58, 47, 38, 43}), "returned", C.enc>>>>
    ELSE IF C.comp # UrlQuote(C.s, {39}) THEN <<"REJECT", "urlEncodeComponent", <<C.s, "specified", UrlQuote(C.s, {39}), "returned", C.comp>>>>
    ELSE IF C.esc # ReEscape(C.s) THEN <<"REJECT", "regexEscape", <<C.s, "specified", ReEscape(C.s), "returned", C.esc>>>>
    ELSE <<"ACCEPT">>
Init == tid \in 1..Len(Cases) /\ verdict = "open"
Next == /\ verdict = "open" /\ verdict' = Law[1] /\ PrintT(<<"V", tid>> \o Law) /\ UNCHANGED tid
Spec == Init /\ [][Next]_vars
=============================================================================
