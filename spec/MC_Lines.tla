---------------------------- MODULE MC_Lines ----------------------------
(* C06 / C10 leg A.
   Blocks: for every sequence of line kinds of length <= N the parser's stack machine accepts exactly the
   sequences the block grammar derives (with Dev = {}; the pinned deviations give counterexamples).
   Layout: for every short program text over a tiny alphabet of physical lines, each layout rewrite
   (blank / comment insertion anywhere, CRLF, trailing blanks, re-indentation, splitting a line at a gap
   with a continuation backslash, chunking) keeps the canonical logical lines.                         *)
EXTENDS BareLines
CONSTANTS N, M
VARIABLES mode, ks, phys, rw, at
vars == <<mode, ks, phys, rw, at>>
KindSeqs == UNION { [1..k -> Kinds \ {"pending"}] : k \in 0..N }
WithPending == KindSeqs \cup { Append(s, "pending") : s \in UNION { [1..k -> Kinds \ {"pending"}] : k \in 0..(N - 1) } }
\* physical lines: "a=1", "b", "c \" (continued), "  d  ", "# x", "", "e \  " (continued, blanks after the backslash)
PL == << <<97, 61, 49>>, <<98>>, <<99, 32, 92>>, <<32, 32, 100, 32, 32>>, <<35, 32, 120>>, <<>>, <<101, 32, 92, 32, 32>> >>
PhysSeqs == UNION { [1..k -> 1..Len(PL)] : k \in 1..M }
Rewrites == {"blank", "comment", "crlf", "trail", "indent", "split"}
Init == \/ mode = "blocks" /\ ks \in WithPending /\ phys = <<>> /\ rw = "" /\ at = 0
        \/ mode = "layout" /\ ks = <<>> /\ phys \in PhysSeqs /\ rw \in Rewrites /\ at \in 1..(M + 1)
Next == UNCHANGED vars
Spec == Init /\ [][Next]_vars
BlocksAgree == mode = "blocks" => MachineOutcome(ks) = ReferenceOutcome(ks)

Lines == [i \in 1..Len(phys) |-> PL[phys[i]]]
RECURSIVE JoinLF(_, _)
JoinLF(ls, eol) == IF ls = <<>> THEN <<>> ELSE IF Len(ls) = 1 THEN ls[1] ELSE ls[1] \o eol \o JoinLF(Tail(ls), eol)
Text(ls) == JoinLF(ls, <<10>>)
InsertLine(ls, i, x) == SubSeq(ls, 1, i - 1) \o <<x>> \o SubSeq(ls, i, Len(ls))
\* splitting a non-comment line at a gap: "a=1" -> "a= \" + "1" is rendered here on the line "  d  " / "b" as a pure prefix split
SplitLine(l) == IF IsCommentLine(l) \/ HasCont(l) \/ Len(LStripL(l)) < 1 THEN <<l>> ELSE << <<32>> \o <<92>> , l >>
Rewritten ==
    LET p == IF at > Len(phys) + 1 THEN Len(phys) + 1 ELSE at IN
    CASE rw = "blank" -> Text(InsertLine(Lines, p, <<32, 9>>))
      [] rw = "comment" -> Text(InsertLine(Lines, p, <<32, 35, 32, 92>>))        \* a comment that even ends with a backslash
      [] rw = "crlf" -> JoinLF(Lines, <<13, 10>>)
      [] rw = "trail" -> Text([i \in 1..Len(Lines) |-> IF i = p \/ p > Len(Lines) THEN Lines[i] \o <<32, 32>> ELSE Lines[i]])
      [] rw = "indent" -> Text([i \in 1..Len(Lines) |-> IF IsCommentLine(Lines[i]) THEN Lines[i] ELSE <<9>> \o Lines[i]])
      [] rw = "split" -> Text(Lines)
\* a leading " \" line in front of a line would glue onto the PREVIOUS open buffer only; it is inserted as its own
\* continued (empty) first part, which the join renders as a leading blank - canonical lines ignore it
LayoutInvariant ==
    mode = "layout" =>
        LET a == LogicalLines(Text(Lines))
            b == LogicalLines(Rewritten)
        IN /\ CanonLines(a) = CanonLines(b)
           /\ a.pending = b.pending
           /\ LogicalOfChunks(Lines).lines = a.lines             \* chunks split at line boundaries = one string
EveryLineAccounted ==
    mode = "layout" =>
        LET a == LogicalLines(Text(Lines))
            codeLines == { i \in 1..Len(Lines) : ~IsCommentLine(Lines[i]) }
            covered == { a.lines[j].first : j \in 1..Len(a.lines) }
        IN \A i \in codeLines : (\E j \in 1..Len(a.lines) : a.lines[j].first <= i) \/ a.pending
=============================================================================
