---------------------------- MODULE MC_Include ----------------------------
(* C17 leg A: include trees over a small virtual file system with nested directories, a path
   base, a URL base, no base, absolute and relative references, system and plain includes,
   missing files, a throwing fetch and a syntactically broken file.
   Two independent formulations are compared on every tree:
     the BareCore machine (include stack with re-based resolution), and
     Expected - a structural recursion over the tree that states the property directly: each
     include is resolved against the file that contains the statement, fetched and run once, in
     program order, before the next statement; `return` ends only the included script.
   Action property BaseRestored: after every top-level statement the includer's base is unchanged. *)
EXTENDS BareCore, Json

\* single-letter path segments:  p/m (main)  p/a  p/s/b  p/s/d/c  /x/e  u:/h/g  y/t (system, prefix "y/")
cp == 112  ca == 97  cb == 98  cc == 99  cd == 100  ce == 101  cg == 103  ch == 104  cm == 109
cs == 115  ct == 116  cu == 117  cx == 120  cy == 121  cz == 122
U_main == <<cp, cSlash, cm>>
U_a == <<cp, cSlash, ca>>
U_b == <<cp, cSlash, cs, cSlash, cb>>
U_c == <<cp, cSlash, cs, cSlash, cd, cSlash, cc>>
U_e == <<cSlash, cx, cSlash, ce>>
U_g == <<cu, cColon, cSlash, ch, cSlash, cg>>
U_t == <<cy, cSlash, ct>>
SysPrefix == <<cy, cSlash>>
\* references as written in include statements
R_a == [url |-> <<ca>>, system |-> FALSE]                         \* sibling of main
R_b == [url |-> <<cs, cSlash, cb>>, system |-> FALSE]             \* sub directory
R_c == [url |-> <<cd, cSlash, cc>>, system |-> FALSE]             \* relative to p/s/b
R_bb == [url |-> <<cb>>, system |-> FALSE]                        \* "b" : only right relative to p/s/
R_e == [url |-> U_e, system |-> FALSE]                            \* absolute path
R_g == [url |-> U_g, system |-> FALSE]                            \* absolute URL
R_t == [url |-> <<ct>>, system |-> TRUE]                          \* system include
R_z == [url |-> <<cz, cz>>, system |-> FALSE]                     \* missing
R_w == [url |-> <<cz>>, system |-> FALSE]                         \* relative to u:/h/g : u:/h/z
U_w == <<cu, cColon, cSlash, ch, cSlash, cz>>
Refs == {R_a, R_b, R_c, R_bb, R_e, R_g, R_t, R_z}

Nm(n) == [k |-> "num", v |-> IntV(n)]
ProbeS(id) == [k |-> "expr", name |-> "", e |-> [k |-> "call", name |-> "probe", noargs |-> FALSE, args |-> <<Nm(id)>>]]
Inc(rs) == [k |-> "include", incs |-> rs]
RetS == [k |-> "return", hasE |-> FALSE, e |-> [k |-> "var", v |-> "null"]]
\* content of a file: probe, its includes (one statement each; adjacent ones may be merged: mergeAdj), probe
Content(id, refs, early, merged) ==
    <<ProbeS(id)>>
    \o (IF merged /\ Len(refs) = 2 THEN <<Inc(refs)>> ELSE [i \in 1..Len(refs) |-> Inc(<<refs[i]>>)])
    \o (IF early THEN <<RetS>> ELSE <<>>) \o <<ProbeS(id + 10)>>

RefSeqs(n) == UNION { [1..k -> Refs] : k \in 0..n }
VARIABLES rmain, ra, rb, rg, early, merged, hostBase, kindE, pc, st, status
vars == <<rmain, ra, rb, rg, early, merged, hostBase, kindE, pc, st, status>>

Vfs == << [url |-> U_a, kind |-> "text", model |-> Content(2, ra, early, FALSE)],
          [url |-> U_b, kind |-> "text", model |-> Content(3, rb, FALSE, FALSE)],
          [url |-> U_c, kind |-> "text", model |-> Content(4, <<>>, early, FALSE)],
          [url |-> U_e, kind |-> kindE, model |-> Content(5, <<>>, FALSE, FALSE)],
          [url |-> U_g, kind |-> "text", model |-> Content(6, rg, FALSE, FALSE)],
          [url |-> U_w, kind |-> "text", model |-> Content(8, <<>>, FALSE, FALSE)],
          [url |-> U_t, kind |-> "text", model |-> Content(7, <<>>, FALSE, FALSE)] >>
Main == Content(1, rmain, FALSE, merged)

CONSTANT Wide
Init == /\ rmain \in RefSeqs(2)
        /\ ra \in (IF Wide THEN RefSeqs(1) ELSE {<<>>, <<R_b>>, <<R_z>>})
        /\ rb \in (IF Wide THEN RefSeqs(1) ELSE {<<>>, <<R_c>>, <<R_bb>>, <<R_a>>})
        /\ rg \in {<<>>, <<R_w>>, <<R_t>>}
        /\ early \in BOOLEAN /\ merged \in (IF Wide THEN BOOLEAN ELSE {FALSE})
        /\ hostBase \in {"path", "none"}
        /\ kindE \in {"text", "missing", "throws", "broken"}
        /\ pc = 1 /\ status = "run"
        /\ st = [InitState(("probe" :> HostFn("probe")), <<>>, 80, FALSE, TRUE, <<>>) EXCEPT
                    !.inc = [vfs |-> Vfs, sys |-> SysPrefix, hasSys |-> TRUE,
                             base |-> IF hostBase = "path" THEN U_main ELSE <<>>, hasBase |-> hostBase = "path", hasFetch |-> TRUE]]
Next == /\ status = "run"
        /\ IF pc > Len(Main) THEN status' = "done" /\ UNCHANGED <<pc, st>>
           ELSE LET r == Step(Main, pc, NoLoc, st, 40) IN
                /\ st' = r.st /\ pc' = r.pc
                /\ status' = IF r.st.exc # "" THEN r.st.exc ELSE IF r.fin THEN "done" ELSE "run"
        /\ UNCHANGED <<rmain, ra, rb, rg, early, merged, hostBase, kindE>>
Spec == Init /\ [][Next]_vars
BaseRestored == [][st'.inc.base = st.inc.base /\ st'.inc.hasBase = st.inc.hasBase]_vars

(* ---- the property stated directly, by structural recursion over the tree ---- *)
\* Expected(stmts, i, base, hasBase, d) -> [log, err] ; err = "" | <<kind, url>>
RECURSIVE Expected(_, _, _, _, _), ExpIncs(_, _, _, _, _)
Loc(ref, base, hasBase) ==
    IF ref.system THEN Resolve(SysPrefix, ref.url) ELSE IF hasBase THEN Resolve(base, ref.url) ELSE ref.url
ExpIncs(incs, j, base, hasBase, d) ==
    IF j > Len(incs) THEN [log |-> <<>>, err |-> <<>>]
    ELSE LET url == Loc(incs[j], base, hasBase)
             x == VfsIndex(Vfs, url)
             here == <<[ev |-> "fetch", url |-> url]>>
         IN IF x = 0 \/ Vfs[x].kind \in {"missing", "throws"} THEN [log |-> here, err |-> <<"include", url>>]
            ELSE IF Vfs[x].kind = "broken" THEN [log |-> here, err |-> <<"parse", url>>]
            ELSE IF d = 0 THEN [log |-> here, err |-> <<"deep", url>>]
            ELSE LET sub == Expected(Vfs[x].model, 1, url, TRUE, d - 1) IN
                 IF sub.err # <<>> THEN [log |-> here \o sub.log, err |-> sub.err]
                 ELSE LET rest == ExpIncs(incs, j + 1, base, hasBase, d) IN
                      [log |-> here \o sub.log \o rest.log, err |-> rest.err]
Expected(stmts, i, base, hasBase, d) ==
    IF i > Len(stmts) THEN [log |-> <<>>, err |-> <<>>]
    ELSE LET s == stmts[i] IN
         IF s.k = "return" THEN [log |-> <<>>, err |-> <<>>]          \* ends only this script
         ELSE IF s.k = "expr" THEN
            LET rest == Expected(stmts, i + 1, base, hasBase, d) IN
            [log |-> <<[ev |-> "probe", id |-> s.e.args[1].v.n]>> \o rest.log, err |-> rest.err]
         ELSE LET a == ExpIncs(s.incs, 1, base, hasBase, d) IN
              IF a.err # <<>> THEN a
              ELSE LET rest == Expected(stmts, i + 1, base, hasBase, d) IN [log |-> a.log \o rest.log, err |-> rest.err]
Simplify(log) == [i \in 1..Len(log) |-> IF log[i].ev = "probe" THEN [ev |-> "probe", id |-> log[i].args[1].n] ELSE log[i]]
Agrees ==
    (status # "run") =>
        LET ex == Expected(Main, 1, IF hostBase = "path" THEN U_main ELSE <<>>, hostBase = "path", 6) IN
        \/ status = "limit" \/ (ex.err # <<>> /\ ex.err[1] = "deep")        \* cyclic trees are cut by the budget
        \/ /\ Simplify(st.log) = ex.log
           /\ (ex.err = <<>> => status = "done")
           /\ (ex.err # <<>> => status = ex.err[1] /\ st.excArg = ex.err[2])
\* generation (leg B): the choices that identify a tree, and once the fixed pieces
EmitCase == (pc = 1 /\ status = "run") =>
    PrintT(<<"CASE", ToJson([rmain |-> rmain, ra |-> ra, rb |-> rb, rg |-> rg, early |-> early, merged |-> merged,
                             hostBase |-> hostBase, kindE |-> kindE])>>)
PrintFixed == PrintT(<<"FIXED", ToJson([main |-> U_main, a |-> U_a, b |-> U_b, c |-> U_c, e |-> U_e, g |-> U_g, w |-> U_w, t |-> U_t,
                                        sys |-> SysPrefix])>>)
=============================================================================
