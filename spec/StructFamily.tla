---------------------------- MODULE StructFamily ----------------------------
(* The exhaustive family of structured programs for C01 / C07: every chain of the eleven
   POSITIONED constructs
       if | if-else (child in then / else) | if-elif (child in arm 1 / 2) |
       if-elif-else (child in arm 1 / 2 / else) | while | for | for-with-index
   to nesting depth Depth, every loop level with the tail options
       none | break | continue | guarded break | guarded continue,
   in the contexts   global scope | inside a function | inside a function with a guarded return
                   | two sibling constructs | two functions.
   Conditions read input globals (g<d><j>, guards h<d>) through probes, so the number and order
   of condition evaluations is observable; loop bodies carry counters that make the structured
   run terminate.                                                                          *)
EXTENDS BareLower, Json

CONSTANT Depth

S(x) == ToString(x)
V(n) == VarE(n)
P(id, e) == CallL("probe", <<NumE(id), e>>)
Log(id) == [k |-> "expr", e |-> P(id, NumE(0))]
SAssign(n, e) == [k |-> "assign", name |-> n, e |-> e]
Cond(d, j) == P(100 * d + j, V("g" \o S(d) \o S(j)))
Guard(d) == V("h" \o S(d))
If1(c, b) == [k |-> "if", arms |-> <<[cond |-> c, body |-> b]>>, hasElse |-> FALSE, els |-> <<>>]
IfElse(c, b, e) == [k |-> "if", arms |-> <<[cond |-> c, body |-> b]>>, hasElse |-> TRUE, els |-> e]
IfElif(c1, b1, c2, b2) == [k |-> "if", arms |-> <<[cond |-> c1, body |-> b1], [cond |-> c2, body |-> b2]>>, hasElse |-> FALSE, els |-> <<>>]
IfElifElse(c1, b1, c2, b2, e) == [k |-> "if", arms |-> <<[cond |-> c1, body |-> b1], [cond |-> c2, body |-> b2]>>, hasElse |-> TRUE, els |-> e]
Brk == [k |-> "break"]
Cnt == [k |-> "continue"]

LoopTails == {"none", "break", "continue", "gbreak", "gcontinue"}
TailStmts(tl, d) ==
    CASE tl = "none" -> <<>>
      [] tl = "break" -> <<Brk>>
      [] tl = "continue" -> <<Cnt>>
      [] tl = "gbreak" -> <<If1(Guard(d), <<Brk>>)>>
      [] tl = "gcontinue" -> <<If1(Guard(d), <<Cnt>>)>>
Tails(inLoop) == IF inLoop THEN LoopTails ELSE {"none"}

\* the positioned constructs at depth d around a child block b (1..8 and 13..15 if forms, 9..12 loop forms)
IfForm(d, b, k) ==
    LET c1 == Cond(d, 1)  c2 == Cond(d, 2)  x == <<Log(10 * d + 5)>>  y == <<Log(10 * d + 6)>>  z == <<Log(10 * d + 7)>> IN
    CASE k = 1 -> <<If1(c1, b)>>
      [] k = 2 -> <<IfElse(c1, b, x)>>
      [] k = 3 -> <<IfElse(c1, x, b)>>
      [] k = 4 -> <<IfElif(c1, b, c2, y)>>
      [] k = 5 -> <<IfElif(c1, x, c2, b)>>
      [] k = 6 -> <<IfElifElse(c1, b, c2, y, z)>>
      [] k = 7 -> <<IfElifElse(c1, x, c2, b, z)>>
      [] k = 8 -> <<IfElifElse(c1, x, c2, y, b)>>
      \* EMPTY arms followed by else / elif: a truthy empty arm ends the chain, nothing of the later arms runs
      [] k = 13 -> <<IfElse(c1, <<>>, b)>>
      [] k = 14 -> <<IfElifElse(c1, <<>>, c2, b, z)>>
      [] k = 15 -> <<IfElifElse(c1, b, c2, <<>>, z)>>
LoopForm(d, b, k) ==
    LET iv == "i" \o S(d)  vv == "v" \o S(d)  kv == "k" \o S(d) IN
    CASE k = 9 ->
          << SAssign(iv, NumE(0)),
             [k |-> "while", cond |-> P(100 * d + 3, [k |-> "bin", op |-> "<", l |-> V(iv), r |-> NumE(2)]),
              body |-> <<SAssign(iv, [k |-> "bin", op |-> "+", l |-> V(iv), r |-> NumE(1)])>> \o b] >>
      [] k = 10 ->
          << [k |-> "for", var |-> vv, idx |-> "", e |-> P(100 * d + 4, V("arr")), body |-> <<[k |-> "expr", e |-> P(100 * d + 8, V(vv))]>> \o b] >>
      [] k = 11 ->
          << [k |-> "for", var |-> vv, idx |-> kv, e |-> V("arr"), body |-> <<[k |-> "expr", e |-> P(100 * d + 9, V(kv))]>> \o b] >>
      \* a while whose condition is a VALUE of any type (not a boolean): truthiness is decided at the header and at the footer
      [] k = 12 ->
          << SAssign(iv, NumE(0)), SAssign("c" \o S(d), V("g" \o S(d) \o "1")),
             [k |-> "while", cond |-> V("c" \o S(d)),
              body |-> << SAssign(iv, [k |-> "bin", op |-> "+", l |-> V(iv), r |-> NumE(1)]),
                          [k |-> "expr", e |-> P(100 * d + 10, V(iv))],
                          If1([k |-> "bin", op |-> ">=", l |-> V(iv), r |-> NumE(2)], <<SAssign("c" \o S(d), V("null"))>>) >> \o b] >>

\* Part(d, inLoop, k): the blocks at depth d whose construct is the k-th positioned construct (k = 0: none)
RECURSIVE Shapes(_, _), Part(_, _, _)
Part(d, inLoop, k) ==
    LET wrap(mid) == { <<Log(10 * d + 1)>> \o mid \o TailStmts(tl, d) \o <<Log(10 * d + 2)>> : tl \in Tails(inLoop) } IN
    IF k = 0 THEN wrap(<<>>)
    ELSE IF d = 0 THEN {}
    ELSE IF k <= 8 \/ k >= 13 THEN UNION { wrap(IfForm(d, b, k)) : b \in Shapes(d - 1, inLoop) }
    ELSE UNION { wrap(LoopForm(d, b, k)) : b \in Shapes(d - 1, TRUE) }
\* at nesting depth 3 the INNERMOST level is drawn from a representative subset of the constructs (plain if, if-else with the child in
\* the else part, if-elif with the child in the second arm, while, for, an empty arm before else); at depth <= 2 every level takes all
InnerKs == IF Depth >= 3 THEN {0, 1, 3, 5, 9, 10, 13} ELSE 0..15
Shapes(d, inLoop) == UNION { Part(d, inLoop, k) : k \in (IF d = 1 THEN InnerKs ELSE 0..15) }

Fn(name, body) == [k |-> "function", name |-> name, args |-> <<>>, last |-> FALSE, body |-> body]
CallS(name) == SAssign("res", CallL(name, <<>>))
RetS(n) == [k |-> "return", hasE |-> TRUE, e |-> NumE(n)]
Small == { <<If1(Cond(0, 1), <<Log(3)>>)>>,
           <<SAssign("i0", NumE(0)),
             [k |-> "while", cond |-> [k |-> "bin", op |-> "<", l |-> V("i0"), r |-> NumE(2)],
              body |-> <<SAssign("i0", [k |-> "bin", op |-> "+", l |-> V("i0"), r |-> NumE(1)]), If1(Guard(0), <<Cnt>>), Log(4)>>]>> }
\* contexts; ProgramsPart(k, c) partitions the family (k = top-level construct, c = context) so that
\* independent TLC processes can each take a slice
ProgramsPart(k, c) ==
    CASE c = 1 -> Part(Depth, FALSE, k)
      [] c = 2 -> { <<Fn("fa", b), CallS("fa"), Log(91)>> : b \in Part(Depth, FALSE, k) }
      [] c = 3 -> { <<Fn("fa", <<If1(Guard(9), <<RetS(7)>>)>> \o b \o <<RetS(8)>>), CallS("fa"), Log(92)>> : b \in Part(Depth, FALSE, k) }
      [] c = 4 -> { b \o s : b \in Part(Depth - 1, FALSE, k), s \in Small }
      [] c = 5 -> { <<Fn("fa", b), Fn("fb", s \o <<RetS(9)>>), CallS("fb"), CallS("fa"), CallS("fb")>> : b \in Part(Depth - 1, FALSE, k), s \in Small }
      \* control flow at global scope BEFORE and AFTER a function that itself contains control flow
      [] c = 6 -> { s1 \o <<Fn("fa", s2 \o <<RetS(9)>>), CallS("fa")>> \o b : b \in Part(Depth - 1, FALSE, k), s1 \in Small, s2 \in Small }
      \* a function DEFINED inside a block at global scope (its own loops resolve break / continue inside the function)
      [] c = 7 -> { <<If1(Cond(0, 2), <<Fn("fa", b)>>), CallS("fa"), Log(93)>> : b \in Part(Depth - 1, FALSE, k) }
                  \cup { <<SAssign("i9", NumE(0)),
                           [k |-> "while", cond |-> [k |-> "bin", op |-> "<", l |-> V("i9"), r |-> NumE(2)],
                            body |-> <<SAssign("i9", [k |-> "bin", op |-> "+", l |-> V("i9"), r |-> NumE(1)]), Fn("fa", b), CallS("fa")>>]>>
                          : b \in Part(Depth - 1, FALSE, k) }
PartIds == (0..15) \X (1..7)
\* (an operator with a parameter: TLC must not pre-compute the whole family as a constant)
ProgramsAll(dummy) == UNION { ProgramsPart(pc[1], pc[2]) : pc \in PartIds }

(***************************** inputs *****************************)
TruthVars == { "g" \o S(d) \o S(j) : d \in 0..Depth, j \in 1..2 } \cup { "h" \o S(d) : d \in 0..Depth } \cup {"h9"}
\* truthy / falsy values in rotation over the value types (A1)
TruthyVals == << IntV(1), Str(<<97>>), Bool(TRUE), [t |-> "array", v |-> <<IntV(0)>>], [t |-> "object", v |-> <<>>],
                 Dt(738885, 0), [t |-> "fn", f |-> "lib", name |-> "arrayNew"], Regex, Q(1, 2) >>
FalsyVals == << IntV(0), Str(<<>>), Bool(FALSE), Null, [t |-> "array", v |-> <<>>] >>
VarList == << "g01", "g02", "g11", "g12", "g21", "g22", "g31", "g32", "g41", "g42", "h0", "h1", "h2", "h3", "h4", "h9" >>
VarIndex(v) == CHOOSE i \in 1..Len(VarList) : VarList[i] = v
ValOf(v, truth, rot) ==
    IF truth THEN TruthyVals[((VarIndex(v) + rot) % Len(TruthyVals)) + 1]
    ELSE FalsyVals[((VarIndex(v) + rot) % Len(FalsyVals)) + 1]
ArrVals == << [t |-> "array", v |-> <<IntV(10), IntV(20)>>], [t |-> "array", v |-> <<>>], IntV(5),
              [t |-> "array", v |-> <<Str(<<120>>), Null, IntV(3)>>] >>

ReservedNames(maxn) == { Lbl(kind, k) : kind \in {"Index", "Values", "Length"}, k \in 0..maxn }
=============================================================================
