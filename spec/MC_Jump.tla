---------------------------- MODULE MC_Jump ----------------------------
(* Leg A / B for C08, C09, C18: every statement list of length <= N over a fixed alphabet of
   jump-level statements, executed by the BareCore machine one statement per step.
   The alphabet is the single source of truth: the Python driver obtains it from TLC
   (PrintT of ToJson) and enumerates index tuples; the trace spec re-derives each model from
   its index tuple, so the enumeration is exhaustive by construction.                     *)
EXTENDS JumpAlphabet

CONSTANTS N, Limit

VARIABLES ix, pc, st, status
vars == <<ix, pc, st, status>>


Init == /\ ix \in Tuples(N)
        /\ pc = 1
        /\ st = InitState(G0, <<>>, Limit, FALSE, TRUE, Names0)
        /\ status = "run"

Next == /\ status = "run"
        /\ IF pc > Len(ProgOf(ix)) THEN status' = "done" /\ UNCHANGED <<ix, pc, st>>
           ELSE LET r == Step(ProgOf(ix), pc, NoLoc, st, 50) IN
                /\ st' = r.st
                /\ pc' = r.pc
                /\ status' = IF r.st.exc # "" THEN r.st.exc ELSE IF r.fin THEN "done" ELSE "run"
                /\ UNCHANGED ix
Spec == Init /\ [][Next]_vars
FairSpec == Spec /\ WF_vars(Next)

(* ---- properties of the design ---- *)
PcInRange == pc \in 1..(Len(ProgOf(ix)) + 1)
BudgetInv == st.cnt <= st.lim + 1 /\ ((st.exc = "limit") <=> (st.cnt = st.lim + 1))
\* only documented ways to end (C05 at design level)
EndInv == status \in {"run", "done", "limit", "label", "undefined"}
\* the counter never decreases, globals the program never assigns never change (frame)
CountMonotone == [][st'.cnt >= st.cnt]_vars
ModelFixed == [][ix' = ix]_vars
ProbeUntouched == [][st'.g["probe"] = st.g["probe"]]_vars
\* a positive limit makes every run end (C09 "no script can run forever")
Terminates == <>(status # "run")

=============================================================================
