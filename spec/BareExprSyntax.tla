---------------------------- MODULE BareExprSyntax ----------------------------
(* C02: the tree an expression text denotes.
   Reference layer: PrecTree - seven precedence levels, operators of one level associate to the
   left, unary operators bind tighter than any binary operator, groups are opaque.
   Implementation-shaped layer: ReorderStep - the parser's left fold with rotation down the right
   spine, driven by the BINARY_REORDER relation ("the operator already in the tree binds less").
   Flat (precedence-free) syntax, as rendered to text by the driver:
     chain(operands, ops)  num(v) str(v) var(v) grp(e) un(op, e) call(name, args)
   Token-level recogniser Accepts(tokens) for random token strings.                          *)
EXTENDS Integers, Sequences, FiniteSets, TLC

BinOps == <<"**", "*", "/", "%", "+", "-", "<=", "<", ">=", ">", "==", "!=", "&&", "||">>
Prec(op) ==
    CASE op = "**" -> 7
      [] op \in {"*", "/", "%"} -> 6
      [] op \in {"+", "-"} -> 5
      [] op \in {"<=", "<", ">=", ">"} -> 4
      [] op \in {"==", "!="} -> 3
      [] op = "&&" -> 2
      [] op = "||" -> 1
Bin(op, l, r) == [k |-> "bin", op |-> op, l |-> l, r |-> r]

(* reference: split at the LAST operator of the lowest precedence (left associativity) *)
RECURSIVE PrecTree(_, _)
PrecTree(operands, ops) ==
    IF ops = <<>> THEN operands[1]
    ELSE LET low == CHOOSE p \in 1..7 : (\E i \in 1..Len(ops) : Prec(ops[i]) = p) /\ (\A i \in 1..Len(ops) : Prec(ops[i]) >= p)
             at == CHOOSE i \in 1..Len(ops) : Prec(ops[i]) = low /\ \A j \in (i + 1)..Len(ops) : Prec(ops[j]) # low
         IN Bin(ops[at], PrecTree(SubSeq(operands, 1, at), SubSeq(ops, 1, at - 1)),
                         PrecTree(SubSeq(operands, at + 1, Len(operands)), SubSeq(ops, at + 1, Len(ops))))

(* implementation-shaped: one fold step of the parser *)
Reorders(newop, oldop) == Prec(newop) > Prec(oldop)        \* BINARY_REORDER[newop] contains oldop
RECURSIVE InsertRight(_, _, _)
InsertRight(t, op, operand) ==      \* walk down the right spine while the operator there binds less than op
    IF t.r.k = "bin" /\ Reorders(op, t.r.op) THEN [t EXCEPT !.r = InsertRight(t.r, op, operand)]
    ELSE [t EXCEPT !.r = Bin(op, t.r, operand)]
ReorderStep(t, op, operand) ==
    IF t.k = "bin" /\ Reorders(op, t.op) THEN InsertRight(t, op, operand) ELSE Bin(op, t, operand)
RECURSIVE ReorderParse(_, _, _, _)
ReorderParse(t, operands, ops, i) ==
    IF i > Len(ops) THEN t ELSE ReorderParse(ReorderStep(t, ops[i], operands[i + 1]), operands, ops, i + 1)

\* why the rotation is right: going down the right spine precedence never decreases, and on a tie the
\* left-leaning shape is kept
RECURSIVE SpineOrdered(_)
SpineOrdered(t) ==
    t.k # "bin" \/ ( /\ (t.r.k = "bin" => Prec(t.r.op) > Prec(t.op))
                     /\ (t.l.k = "bin" => Prec(t.l.op) >= Prec(t.op))
                     /\ SpineOrdered(t.l) /\ SpineOrdered(t.r) )

(* the tree a flat expression denotes *)
RECURSIVE Denote(_)
Denote(f) ==
    CASE f.k = "chain" -> PrecTree([i \in 1..Len(f.operands) |-> Denote(f.operands[i])], f.ops)
      [] f.k = "grp"   -> [k |-> "grp", e |-> Denote(f.e)]
      [] f.k = "un"    -> [k |-> "un", op |-> f.op, e |-> Denote(f.e)]
      [] f.k = "call"  -> [k |-> "call", name |-> f.name, args |-> [i \in 1..Len(f.args) |-> Denote(f.args[i])], noargs |-> FALSE]
      [] OTHER         -> f

(* token-level recogniser: tokens are records [t |-> "num"|"str"|"var"|"op"|"not"|"minus"|"lp"|"rp"|"comma"]
   ("minus" is both the binary and the unary operator; a var immediately followed by "lp" opens a call)
   PExpr / PUnary return the position after the construct, or 0 on failure *)
RECURSIVE PExpr(_, _), PUnary(_, _), PArgs(_, _), PChain(_, _)
Tok(ts, p) == IF p <= Len(ts) THEN ts[p].t ELSE "eof"
PUnary(ts, p) ==
    CASE Tok(ts, p) = "lp" -> LET q == PExpr(ts, p + 1) IN IF q # 0 /\ Tok(ts, q) = "rp" THEN q + 1 ELSE 0
      [] Tok(ts, p) \in {"not", "minus"} -> PUnary(ts, p + 1)
      [] Tok(ts, p) = "var" /\ Tok(ts, p + 1) = "lp" ->
            IF Tok(ts, p + 2) = "rp" THEN p + 3
            ELSE LET q == PArgs(ts, p + 2) IN IF q # 0 /\ Tok(ts, q) = "rp" THEN q + 1 ELSE 0
      [] Tok(ts, p) \in {"num", "str", "var"} -> p + 1
      [] OTHER -> 0
PChain(ts, p) ==        \* after an operand: (binop operand)*
    IF Tok(ts, p) \in {"op", "minus"} THEN
        LET q == PUnary(ts, p + 1) IN IF q = 0 THEN 0 ELSE PChain(ts, q)
    ELSE p
PExpr(ts, p) == LET q == PUnary(ts, p) IN IF q = 0 THEN 0 ELSE PChain(ts, q)
PArgs(ts, p) ==
    LET q == PExpr(ts, p) IN
    IF q = 0 THEN 0 ELSE IF Tok(ts, q) = "comma" THEN PArgs(ts, q + 1) ELSE q
Accepts(ts) == ts # <<>> /\ PExpr(ts, 1) = Len(ts) + 1
=============================================================================
