---------------------------- MODULE Trace_Data ----------------------------
(* C19: the relational meaning of the data functions, judged by TLC on recorded calls of the real code.
   Tables are sequences of row objects in tree form (cells: numbers, strings, booleans, datetimes, null);
   expressions are evaluated by BareCore.Eval with the row's fields as locals and the `variables` as globals
   (expression built-ins enabled, as evaluate_expression does for the data helpers).
   Row identity: the driver records, for every output row, the index of the input row object it is (perm).
     filter     exactly the rows whose expression is truthy, in input order
     calc       every row gets field := value of the expression on that row, nothing else changes
     top        for each category (equality of category values = Compare 0) the first n rows, in input order
     aggregate  one output row per category in order of first appearance; count / sum / min / max / average /
                stddev over the non-null measure values
     join       left-major pairs (i, j) with equal key values; left fields never overwritten, right fields under
                fresh names f, f2, f3 ...; unmatched left rows are either all kept or all dropped
     csv        dataParseCSV of the CSV text of a typed table gives back the typed values; date-like invalid
                text stays a string                                                                      *)
EXTENDS BareCore, Json, IOUtils
Cases == JsonDeserialize(IOEnv.CASES)
VARIABLES tid, verdict
vars == <<tid, verdict>>
C == Cases[tid]
Cmp(a, b) == Compare(a, b, <<>>)
RangeOf(sq) == { sq[i] : i \in 1..Len(sq) }
Field(row, f) == IF \E p \in 1..Len(row.v) : row.v[p].key = f THEN row.v[CHOOSE p \in 1..Len(row.v) : row.v[p].key = f].val ELSE Null
HasField(row, f) == \E p \in 1..Len(row.v) : row.v[p].key = f

(* ---- expression evaluation on a row ---- *)
\* names are TLA+ strings in expressions; C.names maps them to code points
NameOf(cp) == CHOOSE n \in DOMAIN C.names : C.names[n] = cp
Known(cp) == \E n \in DOMAIN C.names : C.names[n] = cp
RowLocals(row) == [n \in { NameOf(row.v[p].key) : p \in { q \in 1..Len(row.v) : Known(row.v[q].key) } } |->
                      Field(row, C.names[n])]
VarGlobals == IF C.vars.t = "object" THEN [n \in { NameOf(C.vars.v[p].key) : p \in { q \in 1..Len(C.vars.v) : Known(C.vars.v[q].key) } } |->
                      Field(C.vars, C.names[n])] ELSE <<>>
EvalRow(e, row) ==
    Eval(e, [has |-> TRUE, m |-> RowLocals(row)], InitState(VarGlobals, <<>>, 0, FALSE, FALSE, C.names), <<60, TRUE>>)
Decided(r) == r.st.exc = "" /\ Concrete(r.v)

(* ---- filter ---- *)
FilterLaw ==
    LET rs == [i \in 1..Len(C.rows) |-> EvalRow(C.expr, C.rows[i])] IN
    IF \E i \in 1..Len(rs) : ~Decided(rs[i]) THEN <<"SKIP", "expression outside the exact domain">>
    ELSE LET keep == { i \in 1..Len(rs) : Truthy(rs[i].v, rs[i].st.heap) } IN
         IF RangeOf(C.perm) # keep \/ Len(C.perm) # Cardinality(keep) THEN <<"REJECT", "filter-selects-other-rows", <<keep, C.perm>>>>
         ELSE IF \E i \in 1..(Len(C.perm) - 1) : C.perm[i] >= C.perm[i + 1] THEN <<"REJECT", "filter-changes-order", C.perm>>
         ELSE IF \E i \in 1..Len(C.perm) : ~Matches(C.rows[C.perm[i]], C.out[i]) THEN <<"REJECT", "filter-alters-rows", "">>
         ELSE <<"ACCEPT">>

(* ---- calculated field ---- *)
SetField(row, f, v) == [row EXCEPT !.v = PairSet(@, f, v)]
CalcLaw ==
    LET rs == [i \in 1..Len(C.rows) |-> EvalRow(C.expr, C.rows[i])] IN
    IF \E i \in 1..Len(rs) : rs[i].st.exc # "" THEN <<"SKIP", "expression outside the exact domain">>
    ELSE IF Len(C.out) # Len(C.rows) THEN <<"REJECT", "calculated-field-changes-the-number-of-rows", "">>
    ELSE IF \E i \in 1..Len(rs) : ~Matches(SetField(C.rows[i], C.field, Extern(rs[i].v, rs[i].st.heap)), C.out[i])
         THEN LET i == CHOOSE i \in 1..Len(rs) : ~Matches(SetField(C.rows[i], C.field, Extern(rs[i].v, rs[i].st.heap)), C.out[i]) IN
              <<"REJECT", "calculated-field", <<i, SetField(C.rows[i], C.field, Extern(rs[i].v, rs[i].st.heap)), C.out[i]>>>>
    ELSE <<"ACCEPT">>

(* ---- categories ---- *)
CatVals(row, cats) == [k \in 1..Len(cats) |-> Field(row, cats[k])]
SameCat(r1, r2, cats) == \A k \in 1..Len(cats) : Cmp(Field(r1, cats[k]), Field(r2, cats[k])) = 0
ClassOf(i, rows, cats) == { j \in 1..Len(rows) : SameCat(rows[i], rows[j], cats) }
Leader(i, rows, cats) == CHOOSE j \in ClassOf(i, rows, cats) : \A x \in ClassOf(i, rows, cats) : j <= x
Leaders(rows, cats) == { Leader(i, rows, cats) : i \in 1..Len(rows) }
RECURSIVE SortedSeq(_)
SortedSeq(S) == IF S = {} THEN <<>> ELSE LET m == CHOOSE x \in S : \A y \in S : x <= y IN <<m>> \o SortedSeq(S \ {m})

TopLaw ==
    LET want == UNION { { j \in ClassOf(i, C.rows, C.cats) : Cardinality({ x \in ClassOf(i, C.rows, C.cats) : x < j }) < C.count } : i \in 1..Len(C.rows) } IN
    IF RangeOf(C.perm) # want \/ Len(C.perm) # Cardinality(want) THEN <<"REJECT", "top-selects-other-rows", <<SortedSeq(want), C.perm>>>>
    ELSE IF \E a, b \in 1..Len(C.perm) : a < b /\ SameCat(C.rows[C.perm[a]], C.rows[C.perm[b]], C.cats) /\ C.perm[a] > C.perm[b]
         THEN <<"REJECT", "top-reorders-rows-of-a-category", C.perm>>
    ELSE IF \E i \in 1..Len(C.perm) : ~Matches(C.rows[C.perm[i]], C.out[i]) THEN <<"REJECT", "top-alters-rows", "">>
    ELSE <<"ACCEPT">>

(* ---- aggregate ---- *)
RECURSIVE SumSeq(_)
SumSeq(s) == IF s = <<>> THEN IntV(0) ELSE LET r == SumSeq(Tail(s)) IN IF r.t = "wild" THEN r ELSE AddN(Head(s), r)
NonNull(rows, idx, f) == LET xs == [k \in 1..Len(idx) |-> Field(rows[idx[k]], f)] IN SelectSeq(xs, LAMBDA v : v.t # "null")
MeasureOK(fn, vals, got) ==
    IF vals = <<>> THEN got.t = "null"
    ELSE IF \E k \in 1..Len(vals) : vals[k].t # "num" \/ ~Concrete(vals[k]) THEN TRUE          \* non-numeric measures: not judged
    ELSE CASE fn = "count" -> Matches(IntV(Len(vals)), got)
           [] fn = "sum" -> Matches(SumSeq(vals), got)
           [] fn = "min" -> got.t = "num" /\ (\E k \in 1..Len(vals) : CmpNum(vals[k], got) = 0) /\ (\A k \in 1..Len(vals) : CmpNum(got, vals[k]) <= 0)
           [] fn = "max" -> got.t = "num" /\ (\E k \in 1..Len(vals) : CmpNum(vals[k], got) = 0) /\ (\A k \in 1..Len(vals) : CmpNum(got, vals[k]) >= 0)
           [] fn = "average" -> LET s == SumSeq(vals) IN
                                IF s.t = "wild" THEN got.t = "num" ELSE Matches(DivQ(s, IntV(Len(vals))), got)
           [] fn = "stddev" -> got.t = "num" /\ got.f # "x"
                               /\ ((\A k \in 1..Len(vals) : CmpNum(vals[k], vals[1]) = 0) => (got.f = "q" /\ got.n = 0))
                               /\ (got.f = "q" => got.n >= 0)
AggLaw ==
    LET leaders == SortedSeq(Leaders(C.rows, C.cats)) IN
    IF Len(C.out) # Len(leaders) THEN <<"REJECT", "aggregate-has-another-number-of-categories", <<Len(leaders), Len(C.out)>>>>
    ELSE IF \E g \in 1..Len(leaders) : \E k \in 1..Len(C.cats) : Cmp(Field(C.out[g], C.cats[k]), Field(C.rows[leaders[g]], C.cats[k])) # 0
         THEN <<"REJECT", "aggregate-category-values-or-order", <<[g \in 1..Len(leaders) |-> CatVals(C.rows[leaders[g]], C.cats)], C.out>>>>
    ELSE IF \E g \in 1..Len(leaders) : \E m \in 1..Len(C.measures) :
                ~MeasureOK(C.measures[m].fn, NonNull(C.rows, SortedSeq(ClassOf(leaders[g], C.rows, C.cats)), C.measures[m].field), Field(C.out[g], C.measures[m].name))
         THEN LET g == CHOOSE g \in 1..Len(leaders) : \E m \in 1..Len(C.measures) :
                         ~MeasureOK(C.measures[m].fn, NonNull(C.rows, SortedSeq(ClassOf(leaders[g], C.rows, C.cats)), C.measures[m].field), Field(C.out[g], C.measures[m].name)) IN
              <<"REJECT", "aggregate-measure", <<CatVals(C.rows[leaders[g]], C.cats), C.out[g]>>>>
    ELSE <<"ACCEPT">>

(* ---- join ---- *)
RECURSIVE FieldNames(_, _, _)
FieldNames(rows, i, acc) ==     \* field names in order of first appearance
    IF i > Len(rows) THEN acc
    ELSE FieldNames(rows, i + 1, acc \o SelectSeq([p \in 1..Len(rows[i].v) |-> rows[i].v[p].key],
                                                   LAMBDA k : ~\E x \in 1..Len(acc) : acc[x] = k))
\* SelectSeq above may add a duplicate when a row repeats a key - rows have unique keys
Suffix(k) == NatText(k)
RECURSIVE FreshName(_, _, _)
FreshName(f, k, taken) == IF (f \o Suffix(k)) \in taken THEN FreshName(f, k + 1, taken) ELSE f \o Suffix(k)
RECURSIVE Renaming(_, _, _, _, _)
Renaming(rnames, i, leftSet, rawSet, acc) ==     \* acc: sequence of [from, to]
    IF i > Len(rnames) THEN acc
    ELSE LET f == rnames[i]
             assigned == { acc[x].to : x \in 1..Len(acc) }
             to == IF f \notin leftSet THEN f ELSE FreshName(f, 2, leftSet \cup rawSet \cup assigned)
         IN Renaming(rnames, i + 1, leftSet, rawSet, Append(acc, [from |-> f, to |-> to]))
RenameOf(ren, f) == ren[CHOOSE x \in 1..Len(ren) : ren[x].from = f].to
JoinedRow(l, r, ren) ==
    [t |-> "object", v |-> PairsAssign(l.v, [p \in 1..Len(r.v) |-> [key |-> RenameOf(ren, r.v[p].key), val |-> r.v[p].val]])]
RECURSIVE JoinRows(_, _, _, _, _, _)
JoinRows(i, kl, kr, ren, keepUnmatched, acc) ==
    IF i > Len(C.left) THEN acc
    ELSE LET ms == SelectSeq([j \in 1..Len(C.right) |-> j], LAMBDA j : Cmp(kl[i], kr[j]) = 0)
             rows == IF ms = <<>> THEN (IF keepUnmatched THEN <<C.left[i]>> ELSE <<>>)
                     ELSE [x \in 1..Len(ms) |-> JoinedRow(C.left[i], C.right[ms[x]], ren)]
         IN JoinRows(i + 1, kl, kr, ren, keepUnmatched, acc \o rows)
SameTable(a, b) == Len(a) = Len(b) /\ \A i \in 1..Len(a) : Matches(a[i], b[i])
JoinLaw ==
    LET el == [i \in 1..Len(C.left) |-> EvalRow(C.lexpr, C.left[i])]
        er == [j \in 1..Len(C.right) |-> EvalRow(C.rexpr, C.right[j])] IN
    IF (\E i \in 1..Len(el) : ~Decided(el[i])) \/ (\E j \in 1..Len(er) : ~Decided(er[j])) THEN <<"SKIP", "expression outside the exact domain">>
    ELSE LET kl == [i \in 1..Len(el) |-> Extern(el[i].v, el[i].st.heap)]
             kr == [j \in 1..Len(er) |-> Extern(er[j].v, er[j].st.heap)]
             lnames == FieldNames(C.left, 1, <<>>)
             rnames == FieldNames(C.right, 1, <<>>)
             ren == Renaming(rnames, 1, RangeOf(lnames), RangeOf(rnames), <<>>)
         \* whether unmatched left rows are kept is NOT stated by the property (the suite pins the flag in the opposite sense of
         \* its documentation, see DESIGN.md 11.3): both tables are allowed
         IN IF SameTable(JoinRows(1, kl, kr, ren, TRUE, <<>>), C.out) \/ SameTable(JoinRows(1, kl, kr, ren, FALSE, <<>>), C.out) THEN <<"ACCEPT">>
            ELSE <<"REJECT", "join", <<"keys", kl, kr, "renaming", ren, "specified (unmatched kept)", JoinRows(1, kl, kr, ren, TRUE, <<>>), "recorded", C.out>>>>

(* ---- CSV ---- *)
CsvLaw ==
    IF C.parsed.t # "array" THEN <<"REJECT", "dataParseCSV-did-not-return-a-table", C.parsed>>
    ELSE IF Len(C.parsed.v) # Len(C.rows) THEN <<"REJECT", "csv-row-count", <<Len(C.rows), Len(C.parsed.v)>>>>
    ELSE IF \E i \in 1..Len(C.rows) : ~Matches(C.rows[i], C.parsed.v[i]) THEN
        LET i == CHOOSE i \in 1..Len(C.rows) : ~Matches(C.rows[i], C.parsed.v[i]) IN <<"REJECT", "csv-values", <<C.rows[i], C.parsed.v[i]>>>>
    ELSE <<"ACCEPT">>

Law == CASE C.kind = "filter" -> FilterLaw [] C.kind = "calc" -> CalcLaw [] C.kind = "top" -> TopLaw
         [] C.kind = "aggregate" -> AggLaw [] C.kind = "join" -> JoinLaw [] C.kind = "csv" -> CsvLaw
Judge == IF C.status # "done" THEN <<"REJECT", "call-failed", C.status>> ELSE Law
Init == tid \in 1..Len(Cases) /\ verdict = "open"
Next == /\ verdict = "open" /\ verdict' = Judge[1] /\ PrintT(<<"V", tid>> \o Judge) /\ UNCHANGED tid
Spec == Init /\ [][Next]_vars
=============================================================================
