---------------------------- MODULE Trace_Lines ----------------------------
(* C06 and C10 on the real parse_script.
   kind "classes"  a sequence of line kinds rendered to text: the parser returns a model iff the block grammar derives
                   the sequence, otherwise it raises BareScriptParserError (never anything else)
   kind "error"    a text the parser rejects: the error names a logical line of the text (by its text AND by the 1-based
                   number of its first physical line, offset by start_line_number), a column inside it (within the
                   bounds the fault injection dictates), and the caret of the formatted message sits under that column
   kind "shift"    the same faulty text with k comment / blank / simple statement lines prepended (or a larger
                   start_line_number): the line number moves by exactly k, nothing else changes
   kind "total"    any text: a model or a BareScriptParserError
   kind "layout"   a text and a layout rewrite of it (LF/CRLF, chunks, blank / comment lines anywhere, indentation,
                   trailing blanks, continuation at a blank): if the two have the same logical lines up to blanks,
                   the two models are deep-equal; parsing is deterministic and stateless                         *)
EXTENDS BareLines, Json, IOUtils
Cases == JsonDeserialize(IOEnv.CASES)
VARIABLES tid, verdict
vars == <<tid, verdict>>
C == Cases[tid]

ClassesLaw ==
    LET want == IF ReferenceOutcome(C.kinds) = "ok" THEN "model" ELSE "BareScriptParserError" IN
    IF C.outcome = want THEN <<"ACCEPT">> ELSE <<"REJECT", "block-structure", <<C.kinds, "specified", want, "recorded", C.outcome>>>>

ErrorLaw ==
    LET L == LogicalLines(C.text)
        e == C.err
        named == { j \in 1..Len(L.lines) : L.lines[j].text = e.line /\ e.lineNumber = C.start + L.lines[j].first - 1 }
        namesPending == L.pending /\ L.pendingText = e.line /\ e.lineNumber = C.start + L.pendingFirst - 1
    IN IF C.outcome # "BareScriptParserError" THEN <<"REJECT", "faulty-text-not-rejected-with-a-parser-error", C.outcome>>
       ELSE IF ~e.hasLineNumber THEN <<"REJECT", "error-carries-no-line-number", <<e.error, e.line>>>>
       ELSE IF named = {} /\ ~namesPending THEN <<"REJECT", "error-does-not-name-a-logical-line-of-the-text", <<e.error, e.lineNumber, e.line>>>>
       ELSE IF e.column < 1 \/ e.column > Len(e.line) + 1 THEN <<"REJECT", "column-outside-the-line", <<e.column, Len(e.line)>>>>
       ELSE IF C.colLo > 0 /\ (e.column < C.colLo \/ e.column > C.colHi) THEN <<"REJECT", "column-not-at-the-fault", <<e.column, C.colLo, C.colHi, e.line>>>>
       ELSE IF C.faultFirst > 0 /\ e.lineNumber # C.start + C.faultFirst - 1 THEN <<"REJECT", "error-names-another-line", <<e.lineNumber, C.start + C.faultFirst - 1>>>>
       ELSE IF ~CaretOK(e.line, e.column, C.shown, C.caret) THEN <<"REJECT", "caret-not-under-the-column", <<e.column, C.caret, C.shown>>>>
       ELSE <<"ACCEPT">>

ShiftLaw ==
    IF C.o1 # "BareScriptParserError" \/ C.o2 # "BareScriptParserError" THEN <<"REJECT", "shifted-text-outcome", <<C.o1, C.o2>>>>
    ELSE IF ~C.e1.hasLineNumber \/ ~C.e2.hasLineNumber THEN <<"REJECT", "error-carries-no-line-number", C.e1.error>>
    ELSE IF C.e2.lineNumber # C.e1.lineNumber + C.k THEN <<"REJECT", "line-number-does-not-move-by-k", <<C.e1.lineNumber, C.k, C.e2.lineNumber>>>>
    ELSE IF C.e1.error # C.e2.error \/ C.e1.line # C.e2.line \/ C.e1.column # C.e2.column THEN <<"REJECT", "prepending-lines-changed-more-than-the-line-number", <<C.e1, C.e2>>>>
    ELSE <<"ACCEPT">>

TotalLaw == IF C.outcome \in {"model", "BareScriptParserError"} THEN <<"ACCEPT">> ELSE <<"REJECT", "escaped", C.outcome>>

\* "accounts for every non-blank, non-comment line": a text of simple statements only (assignments, calls, labels, jumps,
\* returns, includes) gives exactly one statement - or one entry of a merged include statement - per logical line
AccountedLaw ==
    LET L == LogicalLines(C.text) IN
    IF C.outcome # "model" THEN <<"REJECT", "simple-statements-rejected", C.outcome>>
    ELSE IF C.k # Len(L.lines) THEN <<"REJECT", "lines-not-accounted-for", <<"logical lines", Len(L.lines), "statements and include entries", C.k>>>>
    ELSE <<"ACCEPT">>

\* blanks outside quotes and brackets collapse to one blank, disappear next to "(", ")" and "," and before the ":" that ends a
\* line; ends are stripped
RECURSIVE NextNonBlank(_, _)
NextNonBlank(s, i) == IF i > Len(s) THEN 0 ELSE IF IsBlank(s[i]) THEN NextNonBlank(s, i + 1) ELSE s[i]
RECURSIVE NextNonBlankAt(_, _)
NextNonBlankAt(s, i) == IF i > Len(s) THEN 0 ELSE IF IsBlank(s[i]) THEN NextNonBlankAt(s, i + 1) ELSE i
\* the next non-blank character is a ":" and nothing but blanks follows it (block headers, labels)
ColonEndsLine(s, i) == LET j == NextNonBlankAt(s, i) IN j > 0 /\ s[j] = 58 /\ NextNonBlankAt(s, j + 1) = 0
\* a blank between a NAME and "(" is layout (call, function header) - unless the name is a keyword that is followed by an
\* expression ("return (x)" is not the call "return(x)")
IsWordCh(c) == (c >= 48 /\ c <= 57) \/ (c >= 65 /\ c <= 90) \/ (c >= 97 /\ c <= 122) \/ c = 95
RECURSIVE WordStartAt(_, _)
WordStartAt(a, i) == IF i >= 1 /\ IsWordCh(a[i]) THEN WordStartAt(a, i - 1) ELSE i + 1
KeywordsBeforeExpr == { <<114, 101, 116, 117, 114, 110>>, <<105, 102>>, <<101, 108, 105, 102>>, <<119, 104, 105, 108, 101>>, <<105, 110>>,
                        <<106, 117, 109, 112, 105, 102>>, <<106, 117, 109, 112>>, <<105, 110, 99, 108, 117, 100, 101>> }
CallGap(acc) == acc # <<>> /\ IsWordCh(acc[Len(acc)]) /\ SubSeq(acc, WordStartAt(acc, Len(acc)), Len(acc)) \notin KeywordsBeforeExpr
RECURSIVE NormFrom(_, _, _, _)
NormFrom(s, i, q, acc) ==      \* q = 0 outside, otherwise the closing delimiter we are waiting for
    IF i > Len(s) THEN acc
    ELSE LET c == s[i] IN
         IF q # 0 THEN
            IF c = 92 /\ i < Len(s) THEN NormFrom(s, i + 2, q, acc \o <<c, s[i + 1]>>)
            ELSE NormFrom(s, i + 1, IF c = q THEN 0 ELSE q, Append(acc, c))
         ELSE IF c \in {39, 34} THEN NormFrom(s, i + 1, c, Append(acc, c))
         ELSE IF c = 91 THEN NormFrom(s, i + 1, 93, Append(acc, c))
         ELSE IF IsBlank(c) THEN
            LET prev == IF acc = <<>> THEN 0 ELSE acc[Len(acc)]
                nxt == NextNonBlank(s, i) IN
            IF prev \in {0, 32, 40, 44} \/ nxt \in {0, 41, 44} \/ ColonEndsLine(s, i) \/ (nxt = 40 /\ CallGap(acc)) THEN NormFrom(s, i + 1, 0, acc)
            ELSE NormFrom(s, i + 1, 0, Append(acc, 32))
         ELSE NormFrom(s, i + 1, 0, Append(acc, c))
Norm(s) == RStripL(LStripL(NormFrom(s, 1, 0, <<>>)))
NormLines(r) == [i \in 1..Len(r.lines) |-> Norm(r.lines[i].text)]
LayoutLaw ==
    LET a == LogicalLines(C.orig)
        b == IF C.chunked THEN LogicalOfChunks(C.chunks) ELSE LogicalLines(C.rewritten)
    IN IF ~C.again THEN <<"REJECT", "parse_script-is-not-deterministic", "">>
       ELSE IF NormLines(a) # NormLines(b) \/ a.pending # b.pending THEN <<"SKIP", "the rewrite is not layout-only">>
       ELSE IF ~C.same THEN <<"REJECT", "layout-changed-the-model", C.rewrite>>
       ELSE <<"ACCEPT">>

Law == CASE C.kind = "classes" -> ClassesLaw [] C.kind = "error" -> ErrorLaw [] C.kind = "shift" -> ShiftLaw
         [] C.kind = "total" -> TotalLaw [] C.kind = "layout" -> LayoutLaw [] C.kind = "accounted" -> AccountedLaw
Init == tid \in 1..Len(Cases) /\ verdict = "open"
Next == /\ verdict = "open" /\ verdict' = Law[1] /\ PrintT(<<"V", tid>> \o Law) /\ UNCHANGED tid
Spec == Init /\ [][Next]_vars
=============================================================================
