---------------------------- MODULE BudgetInd ----------------------------
(* The statement budget as an abstract counter machine, for an UNBOUNDED (inductive) argument with Apalache:
   one counter shared by every frame (top level, script functions, callbacks, included scripts) - a frame is
   only a depth here.  StartStatement increments first and tests then, exactly as BareCore.Step does.      *)
EXTENDS Integers
VARIABLES
    \* @type: Int;
    cnt,
    \* @type: Int;
    lim,
    \* @type: Int;
    depth,
    \* @type: Str;
    status
Init == cnt = 0 /\ lim \in Nat /\ depth = 0 /\ status = "run"
StartStatement ==
    /\ status = "run"
    /\ cnt' = cnt + 1
    /\ status' = IF lim > 0 /\ cnt + 1 > lim THEN "limit" ELSE "run"
    /\ UNCHANGED <<lim, depth>>
Enter == status = "run" /\ depth' = depth + 1 /\ UNCHANGED <<cnt, lim, status>>        \* call / callback / include
Leave == status = "run" /\ depth > 0 /\ depth' = depth - 1 /\ UNCHANGED <<cnt, lim, status>>
Finish == status = "run" /\ depth = 0 /\ status' = "done" /\ UNCHANGED <<cnt, lim, depth>>
Next == StartStatement \/ Enter \/ Leave \/ Finish
\* the budget property of C09 (exactness): never more than lim statements run to completion, abort exactly at lim + 1
IndInv ==
    /\ cnt \in Nat /\ lim \in Nat /\ depth \in Nat /\ status \in {"run", "limit", "done"}
    /\ (lim > 0 => cnt <= lim + 1)
    /\ (status = "limit" <=> (lim > 0 /\ cnt = lim + 1))
IndInit == IndInv
=============================================================================
