---------------------------- MODULE MC_Cli ----------------------------
(* Leg A / B of X01: every command line of up to N scripts over a fixed alphabet of scripts, each as a file or as
   inline code, x {plain, -d, -s, -d -s} x -v settings, stepped by the BareCli driver machine one critical section
   per TLC step.  The alphabet is printed for the Python driver (single source of truth).                     *)
EXTENDS BareCli, Json, TLC

CONSTANT N

V(n) == [k |-> "var", v |-> n]
Nm(n) == [k |-> "num", v |-> IntV(n)]
Half == [k |-> "num", v |-> [t |-> "num", f |-> "q", n |-> 5, d |-> 2]]
St(cs) == [k |-> "str", v |-> cs]
Bin(op, l, r) == [k |-> "bin", op |-> op, l |-> l, r |-> r]
CallE(name, args) == [k |-> "call", name |-> name, args |-> args, noargs |-> FALSE]
ExprS(e) == [k |-> "expr", name |-> "", e |-> e]
Assign(n, e) == [k |-> "expr", name |-> n, e |-> e]
RetE(e) == [k |-> "return", hasE |-> TRUE, e |-> e]
Fun(name, args, body) == [k |-> "function", name |-> name, args |-> args, last |-> FALSE, body |-> body]
Log(e) == ExprS(CallE("systemLog", <<e>>))

\* [src, model]: what a script is made of
Ok(m) == [src |-> "ok", model |-> m]
Scripts == <<
    Ok(<<Log(St(<<97>>)), RetE(Nm(0))>>),                                   \* 1  logs "a", status 0
    Ok(<<RetE(Nm(3))>>),                                                    \* 2  status 3
    Ok(<<RetE(Nm(256))>>),                                                  \* 3  out of range: truthy -> 1
    Ok(<<RetE(Half)>>),                                                     \* 4  not integral: truthy -> 1
    Ok(<<RetE(St(<<>>))>>),                                                 \* 5  '' -> 0
    Ok(<<RetE(V("true"))>>),                                                \* 6  true -> 1
    Ok(<<Assign("g", Bin("+", CallE("if", <<V("g"), V("g"), Nm(0)>>), Nm(7)))>>),   \* 7  g = (g or 0) + 7 ; no result -> 0
    Ok(<<Log(Bin("+", St(<<103, 61>>), V("g"))), RetE(V("g"))>>),           \* 8  logs "g=<g>", status from the shared global
    Ok(<<ExprS(CallE("foo", <<>>)), Log(St(<<122>>))>>),                    \* 9  runtime error: undefined function
    Ok(<<Fun("ff", <<>>, <<RetE(Nm(1))>>), Fun("ff", <<>>, <<RetE(Nm(0))>>), RetE(CallE("ff", <<>>))>>),  \* 10 one exact warning; status 0
    Ok(<<ExprS(CallE("arrayGet", <<CallE("arrayNew", <<>>), Nm(5)>>)), Log(V("x"))>>),       \* 11 a failing library call (debug report); logs -v x
    [src |-> "broken", model |-> <<>>],                                     \* 12 syntax error
    [src |-> "missing", model |-> <<>>]                                     \* 13 file that does not exist (files only)
>>
NS == Len(Scripts)
Types == {"file", "code"}
\* a script occurrence: <<alphabet index, type>>; missing only makes sense for files
Occ == { o \in (1..NS) \X Types : Scripts[o[1]].src = "missing" => o[2] = "file" }
Lines == UNION { [1..k -> Occ] : k \in 1..N }
FileName(i, pos) == "s" \o ToString(pos) \o "_" \o ToString(i) \o ".bare"
ScriptsOf(line) == [p \in 1..Len(line) |->
    [type |-> line[p][2], name |-> IF line[p][2] = "file" THEN FileName(line[p][1], p) ELSE "",
     src |-> Scripts[line[p][1]].src, model |-> Scripts[line[p][1]].model]]
VarSets == << <<>>,
              << [name |-> "x", ok |-> TRUE, e |-> Bin("+", Nm(1), Nm(2))] >>,
              << [name |-> "g", ok |-> TRUE, e |-> Nm(1)], [name |-> "x", ok |-> TRUE, e |-> CallE("len", <<St(<<97, 98>>)>>)] >>,
              << [name |-> "x", ok |-> FALSE, e |-> Nm(0)] >>,
              << [name |-> "x", ok |-> TRUE, e |-> CallE("arrayNew", <<>>)] >> >>     \* library functions are not available to -v
Names == [g |-> <<103>>, x |-> <<120>>, ff |-> <<102, 102>>, foo |-> <<102, 111, 111>>]

VARIABLES cfg, c
vars == <<cfg, c>>
Init == /\ cfg \in { [debug |-> d, static |-> s, vars |-> VarSets[v], scripts |-> ScriptsOf(l)] :
                      d \in BOOLEAN, s \in BOOLEAN, v \in 1..Len(VarSets), l \in Lines }
        /\ c = Cli0(cfg)
Next == c.phase # "done" /\ c' = CliStep(cfg, Names, c) /\ UNCHANGED cfg
Spec == Init /\ [][Next]_vars
FairSpec == Spec /\ WF_vars(Next)

(* ---- properties of the driver design ---- *)
StatusRange == c.status \in 0..255
\* once the status is non-zero the run is over: nothing is loaded, parsed, linted or executed afterwards
StopAtFirstFailure == c.status # 0 => c.phase = "done"
FrozenAfterDone == [][c.phase = "done" => c' = c]_vars
\* -s never executes anything: no script output, no timing line
StaticNeverExecutes == cfg.static => c.executed = 0 /\ \A i \in 1..Len(c.out) : c.out[i].ev \in {"static", "error"}
\* scripts are taken in command-line order, one at a time
InOrder == [][c'.si \in {c.si, c.si + 1}]_vars
ExecutedBound == c.executed <= c.si /\ c.executed <= Len(cfg.scripts)
\* all earlier executed scripts ended with status 0 (otherwise the run would have stopped)
\* every failure report goes with status 1
ErrorMeansOne == (\E i \in 1..Len(c.out) : c.out[i].ev = "error") => (c.status = 1 /\ c.phase = "done")
\* at most one error report, and it is the last line
ErrorIsLast == \A i \in 1..Len(c.out) : c.out[i].ev = "error" => i = Len(c.out)
\* debug: every executed script is preceded by its analysis report and, when it returns, followed by a timing line
Count(ev) == Cardinality({ i \in 1..Len(c.out) : c.out[i].ev = ev })
DebugReports == (cfg.debug /\ ~cfg.static /\ c.phase = "done" /\ ~c.skip) =>
                    (Count("static") = c.executed /\ Count("timing") \in {c.executed, c.executed - 1})
Terminates == <>(c.phase = "done")

PrintAlphabet == PrintT(<<"CLIALPHABET", ToJson([scripts |-> Scripts, vars |-> VarSets, names |-> Names])>>)
ASSUME PrintAlphabet
=============================================================================
