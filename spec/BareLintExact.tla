---------------------------- MODULE BareLintExact ----------------------------
(* The linter's rule set, exactly (coverage beyond C18, check id X04).  C18 states that warnings are justified and that
   lint_script is pure; this module says which warnings lint_script reports - every kind, with the statement indices it
   prints - as a BAG of records [kind, scope, name, i1, i2] (scope "" = global scope, otherwise the function NAME: two
   functions of one name report into the same scope, hence a bag).  Indices are 0-based as printed.

     empty                 the script has no statements
     used-before (i1, i2)  a variable assigned in the scope whose first use (i1) is not after its first assignment (i2);
                           in functions, parameters are exempt
     redef-function (i1)   every function statement after the first of its name
     unused-variable (i1)  assigned in the function, never used (i1 = first assignment)
     dup-arg / unused-argument (i1 = index of the function statement)
     pointless (i1)        an expression statement without assignment and without a call anywhere in the expression
     redef-label (i1)      every label statement after the first of its name in the scope
     unused-label (i1 = the first definition) / unknown-label (i1 = the LAST jump naming it)                         *)
EXTENDS BareLint

Wn(kind, scope, name, i1, i2) == [kind |-> kind, scope |-> scope, name |-> name, i1 |-> i1, i2 |-> i2]
MinOf(S) == CHOOSE x \in S : \A y \in S : x <= y
MaxOf(S) == CHOOSE x \in S : \A y \in S : x >= y
AssignIdx(code, v) == { i \in 1..Len(code) : code[i].k = "expr" /\ code[i].name = v }
UseIdx(code, v) == { i \in 1..Len(code) : v \in StmtUses(code[i]) }
LabelIdx(code, l) == { i \in 1..Len(code) : code[i].k = "label" /\ code[i].v = l }
JumpIdx(code, l) == { i \in 1..Len(code) : code[i].k = "jump" /\ code[i].label = l }

UsedBefore(code, scope, exempt) ==
    { Wn("used-before", scope, v, MinOf(UseIdx(code, v)) - 1, MinOf(AssignIdx(code, v)) - 1) :
        v \in { x \in (Assigned(code) \ exempt) : UseIdx(code, x) # {} /\ MinOf(UseIdx(code, x)) <= MinOf(AssignIdx(code, x)) } }
LabelWarnings(code, scope) ==
    { Wn("redef-label", scope, code[i].v, i - 1, -1) : i \in { j \in 1..Len(code) : code[j].k = "label" /\ j # MinOf(LabelIdx(code, code[j].v)) } }
    \cup { Wn("unused-label", scope, l, MinOf(LabelIdx(code, l)) - 1, -1) : l \in UnusedLabels(code) }
    \cup { Wn("unknown-label", scope, l, MaxOf(JumpIdx(code, l)) - 1, -1) : l \in UnknownLabels(code) }
PointlessWarnings(code, scope) == { Wn("pointless", scope, "", i - 1, -1) : i \in PointlessAt(code) }

FunIdx(m) == { i \in 1..Len(m) : m[i].k = "function" }
\* the warnings of ONE function statement, as a set (duplicate arguments are counted separately)
FnSet(m, i) ==
    LET f == m[i] IN
    (IF \E j \in 1..(i - 1) : m[j].k = "function" /\ m[j].name = f.name THEN { Wn("redef-function", "", f.name, i - 1, -1) } ELSE {})
    \cup UsedBefore(f.body, f.name, ArgSet(f))
    \cup { Wn("unused-variable", f.name, v, MinOf(AssignIdx(f.body, v)) - 1, -1) : v \in Assigned(f.body) \ Uses(f.body) }
    \cup { Wn("unused-argument", f.name, a, i - 1, -1) : a \in UnusedArgs(f) }
    \cup PointlessWarnings(f.body, f.name) \cup LabelWarnings(f.body, f.name)
DupCount(f, a) == Cardinality({ j \in 1..Len(f.args) : f.args[j] = a }) - 1
GlobalSet(m) ==
    (IF m = <<>> THEN { Wn("empty", "", "", -1, -1) } ELSE {})
    \cup UsedBefore(m, "", {}) \cup PointlessWarnings(m, "") \cup LabelWarnings(m, "")

SpecCount(m, w) ==
    (IF w \in GlobalSet(m) THEN 1 ELSE 0)
    + Cardinality({ i \in FunIdx(m) : w \in FnSet(m, i) })
    + (IF w.kind = "dup-arg"
       THEN LET hit == { i \in FunIdx(m) : m[i].name = w.scope /\ i - 1 = w.i1 /\ w.name \in ArgSet(m[i]) } IN
            IF hit = {} THEN 0 ELSE DupCount(m[CHOOSE i \in hit : TRUE], w.name)
       ELSE 0)
SpecSupport(m) ==
    GlobalSet(m) \cup UNION { FnSet(m, i) : i \in FunIdx(m) }
    \cup UNION { { Wn("dup-arg", m[i].name, a, i - 1, -1) : a \in DupArgs(m[i]) } : i \in FunIdx(m) }
=============================================================================
