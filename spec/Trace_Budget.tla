---------------------------- MODULE Trace_Budget ----------------------------
(* C09 on recorded executions: the laws of the statement budget evaluated directly on a FAMILY
   of real runs of one program under different limits (runs[1] is the reference run: no limit,
   or - for programs that never end - the largest limit).  Works for any program, including
   those that use library functions without a functional model (data helpers, sort callbacks):
   nothing here depends on what the program computes, only on the budget contract.
     Exact      L > 0 => count <= L + 1, and the run is aborted with the limit error iff
                count = L + 1
     Monotone   the counter observed at successive host-visible events never decreases and
                never exceeds the final count; a probe placed in a statement of its own
                sees a strictly larger counter than the previous such probe
     Complete   if the reference run ends after N statements, every run with L >= N is
                identical to it (events, result, error, globals, count)
     Prefix     every run with L < N is aborted and its events are a prefix of the
                reference run's events                                                    *)
EXTENDS Integers, Sequences, TLC, Json, IOUtils, SequencesExt, TreeEq

Cases == JsonDeserialize(IOEnv.CASES)
VARIABLES tid, verdict
vars == <<tid, verdict>>
C == Cases[tid]

CntOf(e) == IF "cnt" \in DOMAIN e THEN e.cnt ELSE -1
Counted(tr) == SelectSeq(tr, LAMBDA e : "cnt" \in DOMAIN e)
MonotoneRun(r) ==
    LET cs == Counted(r.trace) IN
    /\ \A i \in 1..Len(cs) : cs[i].cnt >= 1 /\ cs[i].cnt <= r.fin.cnt
    /\ \A i \in 1..(Len(cs) - 1) : cs[i].cnt <= cs[i + 1].cnt
    /\ \A i \in 1..(Len(cs) - 1) : (cs[i].own /\ cs[i + 1].own) => cs[i].cnt < cs[i + 1].cnt
ExactRun(r) ==
    r.L > 0 => /\ r.fin.cnt <= r.L + 1
               /\ (r.fin.status = "limit") <=> (r.fin.cnt = r.L + 1)
Ref == C.runs[1]
RefEnds == Ref.fin.status # "limit"
SameAsRef(r) == EventSeqEq(r.trace, Ref.trace) /\ r.fin.status = Ref.fin.status /\ TreeEq(r.fin.ret, Ref.fin.ret)
                /\ TreeMapEq(r.fin.globals, Ref.fin.globals) /\ r.fin.cnt = Ref.fin.cnt /\ r.fin.arg = Ref.fin.arg
Law(r) ==
    IF ~ExactRun(r) THEN "exact"
    ELSE IF ~MonotoneRun(r) THEN "monotone"
    ELSE IF r.L = 0 THEN (IF r.fin.status = "limit" THEN "unlimited-run-aborted" ELSE "ok")
    ELSE IF RefEnds /\ r.L >= Ref.fin.cnt THEN (IF SameAsRef(r) THEN "ok" ELSE "complete")
    ELSE IF (RefEnds \/ r.L < Ref.L) /\ ~(r.fin.status = "limit" /\ Len(r.trace) <= Len(Ref.trace) /\ EventSeqEq(r.trace, SubSeq(Ref.trace, 1, Len(r.trace)))) THEN "prefix"
    ELSE "ok"
Bad == { i \in 1..Len(C.runs) : Law(C.runs[i]) # "ok" }

Init == tid \in 1..Len(Cases) /\ verdict = "open"
Next == /\ verdict = "open"
        /\ IF Bad = {} THEN verdict' = "ACCEPT" /\ PrintT(<<"V", tid, "ACCEPT">>)
           ELSE LET i == CHOOSE i \in Bad : \A j \in Bad : i <= j IN
                /\ verdict' = "REJECT"
                /\ PrintT(<<"V", tid, "REJECT", Law(C.runs[i]), <<"L", C.runs[i].L, "count", C.runs[i].fin.cnt,
                            "status", C.runs[i].fin.status, "reference count", Ref.fin.cnt>>>>)
        /\ UNCHANGED tid
Spec == Init /\ [][Next]_vars
=============================================================================
