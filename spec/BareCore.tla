---------------------------- MODULE BareCore ----------------------------
(* Expression evaluation (C03, C04, C05) and the jump-level statement machine (C08, C09, C17):
   the REFERENCE semantics of BareScript models, as a definitional interpreter.

   Abstract syntax (records, field k):
     expressions  num(v) str(v) var(v) grp(e) un(op,e) bin(op,l,r) call(name,args,noargs)
     statements   expr(name,e)  [name = "" : expression statement]
                  jump(label,hasE,e)  label(v)  return(hasE,e)
                  function(name,args,last,body)  include(incs = <<[url, system]>>)
   Execution state st (threaded through every operator):
     g      globals: function from names to values (heap form)
     heap   container cells
     log    host-visible events produced so far, in order
     cnt    statements started so far;  lim  the limit (0 = unlimited)
     exc    "" while running, otherwise the way the run ended abnormally:
              "limit" "label" "undefined" "include" "parse"   the documented errors
              "skip"   the run left the domain in which this specification is exact
              "fuel"   evaluation fuel exhausted (machinery bound, never a verdict)
     excArg the label / function name / location the error names
     dbg    debug mode;  lib  the library is injected into the globals (execute_script)
     off    UTC offset (minutes) used when a datetime is turned into text
     inc    include context [vfs, sys, hasSys, base, hasBase]                            *)
EXTENDS BareLib

\* (defined here because library calls use them too; the include section restates them under their usual names)
IsLowerAZ0(c) == c >= 97 /\ c <= 122
IsURL0(s) == \E k \in 2..Len(s) : s[k] = 58 /\ \A j \in 1..(k - 1) : IsLowerAZ0(s[j])
LastSlash0(s) == IF \E k \in 1..Len(s) : s[k] = 47
                 THEN CHOOSE k \in 1..Len(s) : s[k] = 47 /\ \A j \in (k + 1)..Len(s) : s[j] # 47 ELSE 0
ResolveRef(base, ref) ==
    IF IsURL0(ref) THEN ref ELSE IF ref # <<>> /\ ref[1] = 47 THEN ref ELSE SubSeq(base, 1, LastSlash0(base)) \o ref
VfsIndexOf(vfs, url) == IF \E i \in 1..Len(vfs) : vfs[i].url = url THEN CHOOSE i \in 1..Len(vfs) : vfs[i].url = url ELSE 0

EvR(v, st) == [v |-> v, st |-> st]
Fail(st, kind, arg) == [st EXCEPT !.exc = kind, !.excArg = arg]
Skip(st) == IF st.exc = "" THEN Fail(st, "skip", "") ELSE st
Emit(st, ev) == [st EXCEPT !.log = Append(@, ev)]

NoLoc == [has |-> FALSE, m |-> <<>>]
LibFn(name)  == [t |-> "fn", f |-> "lib", name |-> name]
HostFn(name) == [t |-> "fn", f |-> "host", name |-> name]

Lookup(name, loc, st) ==
    IF name = "null" THEN Null
    ELSE IF name = "true" THEN Bool(TRUE)
    ELSE IF name = "false" THEN Bool(FALSE)
    ELSE IF loc.has /\ name \in DOMAIN loc.m THEN loc.m[name]
    ELSE IF name \in DOMAIN st.g THEN st.g[name]
    ELSE IF st.lib /\ name \in LibNames THEN LibFn(name)
    ELSE Null

(***************************** operators (A2 - A8) *****************************)
\* milliseconds as (days, ms-of-day) from an integral exact number
MsDays(n) == n \div MsPerDay
MsRest(n) == n % MsPerDay
DtPlus(dt, n) ==
    IF ~IsQ(n) THEN AnyVal
    ELSE LET whole == n.n \div n.d                     \* whole milliseconds (floor)
             rem == n.n % n.d                          \* 0 <= rem < d <= 1024
         IN IF (rem * 1000) % n.d # 0 THEN AnyVal        \* not a whole number of microseconds: the host rounds, any instant within 1 us
            ELSE LET us == UsOf(dt) + (rem * 1000) \div n.d
                     ms1 == whole + us \div 1000
                     r == AddMs(dt.d, dt.ms, MsDays(ms1), MsRest(ms1)) IN
                 IF r.d < MinDay \/ r.d > MaxDay THEN Null ELSE Dt3(r.d, r.ms, us % 1000)

\* returns a value, or [t |-> "skip"] when the operands leave the exact domain
BinOp(op, a, b, heap, off) ==
    IF ~Concrete(a) \/ ~Concrete(b) THEN [t |-> "skip"]
    ELSE IF op \in {"==", "!=", "<", "<=", ">", ">="} THEN
        IF HasNonFinite(Extern(a, heap)) \/ HasNonFinite(Extern(b, heap)) THEN [t |-> "skip"] ELSE
        LET c == Compare(a, b, heap) IN
        Bool(CASE op = "==" -> c = 0 [] op = "!=" -> c # 0 [] op = "<" -> c < 0
               [] op = "<=" -> c <= 0 [] op = ">" -> c > 0 [] OTHER -> c >= 0)
    ELSE IF op = "+" THEN
        IF a.t = "num" /\ b.t = "num" THEN AddN(a, b)
        ELSE IF a.t = "str" /\ b.t = "str" THEN Str(a.v \o b.v)
        ELSE IF a.t = "str" THEN LET t == ToText(b, heap, off) IN IF t.ok THEN Str(a.v \o t.s) ELSE [t |-> "skip"]
        ELSE IF b.t = "str" THEN LET t == ToText(a, heap, off) IN IF t.ok THEN Str(t.s \o b.v) ELSE [t |-> "skip"]
        ELSE IF a.t = "dt" /\ b.t = "num" THEN DtPlus(a, b)
        ELSE IF a.t = "num" /\ b.t = "dt" THEN DtPlus(b, a)
        ELSE Null
    ELSE IF op = "-" THEN
        IF a.t = "num" /\ b.t = "num" THEN SubN(a, b)
        ELSE IF a.t = "dt" /\ b.t = "dt" THEN
            \* (the difference is rounded to whole milliseconds: left open when an operand carries microseconds)
            IF Abs(a.d - b.d) <= 10 /\ UsOf(a) = 0 /\ UsOf(b) = 0 THEN IntV((a.d - b.d) * MsPerDay + (a.ms - b.ms)) ELSE AnyFinite
        ELSE Null
    ELSE IF a.t # "num" \/ b.t # "num" THEN Null
    ELSE IF op = "*" THEN MulN(a, b)
    ELSE IF op = "/" THEN
        IF IsQ(b) /\ b.n = 0 THEN DivZero
        ELSE IF IsQ(a) /\ IsQ(b) THEN DivQ(a, b) ELSE PowWild
    ELSE IF op = "%" THEN
        IF IsQ(b) /\ b.n = 0 THEN DivZero
        ELSE IF IsQ(a) /\ IsQ(b) /\ a.d = 1 /\ b.d = 1 /\ a.n >= 0 /\ b.n > 0 THEN IntV(a.n % b.n)
        ELSE IF IsQ(a) /\ IsQ(b) THEN AnyNum ELSE PowWild
    ELSE \* "**"
        IF IsQ(a) /\ IsQ(b) THEN
            IF b.d = 1 /\ b.n >= 0 /\ b.n <= 64 THEN
                LET r == PowQ(a, b.n) IN IF r.t = "wild" THEN PowWild ELSE r
            ELSE IF b.d = 1 /\ b.n < 0 THEN (IF a.n = 0 THEN DivZero ELSE PowWild)
            ELSE IF b.d = 1 THEN PowWild
            ELSE IF a.n < 0 \/ (a.n = 0 /\ b.n < 0) THEN DivZero ELSE AnyNum
        ELSE PowWild

UnOp(op, a, heap) ==
    IF ~Concrete(a) THEN [t |-> "skip"]
    ELSE IF op = "!" THEN Bool(~Truthy(a, heap))
    ELSE IF a.t = "num" THEN NegN(a) ELSE Null

(***************************** stable sort by Compare *****************************)
RECURSIVE InsertSorted(_, _, _), SortStable(_, _)
InsertSorted(x, s, heap) ==         \* insert x after every element <= x (stability)
    IF s = <<>> THEN <<x>>
    ELSE IF Compare(x, Head(s), heap) < 0 THEN <<x>> \o s
    ELSE <<Head(s)>> \o InsertSorted(x, Tail(s), heap)
SortStable(s, heap) ==
    IF s = <<>> THEN <<>>
    ELSE InsertSorted(s[Len(s)], SortStable(SubSeq(s, 1, Len(s) - 1), heap), heap)
\* insertion from the right would break stability; build left to right instead
RECURSIVE SortLR(_, _, _)
SortLR(s, acc, heap) == IF s = <<>> THEN acc ELSE SortLR(Tail(s), InsertSorted(Head(s), acc, heap), heap)

(***************************** evaluation *****************************)
RECURSIVE Eval(_, _, _, _), EvalArgs(_, _, _, _, _), CallFn(_, _, _, _, _), CallName(_, _, _, _, _),
          Run(_, _, _, _, _), Step(_, _, _, _, _), ScanMatch(_, _, _, _, _, _), RunIncludes(_, _, _, _),
          ExecBlock(_, _, _, _, _), ExecStmt(_, _, _, _), ExecIf(_, _, _, _, _), ExecWhile(_, _, _, _),
          ExecFor(_, _, _, _, _, _, _)

\* parameter binding (A13)
BindParams(def, args, heap0) ==
    LET n == Len(def.args)
        names == { def.args[j] : j \in 1..n }
        restv == IF def.last /\ n > 0 THEN
                    Alloc("array", IF Len(args) >= n THEN SubSeq(args, n, Len(args)) ELSE <<>>, heap0)
                 ELSE [v |-> Null, heap |-> heap0]
        \* a repeated parameter name: the LAST occurrence wins (assignment order)
        pos(nm) == CHOOSE j \in 1..n : def.args[j] = nm /\ \A k \in (j + 1)..n : def.args[k] # nm
        val(j) == IF def.last /\ j = n THEN restv.v
                  ELSE IF j <= Len(args) THEN args[j] ELSE Null
    IN [m |-> [nm \in names |-> val(pos(nm))], heap |-> restv.heap]

\* systemFetch: fetch urls[i..] in order -> [vs, st]
RECURSIVE FetchAll(_, _, _, _, _)
FetchAll(items, i, urls, st, acc) ==
    IF i > Len(urls) THEN [vs |-> acc, st |-> st]
    ELSE LET url == IF st.inc.hasBase THEN ResolveRef(st.inc.base, urls[i]) ELSE urls[i]
             j == VfsIndexOf(st.inc.vfs, url)
             got == st.inc.hasFetch /\ j # 0 /\ st.inc.vfs[j].kind \in {"text", "broken"}
             st1 == IF st.inc.hasFetch THEN Emit(st, [ev |-> "fetch", url |-> url]) ELSE st
             st2 == IF ~got /\ st.dbg THEN Emit(st1, [ev |-> "dbgfail", name |-> "systemFetch"]) ELSE st1
         IN FetchAll(items, i + 1, urls, st2, Append(acc, IF got THEN Str(st.inc.vfs[j].cps) ELSE Null))

\* callbacks are specified for script functions (possibly through systemPartial) only
RECURSIVE IsScriptFn(_)
IsScriptFn(f) == f.t = "fn" /\ (f.f = "script" \/ (f.f = "partial" /\ IsScriptFn(f.fn)))
\* a failed call: debug mode reports it, the call evaluates to v, execution continues (A12)
Failed(name, v, st) ==
    EvR(v, IF st.dbg THEN Emit(st, [ev |-> "dbgfail", name |-> name]) ELSE st)

CallFn(name, f, args, st, fuel) ==
    IF fuel = 0 THEN EvR(Null, Fail(st, "fuel", ""))
    ELSE IF f.t # "fn" THEN Failed(name, Null, st)                 \* calling a non-function value
    ELSE IF f.f = "script" THEN
        LET b == BindParams(f.def, args, st.heap) IN
        IF "struct" \in DOMAIN f.def THEN
            \* a function of a STRUCTURED program: its body has the source-level meaning (C01)
            LET x == ExecBlock(f.def.body, 1, [has |-> TRUE, m |-> b.m], [st EXCEPT !.heap = b.heap], fuel - 1) IN
            EvR(IF x.sig = "ret" THEN x.v ELSE Null, x.st)
        ELSE LET r == Run(f.def.body, 1, [has |-> TRUE, m |-> b.m], [st EXCEPT !.heap = b.heap], fuel - 1)
             IN EvR(r.ret, r.st)
    ELSE IF f.f = "partial" THEN CallFn(name, f.fn, f.args \o args, st, fuel - 1)
    ELSE IF f.f = "host" THEN
        IF f.name = "probe" THEN
            EvR(IF Len(args) > 1 THEN args[2] ELSE Null,
                Emit(st, [ev |-> "probe", args |-> ExternSeq(args, st.heap), cnt |-> st.cnt]))
        ELSE IF f.name = "hostFail" THEN Failed(name, Null, st)     \* a host function that raises
        ELSE EvR(Null, Skip(st))
    ELSE \* library function
        LET ln == f.name IN
        IF \E i \in 1..Len(args) : ~Concrete(args[i]) THEN EvR(Null, Skip(st))
        ELSE IF ln = "systemLog" \/ (ln = "systemLogDebug") THEN
            LET val == Validate(Signatures[ln], args, st.heap) IN
            IF ~val.ok THEN Failed(name, Null, st)
            ELSE IF ln = "systemLogDebug" /\ ~st.dbg THEN EvR(Null, st)
            ELSE LET t == ToText(val.vs[1], st.heap, st.off) IN
                 IF t.ok THEN EvR(Null, Emit(st, [ev |-> "log", text |-> t.s])) ELSE EvR(Null, Skip(st))
        ELSE IF ln = "systemGlobalGet" THEN
            LET val == Validate(Signatures[ln], args, st.heap) IN
            IF ~val.ok THEN Failed(name, Null, st)
            ELSE LET nm == val.vs[1].v IN
                 \* names are TLA+ strings; the driver supplies the code-point -> name table
                 IF \E k \in DOMAIN st.names : st.names[k] = nm
                 THEN LET k == CHOOSE k \in DOMAIN st.names : st.names[k] = nm IN
                      EvR(IF k \in DOMAIN st.g THEN st.g[k]
                          ELSE IF st.lib /\ k \in LibNames THEN LibFn(k) ELSE val.vs[2], st)
                 ELSE EvR(Null, Skip(st))
        ELSE IF ln = "systemGlobalSet" THEN
            LET val == Validate(Signatures[ln], args, st.heap) IN
            IF ~val.ok THEN Failed(name, Null, st)
            ELSE LET nm == val.vs[1].v IN
                 IF \E k \in DOMAIN st.names : st.names[k] = nm
                 THEN LET k == CHOOSE k \in DOMAIN st.names : st.names[k] = nm IN
                      EvR(val.vs[2], [st EXCEPT !.g = (k :> val.vs[2]) @@ @])
                 ELSE EvR(Null, Skip(st))
        ELSE IF ln = "systemFetch" THEN
            \* url | request object | array of those; each URL is resolved against the running script (urlFn),
            \* fetched in order through the host fetchFn; a failed fetch gives null (reported in debug mode)
            IF Len(args) # 1 THEN Failed(name, Null, st)
            ELSE LET a == args[1]
                     isArr == a.t = "array"
                     items == IF isArr THEN st.heap[a.r].v ELSE <<a>>
                     okItem(x) == x.t = "str" \/ (x.t = "object" /\ LET ps == st.heap[x.r].v IN
                                        /\ PairIndex(ps, <<117, 114, 108>>) # 0 /\ ps[PairIndex(ps, <<117, 114, 108>>)].val.t = "str"
                                        /\ \A p \in 1..Len(ps) : ps[p].key \in {<<117, 114, 108>>, <<98, 111, 100, 121>>, <<104, 101, 97, 100, 101, 114, 115>>}
                                        /\ (PairIndex(ps, <<98, 111, 100, 121>>) # 0 => ps[PairIndex(ps, <<98, 111, 100, 121>>)].val.t = "str")
                                        /\ PairIndex(ps, <<104, 101, 97, 100, 101, 114, 115>>) = 0)
                     urlOf(x) == IF x.t = "str" THEN x.v ELSE st.heap[x.r].v[PairIndex(st.heap[x.r].v, <<117, 114, 108>>)].val.v
                 IN IF a.t \notin {"str", "object", "array"} \/ \E i \in 1..Len(items) : ~okItem(items[i]) THEN Failed(name, Null, st)
                    ELSE LET r == FetchAll(items, 1, [i \in 1..Len(items) |-> urlOf(items[i])], st, <<>>) IN
                         IF isArr THEN LET al == Alloc("array", r.vs, r.st.heap) IN EvR(al.v, [r.st EXCEPT !.heap = al.heap])
                         ELSE EvR(r.vs[1], r.st)
        ELSE IF ln = "systemPartial" THEN
            LET val == Validate(Signatures[ln], args, st.heap) IN
            IF ~val.ok \/ val.vs[2].v = <<>> THEN Failed(name, Null, st)
            ELSE EvR([t |-> "fn", f |-> "partial", fn |-> val.vs[1], args |-> val.vs[2].v], st)
        ELSE IF ln \in {"arrayIndexOf", "arrayLastIndexOf"} /\ Len(args) >= 2 /\ args[2].t = "fn"
                /\ args[1].t = "array" /\ Validate(Signatures[ln], args, st.heap).ok THEN
            \* match-function form: the function is called on each element in scan order
            LET val == Validate(Signatures[ln], args, st.heap)
                s == st.heap[args[1].r].v
                fwd == ln = "arrayIndexOf"
                start == IF fwd THEN Ix(val.vs[3]) ELSE (IF val.vs[3].t = "null" THEN Len(s) - 1 ELSE Ix(val.vs[3]))
            IN IF start >= Len(s) THEN Failed(name, IntV(-1), st)
               ELSE IF ~IsScriptFn(args[2]) THEN EvR(Null, Skip(st))
               ELSE ScanMatch(name, args, start, fwd, st, fuel - 1)
        ELSE IF ln = "arraySort" THEN
            LET val == Validate(Signatures[ln], args, st.heap) IN
            IF ~val.ok THEN Failed(name, Null, st)
            ELSE IF val.vs[2].t # "null" THEN EvR(Null, Skip(st))          \* A28: callback order unspecified
            ELSE LET s == st.heap[args[1].r].v IN
                 IF \E i \in 1..Len(s) : ~Concrete(s[i]) THEN EvR(Null, Skip(st))
                 ELSE EvR(args[1], [st EXCEPT !.heap = SetCell(@, args[1].r, SortLR(s, <<>>, st.heap))])
        ELSE LET r == LibPure(ln, args, st.heap, st.off) IN
             IF ~r.m THEN EvR(Null, Skip(st))
             ELSE IF r.v.t = "skip" THEN EvR(Null, Skip(st))
             ELSE IF r.f THEN Failed(name, r.v, st)
             ELSE EvR(r.v, [st EXCEPT !.heap = r.heap])

\* arrayIndexOf / arrayLastIndexOf with a match function: 0-based position pos, re-reading the array
ScanMatch(name, args, pos, fwd, st, fuel) ==
    IF st.exc # "" THEN EvR(Null, st)
    ELSE IF fuel = 0 THEN EvR(Null, Fail(st, "fuel", ""))
    ELSE LET s == st.heap[args[1].r].v IN
         IF (fwd /\ pos >= Len(s)) \/ (~fwd /\ pos < 0) THEN EvR(IntV(-1), st)
         ELSE IF pos >= Len(s) THEN Failed(name, Null, st)         \* the array shrank under a backward scan
         ELSE LET r == CallFn(name, args[2], <<s[pos + 1]>>, st, fuel - 1) IN
              IF r.st.exc # "" THEN r
              ELSE IF ~Concrete(r.v) THEN EvR(Null, Skip(r.st))
              ELSE IF Truthy(r.v, r.st.heap) THEN EvR(IntV(pos), r.st)
              ELSE ScanMatch(name, args, IF fwd THEN pos + 1 ELSE pos - 1, fwd, r.st, fuel - 1)

\* resolve a called name (A11): locals -> globals -> (library) -> expression built-ins
CallName(name, args, loc, st0, fuelbi) ==
    LET fuel == fuelbi[1]  bi == fuelbi[2]  st == st0 IN
    IF loc.has /\ name \in DOMAIN loc.m THEN
        (IF loc.m[name].t = "null" THEN EvR(Null, Fail(st, "undefined", name)) ELSE CallFn(name, loc.m[name], args, st, fuel))
    ELSE IF name \in DOMAIN st.g THEN
        (IF st.g[name].t = "null" THEN EvR(Null, Fail(st, "undefined", name)) ELSE CallFn(name, st.g[name], args, st, fuel))
    ELSE IF st.lib /\ name \in LibNames THEN CallFn(name, LibFn(name), args, st, fuel)
    ELSE IF bi /\ name \in DOMAIN ExprAliases THEN CallFn(name, LibFn(ExprAliases[name]), args, st, fuel)
    ELSE EvR(Null, Fail(st, "undefined", name))

Eval(e, loc, st, fuelbi) ==
    IF st.exc # "" THEN EvR(Null, st)
    ELSE IF fuelbi[1] = 0 THEN EvR(Null, Fail(st, "fuel", ""))
    ELSE LET fb == <<fuelbi[1] - 1, fuelbi[2]>> IN
    CASE e.k = "num" -> EvR(e.v, st)
      [] e.k = "str" -> EvR(Str(e.v), st)
      [] e.k = "var" -> EvR(Lookup(e.v, loc, st), st)
      [] e.k = "grp" -> Eval(e.e, loc, st, fb)
      [] e.k = "un"  ->
            LET r == Eval(e.e, loc, st, fb) IN
            IF r.st.exc # "" THEN r
            ELSE LET v == UnOp(e.op, r.v, r.st.heap) IN
                 IF v.t = "skip" THEN EvR(Null, Skip(r.st)) ELSE EvR(v, r.st)
      [] e.k = "bin" ->
            LET l == Eval(e.l, loc, st, fb) IN
            IF l.st.exc # "" THEN l
            ELSE IF e.op \in {"&&", "||"} THEN
                IF ~Concrete(l.v) THEN EvR(Null, Skip(l.st))
                ELSE IF (e.op = "&&") = Truthy(l.v, l.st.heap) THEN Eval(e.r, loc, l.st, fb) ELSE l
            ELSE LET r == Eval(e.r, loc, l.st, fb) IN
                 IF r.st.exc # "" THEN r
                 ELSE LET v == BinOp(e.op, l.v, r.v, r.st.heap, r.st.off) IN
                      IF v.t = "skip" THEN EvR(Null, Skip(r.st)) ELSE EvR(v, r.st)
      [] e.k = "call" ->
            IF e.name = "if" THEN
                \* special form: the condition, then exactly one branch
                LET n == Len(e.args)
                    c == IF n >= 1 THEN Eval(e.args[1], loc, st, fb) ELSE EvR(Bool(FALSE), st) IN
                IF c.st.exc # "" THEN c
                ELSE IF ~Concrete(c.v) THEN EvR(Null, Skip(c.st))
                ELSE IF Truthy(c.v, c.st.heap) THEN (IF n >= 2 THEN Eval(e.args[2], loc, c.st, fb) ELSE EvR(Null, c.st))
                ELSE (IF n >= 3 THEN Eval(e.args[3], loc, c.st, fb) ELSE EvR(Null, c.st))
            ELSE LET a == EvalArgs(e.args, 1, loc, st, fb) IN
                 IF a.st.exc # "" THEN EvR(Null, a.st)
                 ELSE CallName(e.name, a.vs, loc, a.st, fb)

EvalArgs(args, i, loc, st, fb) ==
    IF i > Len(args) \/ st.exc # "" THEN [vs |-> <<>>, st |-> st]
    ELSE LET r == Eval(args[i], loc, st, fb)
             rest == EvalArgs(args, i + 1, loc, r.st, fb)
         IN [vs |-> <<r.v>> \o rest.vs, st |-> rest.st]

(***************************** statements (A14 - A17) *****************************)
\* first label of that name in the CURRENT statement list (A15); 0 if none
LabelIx(stmts, name) ==
    IF \E i \in 1..Len(stmts) : stmts[i].k = "label" /\ stmts[i].v = name
    THEN CHOOSE i \in 1..Len(stmts) : /\ stmts[i].k = "label" /\ stmts[i].v = name
                                      /\ \A j \in 1..(i - 1) : ~(stmts[j].k = "label" /\ stmts[j].v = name)
    ELSE 0

SR(pc, loc, st, fin, ret) == [pc |-> pc, loc |-> loc, st |-> st, fin |-> fin, ret |-> ret]
DefaultFuel == 400
Bi == FALSE       \* statements evaluate expressions without the expression built-ins

(***************************** includes (A22, C17) *****************************)
cSlash == 47
IsLowerAZ(c) == c >= 97 /\ c <= 122
\* ^[a-z]+:
IsURL(s) == \E k \in 2..Len(s) : s[k] = cColon /\ \A j \in 1..(k - 1) : IsLowerAZ(s[j])
LastSlash(s) == IF \E k \in 1..Len(s) : s[k] = cSlash
                THEN CHOOSE k \in 1..Len(s) : s[k] = cSlash /\ \A j \in (k + 1)..Len(s) : s[j] # cSlash ELSE 0
\* resolve ref against the file that contains the statement (POSIX paths; "." / ".." kept verbatim)
Resolve(base, ref) ==
    IF IsURL(ref) THEN ref
    ELSE IF ref # <<>> /\ ref[1] = cSlash THEN ref
    ELSE SubSeq(base, 1, LastSlash(base)) \o ref
VfsIndex(vfs, url) == IF \E i \in 1..Len(vfs) : vfs[i].url = url THEN CHOOSE i \in 1..Len(vfs) : vfs[i].url = url ELSE 0

RunIncludes(incs, i, st, fuel) ==
    IF i > Len(incs) \/ st.exc # "" THEN st
    ELSE LET inc == incs[i]
             url == IF inc.system /\ st.inc.hasSys THEN Resolve(st.inc.sys, inc.url)
                    ELSE IF st.inc.hasBase THEN Resolve(st.inc.base, inc.url)
                    ELSE inc.url
             st1 == Emit(st, [ev |-> "fetch", url |-> url])
             j == VfsIndex(st.inc.vfs, url)
         IN IF ~st.inc.hasFetch THEN Fail(st, "include", url)
            ELSE IF j = 0 \/ st.inc.vfs[j].kind \in {"missing", "throws"} THEN Fail(st1, "include", url)
            ELSE IF st.inc.vfs[j].kind = "broken" THEN Fail(st1, "parse", url)
            ELSE LET sub == Run(st.inc.vfs[j].model, 1, NoLoc,
                                [st1 EXCEPT !.inc.base = url, !.inc.hasBase = TRUE], fuel - 1)
                     \* the included script ran in global scope; its return value is dropped,
                     \* and the includer's own resolution base is restored
                     st2 == [sub.st EXCEPT !.inc.base = st.inc.base, !.inc.hasBase = st.inc.hasBase]
                 IN RunIncludes(incs, i + 1, st2, fuel - 1)

\* one started statement
Step(stmts, p, loc, st0, fuel) ==
    LET s == stmts[p]
        st == [st0 EXCEPT !.cnt = @ + 1]
        fb == <<fuel, Bi>>
    IN IF st.lim > 0 /\ st.cnt > st.lim THEN SR(p, loc, Fail(st, "limit", ""), TRUE, Null)
    ELSE CASE s.k = "expr" ->
            LET r == Eval(s.e, loc, st, fb) IN
            IF r.st.exc # "" THEN SR(p, loc, r.st, TRUE, Null)
            ELSE IF s.name # "" THEN
                IF loc.has THEN SR(p + 1, [loc EXCEPT !.m = (s.name :> r.v) @@ @], r.st, FALSE, Null)
                ELSE SR(p + 1, loc, [r.st EXCEPT !.g = (s.name :> r.v) @@ @], FALSE, Null)
            ELSE SR(p + 1, loc, r.st, FALSE, Null)
      [] s.k = "jump" ->
            LET r == IF s.hasE THEN Eval(s.e, loc, st, fb) ELSE EvR(Bool(TRUE), st) IN
            IF r.st.exc # "" THEN SR(p, loc, r.st, TRUE, Null)
            ELSE IF ~Concrete(r.v) THEN SR(p, loc, Skip(r.st), TRUE, Null)
            ELSE IF Truthy(r.v, r.st.heap) THEN
                LET ix == LabelIx(stmts, s.label) IN
                IF ix = 0 THEN SR(p, loc, Fail(r.st, "label", s.label), TRUE, Null)
                ELSE SR(ix + 1, loc, r.st, FALSE, Null)
            ELSE SR(p + 1, loc, r.st, FALSE, Null)
      [] s.k = "label" -> SR(p + 1, loc, st, FALSE, Null)
      [] s.k = "return" ->
            LET r == IF s.hasE THEN Eval(s.e, loc, st, fb) ELSE EvR(Null, st) IN
            SR(p, loc, r.st, TRUE, r.v)
      [] s.k = "function" ->
            SR(p + 1, loc, [st EXCEPT !.g = (s.name :> [t |-> "fn", f |-> "script",
                    def |-> [name |-> s.name, args |-> s.args, last |-> s.last, body |-> s.body]]) @@ @], FALSE, Null)
      [] s.k = "include" ->
            LET st2 == RunIncludes(s.incs, 1, st, fuel) IN
            IF st2.exc # "" THEN SR(p, loc, st2, TRUE, Null) ELSE SR(p + 1, loc, st2, FALSE, Null)

\* run a statement list to completion: [ret, st]
Run(stmts, p, loc, st, fuel) ==
    IF st.exc # "" THEN [ret |-> Null, st |-> st]
    ELSE IF p > Len(stmts) THEN [ret |-> Null, st |-> st]
    ELSE IF fuel = 0 THEN [ret |-> Null, st |-> Fail(st, "fuel", "")]
    ELSE LET r == Step(stmts, p, loc, st, fuel) IN      \* fuel bounds the call DEPTH; the budget bounds the length
         IF r.fin THEN [ret |-> r.ret, st |-> r.st] ELSE Run(stmts, r.pc, r.loc, r.st, fuel)

(***************************** structured statements: the source-level meaning (C01, A18 - A21) *****************************)
(* Structured abstract syntax (field k):
     assign(name,e) expr(e) if(arms = <<[cond, body]>>, hasElse, els) while(cond, body)
     for(var, idx, e, body) [idx = "" : no index variable]  break  continue  return(hasE,e)
     function(name,args,last,body)
   Big-step meaning: ExecBlock returns [sig, loc, st, v] with sig in {"norm","brk","cont","ret"}.
   st.cnt counts executed structured statements / loop tests and is bounded by st.lim, which only
   serves to bound the evaluation (the statement budget is a jump-level notion, C09).          *)
XR(sig, loc, st, v) == [sig |-> sig, loc |-> loc, st |-> st, v |-> v]
Tick(st) == LET s2 == [st EXCEPT !.cnt = @ + 1] IN IF s2.lim > 0 /\ s2.cnt > s2.lim THEN Fail(s2, "limit", "") ELSE s2
AssignVar(name, v, loc, st) ==
    IF loc.has THEN [loc |-> [loc EXCEPT !.m = (name :> v) @@ @], st |-> st]
    ELSE [loc |-> loc, st |-> [st EXCEPT !.g = (name :> v) @@ @]]

ExecBlock(b, i, loc, st, fuel) ==
    IF st.exc # "" THEN XR("norm", loc, st, Null)
    ELSE IF i > Len(b) THEN XR("norm", loc, st, Null)
    ELSE LET r == ExecStmt(b[i], loc, st, fuel) IN
         IF r.sig # "norm" \/ r.st.exc # "" THEN r ELSE ExecBlock(b, i + 1, r.loc, r.st, fuel)

ExecIf(s, i, loc, st, fuel) ==
    IF i > Len(s.arms) THEN (IF s.hasElse THEN ExecBlock(s.els, 1, loc, st, fuel) ELSE XR("norm", loc, st, Null))
    ELSE LET c == Eval(s.arms[i].cond, loc, st, <<fuel, Bi>>) IN
         IF c.st.exc # "" THEN XR("norm", loc, c.st, Null)
         ELSE IF ~Concrete(c.v) THEN XR("norm", loc, Skip(c.st), Null)
         ELSE IF Truthy(c.v, c.st.heap) THEN ExecBlock(s.arms[i].body, 1, loc, c.st, fuel)
         ELSE ExecIf(s, i + 1, loc, c.st, fuel)

\* the condition is evaluated before EVERY iteration, including after `continue` (A19)
ExecWhile(s, loc, st0, fuel) ==
    LET st == Tick(st0) IN
    IF st.exc # "" THEN XR("norm", loc, st, Null)
    ELSE LET c == Eval(s.cond, loc, st, <<fuel, Bi>>) IN
         IF c.st.exc # "" THEN XR("norm", loc, c.st, Null)
         ELSE IF ~Concrete(c.v) THEN XR("norm", loc, Skip(c.st), Null)
         ELSE IF ~Truthy(c.v, c.st.heap) THEN XR("norm", loc, c.st, Null)
         ELSE LET r == ExecBlock(s.body, 1, loc, c.st, fuel) IN
              IF r.st.exc # "" THEN r
              ELSE IF r.sig = "brk" THEN XR("norm", r.loc, r.st, Null)
              ELSE IF r.sig = "ret" THEN r
              ELSE ExecWhile(s, r.loc, r.st, fuel)

\* for: the array is evaluated once, its length is fixed at entry, element i is read when iteration i starts (A20)
ExecFor(s, arr, n, i, loc, st0, fuel) ==
    IF i >= n THEN
        \* exhausted: the index variable ends as n - 1 or n (the language leaves it open)
        (IF s.idx # "" THEN LET a == AssignVar(s.idx, AnyFinite, loc, st0) IN XR("norm", a.loc, a.st, Null)
         ELSE XR("norm", loc, st0, Null))
    ELSE LET st == Tick(st0) IN
         IF st.exc # "" THEN XR("norm", loc, st, Null)
         ELSE LET cur == st.heap[arr.r].v
                  \* the length was fixed when the loop started, the elements are read live: an array that shrank in the
                  \* meantime yields null (a failed arrayGet, reported in debug mode)
                  er == IF i < Len(cur) THEN EvR(cur[i + 1], st) ELSE Failed("arrayGet", Null, st)
                  elem == er.v
                  a1 == IF s.idx # "" THEN AssignVar(s.idx, IntV(i), loc, er.st) ELSE [loc |-> loc, st |-> er.st]
                  a2 == AssignVar(s.var, elem, a1.loc, a1.st)
                  r == ExecBlock(s.body, 1, a2.loc, a2.st, fuel)
              IN IF r.st.exc # "" THEN r
                 ELSE IF r.sig = "brk" THEN XR("norm", r.loc, r.st, Null)
                 ELSE IF r.sig = "ret" THEN r
                 ELSE ExecFor(s, arr, n, i + 1, r.loc, r.st, fuel)

ExecStmt(s, loc, st0, fuel) ==
    LET st == Tick(st0) IN
    IF st.exc # "" THEN XR("norm", loc, st, Null)
    ELSE CASE s.k = "assign" ->
            LET r == Eval(s.e, loc, st, <<fuel, Bi>>) IN
            IF r.st.exc # "" THEN XR("norm", loc, r.st, Null)
            ELSE LET a == AssignVar(s.name, r.v, loc, r.st) IN XR("norm", a.loc, a.st, Null)
      [] s.k = "expr" -> XR("norm", loc, Eval(s.e, loc, st, <<fuel, Bi>>).st, Null)
      [] s.k = "if" -> ExecIf(s, 1, loc, st, fuel)
      [] s.k = "while" -> ExecWhile(s, loc, st, fuel)
      [] s.k = "for" ->
            LET r == Eval(s.e, loc, st, <<fuel, Bi>>) IN
            IF r.st.exc # "" THEN XR("norm", loc, r.st, Null)
            ELSE IF ~Concrete(r.v) THEN XR("norm", loc, Skip(r.st), Null)
            ELSE IF r.v.t # "array" \/ Len(r.st.heap[r.v.r].v) = 0 THEN XR("norm", loc, r.st, Null)
            ELSE ExecFor(s, r.v, Len(r.st.heap[r.v.r].v), 0, loc, r.st, fuel)
      [] s.k = "break" -> XR("brk", loc, st, Null)
      [] s.k = "continue" -> XR("cont", loc, st, Null)
      [] s.k = "return" ->
            LET r == IF s.hasE THEN Eval(s.e, loc, st, <<fuel, Bi>>) ELSE EvR(Null, st) IN XR("ret", loc, r.st, r.v)
      [] s.k = "function" ->
            XR("norm", loc, [st EXCEPT !.g = (s.name :> [t |-> "fn", f |-> "script",
                    def |-> [name |-> s.name, args |-> s.args, last |-> s.last, body |-> s.body, struct |-> TRUE]]) @@ @], Null)

(***************************** initial state *****************************)
NoInc == [vfs |-> <<>>, sys |-> <<>>, hasSys |-> FALSE, base |-> <<>>, hasBase |-> FALSE, hasFetch |-> FALSE]
InitState(g, heap, lim, dbg, lib, names) ==
    [g |-> g, heap |-> heap, log |-> <<>>, cnt |-> 0, lim |-> lim, exc |-> "", excArg |-> "",
     dbg |-> dbg, lib |-> lib, off |-> 0, names |-> names, inc |-> NoInc]
=============================================================================
