---------------------------- MODULE BareLower ----------------------------
(* Implementation-shaped layer: the lowering of structured statements to labels and jumps as
   parse_script does it (script-wide label counter, endif retargeting of the last conditional
   jump, continue label emitted only when used), and WellFormed - the static property of C07.

   Dev is the set of named deviations switched on ({} = the intended design):
     "WhileContinueSkipsTest"  `continue` inside `while` jumps to the loop label, i.e. past the
                               loop test (what parser.py:216-219 of the pinned tree does, F7)   *)
EXTENDS BareCore

CONSTANT Dev

Lbl(kind, n) == "__bareScript" \o kind \o ToString(n)
Not(e) == [k |-> "un", op |-> "!", e |-> e]
VarE(n) == [k |-> "var", v |-> n]
NumE(n) == [k |-> "num", v |-> IntV(n)]
CallL(name, args) == [k |-> "call", name |-> name, args |-> args, noargs |-> FALSE]
JAssign(n, e) == [k |-> "expr", name |-> n, e |-> e]
JExpr(e) == [k |-> "expr", name |-> "", e |-> e]
JJump(l) == [k |-> "jump", label |-> l, hasE |-> FALSE, e |-> VarE("null")]
JJumpIf(l, e) == [k |-> "jump", label |-> l, hasE |-> TRUE, e |-> e]
JLabel(l) == [k |-> "label", v |-> l]
NoLoop == [has |-> FALSE, done |-> "", cont |-> ""]

\* does a `continue` in this block bind to the enclosing loop (not to a nested one)?
RECURSIVE UsesContinue(_)
UsesContinue(b) ==
    \E i \in 1..Len(b) :
        \/ b[i].k = "continue"
        \/ b[i].k = "if" /\ ( (\E a \in 1..Len(b[i].arms) : UsesContinue(b[i].arms[a].body))
                               \/ (b[i].hasElse /\ UsesContinue(b[i].els)) )

RECURSIVE LowerBlock(_, _, _, _), LowerStmt(_, _, _), LowerArms(_, _, _, _, _, _)
LowerBlock(b, i, n, loop) ==
    IF i > Len(b) THEN [code |-> <<>>, n |-> n]
    ELSE LET a == LowerStmt(b[i], n, loop)
             r == LowerBlock(b, i + 1, a.n, loop)
         IN [code |-> a.code \o r.code, n |-> r.n]

\* arms i.. of an if statement; prev = label the previous conditional jump targets
LowerArms(s, i, n, loop, done, prev) ==
    IF i > Len(s.arms) THEN
        IF s.hasElse THEN
            LET b == LowerBlock(s.els, 1, n, loop) IN
            [code |-> <<JJump(done), JLabel(prev)>> \o b.code \o <<JLabel(done)>>, n |-> b.n]
        ELSE [code |-> <<JLabel(done)>>, n |-> n]
    ELSE LET this == Lbl("If", n)
             \* endif retargeting: without an else the LAST conditional jump goes to `done`
             target == IF i = Len(s.arms) /\ ~s.hasElse THEN done ELSE this
             b == LowerBlock(s.arms[i].body, 1, n + 1, loop)
             rest == LowerArms(s, i + 1, b.n, loop, done, this)
         IN [code |-> <<JJump(done), JLabel(prev), JJumpIf(target, Not(s.arms[i].cond))>> \o b.code \o rest.code,
             n |-> rest.n]

LowerStmt(s, n, loop) ==
    CASE s.k = "assign" -> [code |-> <<JAssign(s.name, s.e)>>, n |-> n]
      [] s.k = "expr" -> [code |-> <<JExpr(s.e)>>, n |-> n]
      [] s.k = "return" -> [code |-> <<[k |-> "return", hasE |-> s.hasE, e |-> s.e]>>, n |-> n]
      [] s.k = "break" -> [code |-> <<JJump(loop.done)>>, n |-> n]
      [] s.k = "continue" -> [code |-> <<JJump(loop.cont)>>, n |-> n]
      [] s.k = "function" ->
            LET b == LowerBlock(s.body, 1, n, NoLoop) IN
            [code |-> <<[k |-> "function", name |-> s.name, args |-> s.args, last |-> s.last, body |-> b.code]>>, n |-> b.n]
      [] s.k = "if" ->
            LET first == Lbl("If", n)
                done == Lbl("Done", n)
                target == IF Len(s.arms) = 1 /\ ~s.hasElse THEN done ELSE first
                b == LowerBlock(s.arms[1].body, 1, n + 1, loop)
                rest == LowerArms(s, 2, b.n, loop, done, first)
            IN [code |-> <<JJumpIf(target, Not(s.arms[1].cond))>> \o b.code \o rest.code, n |-> rest.n]
      [] s.k = "while" ->
            LET loopL == Lbl("Loop", n)
                doneL == Lbl("Done", n)
                testL == Lbl("Continue", n)
                skips == "WhileContinueSkipsTest" \in Dev
                usesC == UsesContinue(s.body)
                b == LowerBlock(s.body, 1, n + 1, [has |-> TRUE, done |-> doneL, cont |-> IF skips THEN loopL ELSE testL])
            IN [code |-> <<JJumpIf(doneL, Not(s.cond)), JLabel(loopL)>> \o b.code
                         \o (IF ~skips /\ usesC THEN <<JLabel(testL)>> ELSE <<>>)
                         \o <<JJumpIf(loopL, s.cond), JLabel(doneL)>>,
                n |-> b.n]
      [] s.k = "for" ->
            LET loopL == Lbl("Loop", n)
                contL == Lbl("Continue", n)
                doneL == Lbl("Done", n)
                ixV == IF s.idx # "" THEN s.idx ELSE Lbl("Index", n)
                valsV == Lbl("Values", n)
                lenV == Lbl("Length", n)
                b == LowerBlock(s.body, 1, n + 1, [has |-> TRUE, done |-> doneL, cont |-> contL])
            IN [code |-> << JAssign(valsV, s.e),
                            JAssign(lenV, CallL("arrayLength", <<VarE(valsV)>>)),
                            JJumpIf(doneL, Not(VarE(lenV))),
                            JAssign(ixV, NumE(0)),
                            JLabel(loopL),
                            JAssign(s.var, CallL("arrayGet", <<VarE(valsV), VarE(ixV)>>)) >>
                         \o b.code
                         \o (IF UsesContinue(s.body) THEN <<JLabel(contL)>> ELSE <<>>)
                         \o << JAssign(ixV, [k |-> "bin", op |-> "+", l |-> VarE(ixV), r |-> NumE(1)]),
                               JJumpIf(loopL, [k |-> "bin", op |-> "<", l |-> VarE(ixV), r |-> VarE(lenV)]),
                               JLabel(doneL) >>,
                n |-> b.n]

Lower(prog) == LowerBlock(prog, 1, 0, NoLoop).code

(***************************** WellFormed (C07) *****************************)
\* labels and jump targets of ONE scope (function bodies are scopes of their own)
LabelsOf(code) == [i \in { j \in 1..Len(code) : code[j].k = "label" } |-> code[i].v]
DefCount(code, l) == Cardinality({ i \in 1..Len(code) : code[i].k = "label" /\ code[i].v = l })
Targets(code) == { code[i].label : i \in { j \in 1..Len(code) : code[j].k = "jump" } }
Defined(code) == { code[i].v : i \in { j \in 1..Len(code) : code[j].k = "label" } }
\* reserved(l) is supplied by the caller: TLA+ strings cannot be inspected, so models carry the flag
ScopeOK(code, reserved) ==
    /\ \A l \in Targets(code) : l \in reserved => DefCount(code, l) = 1
    /\ \A l \in Defined(code) : l \in reserved => (l \in Targets(code) /\ DefCount(code, l) = 1)
RECURSIVE WellFormed(_, _)
WellFormed(code, reserved) ==
    /\ ScopeOK(code, reserved)
    /\ \A i \in 1..Len(code) : code[i].k = "function" => WellFormed(code[i].body, reserved)
\* every label the lowering itself can produce up to counter n
RECURSIVE AllLabels(_)
AllLabels(code) ==
    Defined(code) \cup Targets(code) \cup UNION { AllLabels(code[i].body) : i \in { j \in 1..Len(code) : code[j].k = "function" } }
=============================================================================
