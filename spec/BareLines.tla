---------------------------- MODULE BareLines ----------------------------
(* C06 / C10: the line level of parse_script.
   (1) LogicalLines(text): characters -> physical lines (LF / CRLF) -> comment and blank lines skipped ->
       continuation buffer (a trailing backslash, optionally followed by blanks, continues the line; parts are
       joined with single spaces, the first part right-stripped, later parts stripped) -> logical lines with the
       index of their first physical line.  pending = a continuation was still open at the end of input.
   (2) The block structure of a sequence of logical-line KINDS, in two formulations:
       Machine   the parser's stack of open constructs with a per-function floor (implementation-shaped;
                 Dev switches the pinned tree's deviations on)
       Derivable a recursive-descent recogniser of the block grammar (reference)
   (3) Elide / caret relation of the formatted error message.
   Dev: "DanglingContinuationDropped" (F11), "OpenFunctionAccepted" (F12).                              *)
EXTENDS Integers, Sequences, FiniteSets, TLC, SequencesExt
CONSTANT Dev

IsBlank(c) == c \in {32, 9, 11, 12, 13}
\* split at LF; a CR immediately before the LF belongs to the line end  (positions first: texts can be long)
SplitPhys(t, unused) ==
    LET seq == SetToSortSeq({ i \in 1..Len(t) : t[i] = 10 }, <)
        k == Len(seq)
    IN [j \in 1..(k + 1) |->
          LET a == IF j = 1 THEN 1 ELSE seq[j - 1] + 1
              b == IF j = k + 1 THEN Len(t) ELSE seq[j] - 1
              l == SubSeq(t, a, b)
          IN IF j <= k /\ l # <<>> /\ l[Len(l)] = 13 THEN SubSeq(l, 1, Len(l) - 1) ELSE l]
RECURSIVE LStripL(_), RStripL(_)
LStripL(s) == IF s # <<>> /\ IsBlank(Head(s)) THEN LStripL(Tail(s)) ELSE s
RStripL(s) == IF s # <<>> /\ IsBlank(s[Len(s)]) THEN RStripL(SubSeq(s, 1, Len(s) - 1)) ELSE s
IsCommentLine(s) == LET x == LStripL(s) IN x = <<>> \/ Head(x) = 35
HasCont(s) == LET x == RStripL(s) IN x # <<>> /\ x[Len(x)] = 92
DropCont(s) == LET x == RStripL(s) IN SubSeq(x, 1, Len(x) - 1)
RECURSIVE JoinParts(_)
JoinParts(ps) == IF Len(ps) = 1 THEN ps[1] ELSE ps[1] \o <<32>> \o JoinParts(Tail(ps))
\* fold over physical lines: state = [out, buf, first]
RECURSIVE LogicalFrom(_, _, _, _, _)
LogicalFrom(phys, i, out, buf, first) ==
    IF i > Len(phys) THEN [lines |-> out, pending |-> buf # <<>>, pendingFirst |-> first, pendingText |-> IF buf = <<>> THEN <<>> ELSE JoinParts(buf)]
    ELSE LET p == phys[i] IN
         IF IsCommentLine(p) THEN LogicalFrom(phys, i + 1, out, buf, first)
         ELSE LET cont == buf # <<>>
                  f == IF cont THEN first ELSE i IN
              IF HasCont(p) THEN
                  LogicalFrom(phys, i + 1, out, Append(buf, IF cont THEN RStripL(LStripL(DropCont(p))) ELSE RStripL(DropCont(p))), f)
              ELSE IF cont THEN
                  LogicalFrom(phys, i + 1, Append(out, [text |-> JoinParts(Append(buf, RStripL(LStripL(p)))), first |-> f]), <<>>, 0)
              ELSE LogicalFrom(phys, i + 1, Append(out, [text |-> p, first |-> i]), <<>>, 0)
LogicalLines(text) == LogicalFrom(SplitPhys(text, <<>>), 1, <<>>, <<>>, 0)
\* the same for input given as a sequence of chunks (each chunk is split on its own)
RECURSIVE PhysOfChunks(_)
PhysOfChunks(cs) == IF cs = <<>> THEN <<>> ELSE SplitPhys(Head(cs), <<>>) \o PhysOfChunks(Tail(cs))
LogicalOfChunks(cs) == LogicalFrom(PhysOfChunks(cs), 1, <<>>, <<>>, 0)
\* layout-insensitive view of a logical line: leading / trailing blanks do not matter
Canon(l) == RStripL(LStripL(l.text))
CanonLines(r) == [i \in 1..Len(r.lines) |-> Canon(r.lines[i])]

(***************************** block structure over line kinds *****************************)
Kinds == {"stmt", "function", "endfunction", "if", "elif", "else", "endif", "while", "endwhile", "for", "endfor", "break", "continue", "pending"}
\* "pending": the input ends inside a continued line (only possible as the last element)

(* implementation-shaped: stack of open constructs; returns "ok" or "error" *)
RECURSIVE Machine(_, _, _, _, _)
Machine(ks, i, stack, inFn, floor) ==
    IF i > Len(ks) THEN
        IF stack # <<>> THEN "error"
        ELSE IF inFn /\ "OpenFunctionAccepted" \notin Dev THEN "error"
        ELSE "ok"
    ELSE LET k == ks[i]
             top == IF Len(stack) > floor THEN stack[Len(stack)] ELSE [k |-> "none", els |-> FALSE]
             pop == SubSeq(stack, 1, Len(stack) - 1)
             loopAbove == \E j \in (floor + 1)..Len(stack) : stack[j].k \in {"while", "for"}
         IN CASE k = "stmt" -> Machine(ks, i + 1, stack, inFn, floor)
              [] k = "pending" -> IF "DanglingContinuationDropped" \in Dev THEN Machine(ks, i + 1, stack, inFn, floor) ELSE "error"
              [] k = "function" -> IF inFn THEN "error" ELSE Machine(ks, i + 1, stack, TRUE, Len(stack))
              [] k = "endfunction" -> IF ~inFn \/ Len(stack) > floor THEN "error" ELSE Machine(ks, i + 1, stack, FALSE, 0)
              [] k = "if" -> Machine(ks, i + 1, Append(stack, [k |-> "if", els |-> FALSE]), inFn, floor)
              [] k = "elif" -> IF top.k # "if" \/ top.els THEN "error" ELSE Machine(ks, i + 1, stack, inFn, floor)
              [] k = "else" -> IF top.k # "if" \/ top.els THEN "error" ELSE Machine(ks, i + 1, Append(pop, [k |-> "if", els |-> TRUE]), inFn, floor)
              [] k = "endif" -> IF top.k # "if" THEN "error" ELSE Machine(ks, i + 1, pop, inFn, floor)
              [] k \in {"while", "for"} -> Machine(ks, i + 1, Append(stack, [k |-> k, els |-> FALSE]), inFn, floor)
              [] k = "endwhile" -> IF top.k # "while" THEN "error" ELSE Machine(ks, i + 1, pop, inFn, floor)
              [] k = "endfor" -> IF top.k # "for" THEN "error" ELSE Machine(ks, i + 1, pop, inFn, floor)
              [] k \in {"break", "continue"} -> IF ~loopAbove THEN "error" ELSE Machine(ks, i + 1, stack, inFn, floor)
MachineOutcome(ks) == Machine(ks, 1, <<>>, FALSE, 0)

(* reference: recursive descent.  PBlock(ks, i, inLoop, inFn) returns the position after the longest block, or 0
   Block   ::= ( stmt | break | continue | If | While | For | Function )*
   If      ::= if Block ( elif Block )* ( else Block )? endif
   While   ::= while Block endwhile        For ::= for Block endfor
   Function::= function Block endfunction   (top level only; break / continue only inside a loop of the same function) *)
RECURSIVE PBlock(_, _, _, _), PIfTail(_, _, _, _)
At(ks, i) == IF i <= Len(ks) THEN ks[i] ELSE "eof"
PBlock(ks, i, inLoop, inFn) ==
    LET k == At(ks, i) IN
    CASE k = "stmt" -> PBlock(ks, i + 1, inLoop, inFn)
      [] k \in {"break", "continue"} -> IF inLoop THEN PBlock(ks, i + 1, inLoop, inFn) ELSE 0
      [] k = "if" -> LET j == PBlock(ks, i + 1, inLoop, inFn) IN
                     IF j = 0 THEN 0 ELSE LET e == PIfTail(ks, j, inLoop, inFn) IN IF e = 0 THEN 0 ELSE PBlock(ks, e, inLoop, inFn)
      [] k \in {"while", "for"} ->
            LET j == PBlock(ks, i + 1, TRUE, inFn) IN
            IF j = 0 \/ At(ks, j) # (IF k = "while" THEN "endwhile" ELSE "endfor") THEN 0 ELSE PBlock(ks, j + 1, inLoop, inFn)
      [] k = "function" ->
            IF inFn THEN 0
            ELSE LET j == PBlock(ks, i + 1, FALSE, TRUE) IN
                 IF j = 0 \/ At(ks, j) # "endfunction" THEN 0 ELSE PBlock(ks, j + 1, inLoop, inFn)
      [] OTHER -> i
PIfTail(ks, j, inLoop, inFn) ==      \* after a branch body: elif ... | else ... endif | endif ; returns position after endif
    LET k == At(ks, j) IN
    CASE k = "endif" -> j + 1
      [] k = "elif" -> LET b == PBlock(ks, j + 1, inLoop, inFn) IN IF b = 0 THEN 0 ELSE PIfTail(ks, b, inLoop, inFn)
      [] k = "else" -> LET b == PBlock(ks, j + 1, inLoop, inFn) IN IF b = 0 \/ At(ks, b) # "endif" THEN 0 ELSE b + 1
      [] OTHER -> 0
Derivable(ks) == PBlock(ks, 1, FALSE, FALSE) = Len(ks) + 1
ReferenceOutcome(ks) == IF Derivable(ks) THEN "ok" ELSE "error"

(***************************** the formatted message: elision and caret *****************************)
\* shown = the line as printed (possibly "... " + window + " ..."), caret = 1-based position of "^" in its line
IsSubAt(line, w, o) == o >= 0 /\ o + Len(w) <= Len(line) /\ \A k \in 1..Len(w) : line[o + k] = w[k]
Dots == <<46, 46, 46>>
CaretOK(line, column, shown, caret) ==
    IF Len(line) <= 120 THEN shown = line /\ caret = column
    ELSE LET hasPre == Len(shown) >= 4 /\ SubSeq(shown, 1, 4) = Dots \o <<32>>
             hasSuf == Len(shown) >= 4 /\ SubSeq(shown, Len(shown) - 3, Len(shown)) = <<32>> \o Dots
             w == SubSeq(shown, IF hasPre THEN 5 ELSE 1, IF hasSuf THEN Len(shown) - 4 ELSE Len(shown))
             plen == IF hasPre THEN 4 ELSE 0
         IN \E o \in 0..(Len(line) - Len(w)) :
               /\ IsSubAt(line, w, o)
               /\ (o > 0 => hasPre) /\ (o + Len(w) < Len(line) => hasSuf)       \* whatever is cut off is marked
               /\ caret - plen + o = column            \* the caret sits under the character at `column`
               /\ caret >= 1 /\ caret <= Len(shown) + 1
=============================================================================
