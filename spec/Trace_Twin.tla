---------------------------- MODULE Trace_Twin ----------------------------
(* C12: BareScript has one number type.  The abstraction maps a host int and a float holding the
   same integral number to ONE abstract number, so "the result, the failure behaviour and the
   effect on the arguments are the same" is simply: the two recorded calls of a twin are equal
   under the abstraction (axiom Functional: equal abstract arguments and heap => equal abstract
   result, equal outcome, equal heap effect).  A case is a twin: the same library call executed
   with every integral number spelt as int, as float, and mixed (each occurrence independently; recursively
   inside containers).      *)
EXTENDS Integers, Sequences, TLC, Json, IOUtils, TreeEq
Cases == JsonDeserialize(IOEnv.CASES)
VARIABLES tid, verdict
vars == <<tid, verdict>>
C == Cases[tid]
Law ==
    IF ~TreeSeqEq(C.argsBeforeI, C.argsBeforeF) THEN <<"REJECT", "harness: twins differ before the call", "">>
    ELSE IF C.statusI # C.statusF THEN <<"REJECT", "outcome-differs", <<C.fn, C.statusI, C.statusF>>>>
    ELSE IF ~TreeEq(C.resI, C.resF) THEN <<"REJECT", "result-differs", <<C.fn, C.argsBeforeI, "int", C.resI, "float", C.resF>>>>
    ELSE IF ~TreeSeqEq(C.argsAfterI, C.argsAfterF) THEN <<"REJECT", "effect-on-arguments-differs", <<C.fn, C.argsAfterI, C.argsAfterF>>>>
    \* third spelling: every integral number independently int or float (mixed within one call)
    ELSE IF C.statusM # C.statusF THEN <<"REJECT", "outcome-differs-for-mixed-spellings", <<C.fn, C.statusM, C.statusF>>>>
    ELSE IF ~TreeEq(C.resM, C.resF) THEN <<"REJECT", "result-differs-for-mixed-spellings", <<C.fn, C.argsBeforeI, "mixed", C.resM, "float", C.resF>>>>
    ELSE IF ~TreeSeqEq(C.argsAfterM, C.argsAfterF) THEN <<"REJECT", "effect-on-arguments-differs-for-mixed-spellings", <<C.fn, C.argsAfterM, C.argsAfterF>>>>
    ELSE <<"ACCEPT">>
Init == tid \in 1..Len(Cases) /\ verdict = "open"
Next == /\ verdict = "open" /\ verdict' = Law[1] /\ PrintT(<<"V", tid>> \o Law) /\ UNCHANGED tid
Spec == Init /\ [][Next]_vars
=============================================================================
