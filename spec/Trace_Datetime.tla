---------------------------- MODULE Trace_Datetime ----------------------------
(* C16 on the real code, one batch of cases per process time zone.  Z is the zone table of the batch
   (whole-minute offsets, transitions in UTC).
   kind "new"     datetimeNew(y, mo, d, h, mi, s, ms) and the seven getters: Normalize by pure calendar arithmetic
   kind "addsub"  (d + n) - d = n for an integral number n of milliseconds, and d + n itself
   kind "iso"     datetimeISOFormat(d) is the ISO text of d at an offset valid for d in Z, and
                  datetimeISOParse of that text gives back d (for every d that exists in Z)
   kind "isotext" datetimeISOParse(text): the instant the text denotes, shifted to local time, or null
                  when the text is not a valid ISO date / datetime                                   *)
EXTENDS BareText, Json, IOUtils
Cases == JsonDeserialize(IOEnv.CASES)
VARIABLES tid, verdict
vars == <<tid, verdict>>
C == Cases[tid]
Z == C.zone

IsDt(v, d, ms) == v.t = "dt" /\ v.d = d /\ v.ms = ms
NumIs(v, n) == v.t = "num" /\ v.f = "q" /\ v.d = 1 /\ v.n = n
NewLaw ==
    LET a == C.args
        valid == a[1] >= 100 /\ a[3] >= -10000 /\ a[3] <= 10000
        n == Normalize(a[1], a[2], a[3], a[4], a[5], a[6], a[7])
    IN IF ~valid \/ ~n.ok THEN (IF C.res.t = "null" THEN <<"ACCEPT">> ELSE <<"REJECT", "out-of-range-components-must-give-null", <<a, C.res>>>>)
       ELSE IF ~IsDt(C.res, n.d, n.ms) THEN <<"REJECT", "datetimeNew", <<a, "specified", Dt(n.d, n.ms), CivilFromDays(n.d), "recorded", C.res>>>>
       ELSE LET c == CivilFromDays(n.d)
                want == <<c.y, c.m, c.d, n.ms \div 3600000, (n.ms \div 60000) % 60, (n.ms \div 1000) % 60, n.ms % 1000>>
            IN IF \E i \in 1..7 : ~NumIs(C.getters[i], want[i]) THEN <<"REJECT", "getters", <<want, C.getters>>>>
               ELSE <<"ACCEPT">>

AddSubLaw ==
    LET r == AddMs(C.d.d, C.d.ms, C.nd, C.nms) IN
    IF r.d < MinDay \/ r.d > MaxDay THEN (IF C.sum.t = "null" THEN <<"ACCEPT">> ELSE <<"REJECT", "sum-out-of-range-must-give-null", C.sum>>)
    ELSE IF ~IsDt(C.sum, r.d, r.ms) THEN <<"REJECT", "datetime-plus-milliseconds", <<C.d, C.nd, C.nms, Dt(r.d, r.ms), C.sum>>>>
    ELSE IF ~Matches(C.n, C.diff) THEN <<"REJECT", "sum-minus-datetime-is-not-n", <<C.n, C.diff>>>>
    ELSE <<"ACCEPT">>

IsoLaw ==
    LET offs == ValidOffsets(Z, C.d.d, C.d.ms) IN
    IF offs = {} THEN <<"ACCEPT">>                         \* the local time does not exist in this zone (gap)
    ELSE IF ~\E o \in offs : C.text = DtText(C.d.d, C.d.ms, o) THEN <<"REJECT", "iso-format", <<C.d, offs, C.text>>>>
    ELSE IF ~IsDt(C.back, C.d.d, C.d.ms) THEN <<"REJECT", "iso-parse-of-iso-format", <<C.d, C.back>>>>
    ELSE <<"ACCEPT">>

\* one trailing line feed is tolerated or rejected (set): regular-expression "$" semantics
Chomped == IF C.text # <<>> /\ C.text[Len(C.text)] = 10 THEN SubSeq(C.text, 1, Len(C.text) - 1) ELSE C.text
IsoTextLaw ==
    LET p0 == IsoOf(C.text)
        p == IF ~p0.ok /\ C.back.t # "null" THEN IsoOf(Chomped) ELSE p0 IN
    IF C.back.t = "alien" THEN <<"REJECT", "datetimeISOParse-failed-with-a-host-error", C.back>>
    ELSE IF ~p.ok THEN (IF C.back.t = "null" THEN <<"ACCEPT">> ELSE <<"REJECT", "invalid-ISO-text-must-parse-to-null", <<C.text, C.back>>>>)
    ELSE IF p.isDate THEN (IF IsDt(C.back, p.d, 0) THEN <<"ACCEPT">> ELSE <<"REJECT", "iso-date", <<C.text, C.back>>>>)
    ELSE LET u == Shift(p.d, p.ms, -p.off)                           \* the UTC instant
             l == Shift(u.d, u.ms, OffsetAtUTC(Z, 1, u.d, u.ms))     \* local time in the process zone
         IN IF l.d < MinDay + 2 \/ l.d > MaxDay - 2 THEN <<"ACCEPT">>
            ELSE IF IsDt(C.back, l.d, l.ms) THEN <<"ACCEPT">> ELSE <<"REJECT", "iso-datetime", <<C.text, Dt(l.d, l.ms), C.back>>>>

Law == CASE C.kind = "new" -> NewLaw [] C.kind = "addsub" -> AddSubLaw [] C.kind = "iso" -> IsoLaw [] C.kind = "isotext" -> IsoTextLaw
Init == tid \in 1..Len(Cases) /\ verdict = "open"
Next == /\ verdict = "open" /\ verdict' = Law[1] /\ PrintT(<<"V", tid>> \o Law) /\ UNCHANGED tid
Spec == Init /\ [][Next]_vars
=============================================================================
