---------------------------- MODULE Trace_Datetime ----------------------------
(* C16 on the real code, one batch of cases per process time zone.  Z is the zone table of the batch
   (whole-minute offsets, transitions in UTC).
   kind "new"     datetimeNew(y, mo, d, h, mi, s, ms) and the seven getters: Normalize by pure calendar arithmetic
   kind "addsub"  (d + n) - d = n for an integral number n of milliseconds, and d + n itself
   kind "iso"     datetimeISOFormat(d) is the ISO text of d at an offset valid for d in Z, and
                  datetimeISOParse of that text gives back d (for every d that exists in Z)
   kind "isotext" datetimeISOParse(text): the instant the text denotes, shifted to local time, or null
                  when the text is not a valid ISO date / datetime                                   *)
EXTENDS BareText, Json, IOUtils
Cases == JsonDeserialize(IOEnv.CASES)
VARIABLES tid, verdict
vars == <<tid, verdict>>
C == Cases[tid]
Z == C.zone

IsDt(v, d, ms) == v.t = "dt" /\ v.d = d /\ v.ms = ms
NumIs(v, n) == v.t = "num" /\ v.f = "q" /\ v.d = 1 /\ v.n = n
NewLaw ==
    LET a == C.args
        valid == a[1] >= 100 /\ a[3] >= -10000 /\ a[3] <= 10000
        n == Normalize(a[1], a[2], a[3], a[4], a[5], a[6], a[7])
    IN IF ~valid \/ ~n.ok THEN (IF C.res.t = "null" THEN <<"ACCEPT">> ELSE <<"REJECT", "out-of-range-components-must-give-null", <<a, C.res>>>>)
       ELSE IF ~IsDt(C.res, n.d, n.ms) THEN <<"REJECT", "datetimeNew", <<a, "specified", Dt(n.d, n.ms), CivilFromDays(n.d), "recorded", C.res>>>>
       ELSE LET c == CivilFromDays(n.d)
                want == <<c.y, c.m, c.d, n.ms \div 3600000, (n.ms \div 60000) % 60, (n.ms \div 1000) % 60, n.ms % 1000>>
            IN IF \E i \in 1..7 : ~NumIs(C.getters[i], want[i]) THEN <<"REJECT", "getters", <<want, C.getters>>>>
               ELSE <<"ACCEPT">>

AddSubLaw ==
    LET r == AddMs(C.d.d, C.d.ms, C.nd, C.nms) IN
    IF r.d < MinDay \/ r.d > MaxDay THEN (IF C.sum.t = "null" THEN <<"ACCEPT">> ELSE <<"REJECT", "sum-out-of-range-must-give-null", C.sum>>)
    ELSE IF ~IsDt(C.sum, r.d, r.ms) THEN <<"REJECT", "datetime-plus-milliseconds", <<C.d, C.nd, C.nms, Dt(r.d, r.ms), C.sum>>>>
    ELSE IF ~Matches(C.n, C.diff) THEN <<"REJECT", "sum-minus-datetime-is-not-n", <<C.n, C.diff>>>>
    ELSE <<"ACCEPT">>

IsoLaw ==
    LET offs == ValidOffsets(Z, C.d.d, C.d.ms) IN
    IF offs = {} THEN <<"ACCEPT">>                         \* the local time does not exist in this zone (gap)
    ELSE IF ~\E o \in offs : C.text = DtText(C.d.d, C.d.ms, o) THEN <<"REJECT", "iso-format", <<C.d, offs, C.text>>>>
    ELSE IF ~IsDt(C.back, C.d.d, C.d.ms) THEN <<"REJECT", "iso-parse-of-iso-format", <<C.d, C.back>>>>
    ELSE <<"ACCEPT">>

(* ISO text -> [ok, d, ms, hasOff, off] *)
Dg(t, i) == t[i] - 48
IsDig(t, i) == i <= Len(t) /\ t[i] >= 48 /\ t[i] <= 57
Num2(t, i) == Dg(t, i) * 10 + Dg(t, i + 1)
Num4(t, i) == Num2(t, i) * 100 + Num2(t, i + 2)
DateOK(t) == Len(t) >= 10 /\ (\A i \in {1, 2, 3, 4, 6, 7, 9, 10} : IsDig(t, i)) /\ t[5] = 45 /\ t[8] = 45
RECURSIVE FracEnd(_, _)
FracEnd(t, i) == IF IsDig(t, i) THEN FracEnd(t, i + 1) ELSE i
Frac3(t, i, j) ==      \* first three fraction digits as milliseconds (truncation)
    (IF i < j THEN Dg(t, i) * 100 ELSE 0) + (IF i + 1 < j THEN Dg(t, i + 1) * 10 ELSE 0) + (IF i + 2 < j THEN Dg(t, i + 2) ELSE 0)
IsoOf(t) ==
    LET bad == [ok |-> FALSE, d |-> 0, ms |-> 0, isDate |-> FALSE, off |-> 0] IN
    IF ~DateOK(t) THEN bad
    ELSE LET y == Num4(t, 1)  mo == Num2(t, 6)  dd == Num2(t, 9) IN
         IF y < 1 \/ mo < 1 \/ mo > 12 \/ dd < 1 \/ dd > DaysInMonth(y, mo) THEN bad
         ELSE IF Len(t) = 10 THEN [ok |-> TRUE, d |-> DaysFromCivil(y, mo, dd), ms |-> 0, isDate |-> TRUE, off |-> 0]
         ELSE IF Len(t) < 20 \/ t[11] # 84 \/ ~(\A i \in {12, 13, 15, 16, 18, 19} : IsDig(t, i)) \/ t[14] # 58 \/ t[17] # 58 THEN bad
         ELSE LET h == Num2(t, 12)  mi == Num2(t, 15)  s == Num2(t, 18)
                  hasFrac == t[20] = 46
                  fe == IF hasFrac THEN FracEnd(t, 21) ELSE 20
                  nfrac == fe - 21
              IN IF h > 23 \/ mi > 59 \/ s > 59 \/ (hasFrac /\ (nfrac < 1 \/ nfrac > 6)) \/ fe > Len(t) THEN bad
                 ELSE LET msod == ((h * 60 + mi) * 60 + s) * 1000 + (IF hasFrac THEN Frac3(t, 21, fe) ELSE 0) IN
                      IF t[fe] = 90 /\ Len(t) = fe THEN [ok |-> TRUE, d |-> DaysFromCivil(y, mo, dd), ms |-> msod, isDate |-> FALSE, off |-> 0]
                      ELSE IF t[fe] \in {43, 45} /\ Len(t) = fe + 5 /\ IsDig(t, fe + 1) /\ IsDig(t, fe + 2) /\ t[fe + 3] = 58 /\ IsDig(t, fe + 4) /\ IsDig(t, fe + 5)
                                /\ Num2(t, fe + 1) <= 23 /\ Num2(t, fe + 4) <= 59
                           THEN [ok |-> TRUE, d |-> DaysFromCivil(y, mo, dd), ms |-> msod, isDate |-> FALSE,
                                 off |-> (IF t[fe] = 45 THEN -1 ELSE 1) * (Num2(t, fe + 1) * 60 + Num2(t, fe + 4))]
                      ELSE bad
\* one trailing line feed is tolerated or rejected (set): regular-expression "$" semantics
Chomped == IF C.text # <<>> /\ C.text[Len(C.text)] = 10 THEN SubSeq(C.text, 1, Len(C.text) - 1) ELSE C.text
IsoTextLaw ==
    LET p0 == IsoOf(C.text)
        p == IF ~p0.ok /\ C.back.t # "null" THEN IsoOf(Chomped) ELSE p0 IN
    IF C.back.t = "alien" THEN <<"REJECT", "datetimeISOParse-failed-with-a-host-error", C.back>>
    ELSE IF ~p.ok THEN (IF C.back.t = "null" THEN <<"ACCEPT">> ELSE <<"REJECT", "invalid-ISO-text-must-parse-to-null", <<C.text, C.back>>>>)
    ELSE IF p.isDate THEN (IF IsDt(C.back, p.d, 0) THEN <<"ACCEPT">> ELSE <<"REJECT", "iso-date", <<C.text, C.back>>>>)
    ELSE LET u == Shift(p.d, p.ms, -p.off)                           \* the UTC instant
             l == Shift(u.d, u.ms, OffsetAtUTC(Z, 1, u.d, u.ms))     \* local time in the process zone
         IN IF l.d < MinDay + 2 \/ l.d > MaxDay - 2 THEN <<"ACCEPT">>
            ELSE IF IsDt(C.back, l.d, l.ms) THEN <<"ACCEPT">> ELSE <<"REJECT", "iso-datetime", <<C.text, Dt(l.d, l.ms), C.back>>>>

Law == CASE C.kind = "new" -> NewLaw [] C.kind = "addsub" -> AddSubLaw [] C.kind = "iso" -> IsoLaw [] C.kind = "isotext" -> IsoTextLaw
Init == tid \in 1..Len(Cases) /\ verdict = "open"
Next == /\ verdict = "open" /\ verdict' = Law[1] /\ PrintT(<<"V", tid>> \o Law) /\ UNCHANGED tid
Spec == Init /\ [][Next]_vars
=============================================================================
