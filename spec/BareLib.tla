---------------------------- MODULE BareLib ----------------------------
(* The library as the specification states it: frozen signature table, argument validation
   (A12, A27) and the pure (callback-free) functions as operators on the heap.
   LibPure(name, args, heap, off) returns [m, v, heap]:
     m = TRUE  the function is modelled; v is the result (the documented failure value when
               validation fails - then heap is returned UNCHANGED, the frame condition of C15)
     m = FALSE the function has no functional model here.                                   *)
EXTENDS BareNumText

(***************************** signature table *****************************)
NoDef == [t |-> "nodef"]
Arg(ty) == [ty |-> ty, nul |-> FALSE, def |-> NoDef, int |-> FALSE, gte0 |-> FALSE, rest |-> FALSE,
            lo |-> NoDef, hi |-> NoDef]
ArgN(ty) == [Arg(ty) EXCEPT !.nul = TRUE]
ArgIx == [Arg("number") EXCEPT !.int = TRUE, !.gte0 = TRUE]
ArgIxDef(n) == [ArgIx EXCEPT !.def = IntV(n)]
ArgIxNul == [ArgIx EXCEPT !.nul = TRUE]
ArgRest == [Arg("any") EXCEPT !.rest = TRUE]
ArgAnyDef(v) == [Arg("any") EXCEPT !.def = v]

Sig(args, fail) == [args |-> args, fail |-> fail]
Signatures ==
    [ arrayCopy        |-> Sig(<<Arg("array")>>, Null),
      arrayDelete      |-> Sig(<<Arg("array"), ArgIx>>, Null),
      arrayExtend      |-> Sig(<<Arg("array"), Arg("array")>>, Null),
      arrayGet         |-> Sig(<<Arg("array"), ArgIx>>, Null),
      arrayIndexOf     |-> Sig(<<Arg("array"), Arg("any"), ArgIxDef(0)>>, IntV(-1)),
      arrayJoin        |-> Sig(<<Arg("array"), Arg("string")>>, Null),
      arrayLastIndexOf |-> Sig(<<Arg("array"), Arg("any"), ArgIxNul>>, IntV(-1)),
      arrayLength      |-> Sig(<<Arg("array")>>, IntV(0)),
      arrayNewSize     |-> Sig(<<ArgIxDef(0), ArgAnyDef(IntV(0))>>, Null),
      arrayPop         |-> Sig(<<Arg("array")>>, Null),
      arrayPush        |-> Sig(<<Arg("array"), ArgRest>>, Null),
      arraySet         |-> Sig(<<Arg("array"), ArgIx, Arg("any")>>, Null),
      arrayShift       |-> Sig(<<Arg("array")>>, Null),
      arraySlice       |-> Sig(<<Arg("array"), ArgIxDef(0), ArgIxNul>>, Null),
      arraySort        |-> Sig(<<Arg("array"), ArgN("function")>>, Null),
      objectAssign     |-> Sig(<<Arg("object"), Arg("object")>>, Null),
      objectCopy       |-> Sig(<<Arg("object")>>, Null),
      objectDelete     |-> Sig(<<Arg("object"), Arg("string")>>, Null),
      objectGet        |-> Sig(<<Arg("object"), Arg("string"), Arg("any")>>, Null),   \* failure value = args[3]
      objectHas        |-> Sig(<<Arg("object"), Arg("string")>>, Bool(FALSE)),
      objectKeys       |-> Sig(<<Arg("object")>>, Null),
      objectSet        |-> Sig(<<Arg("object"), Arg("string"), Arg("any")>>, Null),
      stringCharCodeAt |-> Sig(<<Arg("string"), ArgIx>>, Null),
      stringEndsWith   |-> Sig(<<Arg("string"), Arg("string")>>, Null),
      stringIndexOf    |-> Sig(<<Arg("string"), Arg("string"), ArgIxDef(0)>>, IntV(-1)),
      stringLastIndexOf|-> Sig(<<Arg("string"), Arg("string"), ArgIxNul>>, IntV(-1)),
      stringLength     |-> Sig(<<Arg("string")>>, IntV(0)),
      stringLower      |-> Sig(<<Arg("string")>>, Null),
      stringNew        |-> Sig(<<Arg("any")>>, Null),
      stringRepeat     |-> Sig(<<Arg("string"), ArgIx>>, Null),
      stringReplace    |-> Sig(<<Arg("string"), Arg("string"), Arg("string")>>, Null),
      stringSlice      |-> Sig(<<Arg("string"), ArgIx, ArgIxNul>>, Null),
      stringSplit      |-> Sig(<<Arg("string"), Arg("string")>>, Null),
      stringStartsWith |-> Sig(<<Arg("string"), Arg("string")>>, Null),
      stringTrim       |-> Sig(<<Arg("string")>>, Null),
      stringUpper      |-> Sig(<<Arg("string")>>, Null),
      systemBoolean    |-> Sig(<<Arg("any")>>, Null),
      systemCompare    |-> Sig(<<Arg("any"), Arg("any")>>, Null),
      systemGlobalGet  |-> Sig(<<Arg("string"), Arg("any")>>, Null),
      systemGlobalSet  |-> Sig(<<Arg("string"), Arg("any")>>, Null),
      systemIs         |-> Sig(<<Arg("any"), Arg("any")>>, Null),
      systemLog        |-> Sig(<<Arg("any")>>, Null),
      systemLogDebug   |-> Sig(<<Arg("any")>>, Null),
      systemPartial    |-> Sig(<<Arg("function"), ArgRest>>, Null),
      systemType       |-> Sig(<<Arg("any")>>, Null),
      mathAbs          |-> Sig(<<Arg("number")>>, Null),
      mathCeil         |-> Sig(<<Arg("number")>>, Null),
      mathFloor        |-> Sig(<<Arg("number")>>, Null),
      mathSign         |-> Sig(<<Arg("number")>>, Null),
      regexEscape      |-> Sig(<<Arg("string")>>, Null),
      urlEncode        |-> Sig(<<Arg("string")>>, Null),
      urlEncodeComponent |-> Sig(<<Arg("string")>>, Null),
      jsonStringify    |-> Sig(<<Arg("any"), [Arg("number") EXCEPT !.nul = TRUE, !.int = TRUE, !.lo = IntV(1)]>>, Null),
      jsonParse        |-> Sig(<<Arg("string")>>, Null),
      mathRound        |-> Sig(<<Arg("number"), ArgIxDef(0)>>, Null),
      numberToFixed    |-> Sig(<<Arg("number"), ArgIxDef(2), [Arg("boolean") EXCEPT !.def = Bool(FALSE)]>>, Null),
      numberParseFloat |-> Sig(<<Arg("string")>>, Null),
      numberParseInt   |-> Sig(<<Arg("string"), [Arg("number") EXCEPT !.def = IntV(10), !.int = TRUE, !.lo = IntV(2), !.hi = IntV(36)]>>, Null),
      datetimeYear     |-> Sig(<<Arg("datetime")>>, Null),
      datetimeMonth    |-> Sig(<<Arg("datetime")>>, Null),
      datetimeDay      |-> Sig(<<Arg("datetime")>>, Null),
      datetimeHour     |-> Sig(<<Arg("datetime")>>, Null),
      datetimeMinute   |-> Sig(<<Arg("datetime")>>, Null),
      datetimeSecond   |-> Sig(<<Arg("datetime")>>, Null),
      datetimeMillisecond |-> Sig(<<Arg("datetime")>>, Null),
      datetimeISOFormat |-> Sig(<<Arg("datetime"), [Arg("boolean") EXCEPT !.def = Bool(FALSE)]>>, Null),
      datetimeISOParse |-> Sig(<<Arg("string")>>, Null),
      datetimeNew      |-> Sig(<<[Arg("number") EXCEPT !.int = TRUE, !.lo = IntV(100)], [Arg("number") EXCEPT !.int = TRUE],
                                 [Arg("number") EXCEPT !.int = TRUE, !.lo = IntV(-10000), !.hi = IntV(10000)],
                                 [Arg("number") EXCEPT !.int = TRUE, !.def = IntV(0)], [Arg("number") EXCEPT !.int = TRUE, !.def = IntV(0)],
                                 [Arg("number") EXCEPT !.int = TRUE, !.def = IntV(0)], [Arg("number") EXCEPT !.int = TRUE, !.def = IntV(0)]>>, Null)
    ]
SigNames == DOMAIN Signatures

\* every name the library binds in globals (the full table of the pinned tree, used for lookup)
LibNames == SigNames \cup
    { "arrayNew", "objectNew", "stringFromCharCode", "mathMax", "mathMin",
      "dataAggregate", "dataCalculatedField", "dataFilter", "dataJoin", "dataParseCSV", "dataSort",
      "dataTop", "dataValidate", "datetimeDay", "datetimeHour", "datetimeISOFormat", "datetimeISOParse",
      "datetimeMillisecond", "datetimeMinute", "datetimeMonth", "datetimeNew", "datetimeNow",
      "datetimeSecond", "datetimeToday", "datetimeYear", "jsonParse", "mathAcos",
      "mathAsin", "mathAtan", "mathAtan2", "mathCos", "mathLn", "mathLog", "mathPi", "mathRandom",
      "mathRound", "mathSin", "mathSqrt", "mathTan", "numberParseInt", "numberParseFloat",
      "numberToFixed", "regexMatch", "regexMatchAll", "regexNew", "regexReplace",
      "regexSplit", "schemaParse", "schemaParseEx", "schemaTypeModel", "schemaValidate",
      "schemaValidateTypeModel", "systemFetch" }

\* spreadsheet-style expression built-ins (C03): alias -> library name
ExprAliases ==
    [ abs |-> "mathAbs", acos |-> "mathAcos", asin |-> "mathAsin", atan |-> "mathAtan", atan2 |-> "mathAtan2",
      ceil |-> "mathCeil", charCodeAt |-> "stringCharCodeAt", cos |-> "mathCos", date |-> "datetimeNew",
      day |-> "datetimeDay", endsWith |-> "stringEndsWith", indexOf |-> "stringIndexOf", fixed |-> "numberToFixed",
      floor |-> "mathFloor", fromCharCode |-> "stringFromCharCode", hour |-> "datetimeHour",
      lastIndexOf |-> "stringLastIndexOf", len |-> "stringLength", lower |-> "stringLower", ln |-> "mathLn",
      log |-> "mathLog", max |-> "mathMax", min |-> "mathMin", millisecond |-> "datetimeMillisecond",
      minute |-> "datetimeMinute", month |-> "datetimeMonth", now |-> "datetimeNow", parseInt |-> "numberParseInt",
      parseFloat |-> "numberParseFloat", pi |-> "mathPi", rand |-> "mathRandom", replace |-> "stringReplace",
      rept |-> "stringRepeat", round |-> "mathRound", second |-> "datetimeSecond", sign |-> "mathSign",
      sin |-> "mathSin", slice |-> "stringSlice", sqrt |-> "mathSqrt", startsWith |-> "stringStartsWith",
      text |-> "stringNew", tan |-> "mathTan", today |-> "datetimeToday", trim |-> "stringTrim",
      upper |-> "stringUpper", year |-> "datetimeYear" ]

(***************************** validation (value_args_validate as documented) *****************************)
TypeOKFor(ty, v) ==
    CASE ty = "number"   -> v.t = "num"          \* booleans are not numbers (A2)
      [] ty = "string"   -> v.t = "str"
      [] ty = "array"    -> v.t = "array"
      [] ty = "object"   -> v.t = "object"
      [] ty = "datetime" -> v.t = "dt"
      [] ty = "regex"    -> v.t = "regex"
      [] ty = "function" -> v.t = "fn"
      [] OTHER           -> TRUE

\* integrality / sign of a concrete number
IntegralNum(v) == IF v.f = "q" THEN v.d = 1 ELSE IF v.f = "d" THEN v.e >= Len(v.ds) ELSE FALSE
NonNegNum(v) == IF v.f = "q" THEN v.n >= 0 ELSE IF v.f = "d" THEN v.s > 0 ELSE FALSE
NumOK(sp, v) ==
    /\ (sp.int => IntegralNum(v))
    /\ (sp.gte0 => NonNegNum(v))
    /\ (sp.lo # NoDef => CmpNum(v, sp.lo) >= 0)
    /\ (sp.hi # NoDef => CmpNum(v, sp.hi) <= 0)

\* returns [ok, vs]; a lastArgArray parameter becomes [t |-> "rest", v |-> <<...>>]
RECURSIVE ValidateFrom(_, _, _, _)
ValidateFrom(specs, args, i, heap) ==
    IF i > Len(specs) THEN [ok |-> Len(args) <= Len(specs), vs |-> <<>>]
    ELSE LET sp == specs[i] IN
         IF sp.rest THEN [ok |-> TRUE, vs |-> << [t |-> "rest", v |-> IF i > Len(args) THEN <<>> ELSE SubSeq(args, i, Len(args))] >>]
         ELSE LET missing == i > Len(args)
                  one ==
                    IF missing THEN
                        IF sp.def # NoDef THEN [ok |-> TRUE, v |-> sp.def]
                        ELSE IF sp.ty = "boolean" THEN [ok |-> TRUE, v |-> Bool(FALSE)]
                        ELSE IF sp.ty = "any" \/ sp.nul THEN [ok |-> TRUE, v |-> Null]
                        ELSE [ok |-> FALSE, v |-> Null]
                    ELSE LET a == args[i] IN
                        IF sp.ty = "any" THEN [ok |-> TRUE, v |-> a]
                        ELSE IF sp.ty = "boolean" THEN [ok |-> TRUE, v |-> Bool(Truthy(a, heap))]
                        ELSE IF a.t = "null" THEN [ok |-> sp.nul, v |-> a]
                        ELSE IF ~TypeOKFor(sp.ty, a) THEN [ok |-> FALSE, v |-> a]
                        ELSE IF sp.ty = "number" THEN [ok |-> NumOK(sp, a), v |-> a]
                        ELSE [ok |-> TRUE, v |-> a]
                  rest == ValidateFrom(specs, args, i + 1, heap)
              IN IF one.ok /\ rest.ok THEN [ok |-> TRUE, vs |-> <<one.v>> \o rest.vs]
                 ELSE [ok |-> FALSE, vs |-> <<>>]
\* "rest" parameters swallow surplus arguments
Validate(sig, args, heap) == ValidateFrom(sig.args, args, 1, heap)

(***************************** helpers *****************************)
R(v, heap) == [m |-> TRUE, v |-> v, heap |-> heap, f |-> FALSE]
RF(v, heap) == [m |-> TRUE, v |-> v, heap |-> heap, f |-> TRUE]      \* the call FAILED (debug mode reports it)
Unmodelled(heap) == [m |-> FALSE, v |-> Null, heap |-> heap, f |-> FALSE]
Alloc(kind, content, heap) ==
    [v |-> [t |-> kind, r |-> Len(heap) + 1], heap |-> Append(heap, [k |-> kind, v |-> content])]
\* numeric index of a validated non-negative integral number (huge -> beyond any length)
Ix(v) == IF v.f = "q" THEN v.n ELSE Bound + 1
SetCell(heap, r, content) == [heap EXCEPT ![r].v = content]
DropAt(s, i) == SubSeq(s, 1, i - 1) \o SubSeq(s, i + 1, Len(s))

PairIndex(ps, key) == IF \E i \in 1..Len(ps) : ps[i].key = key
                      THEN CHOOSE i \in 1..Len(ps) : ps[i].key = key ELSE 0
PairSet(ps, key, val) ==
    LET i == PairIndex(ps, key) IN
    IF i = 0 THEN Append(ps, [key |-> key, val |-> val]) ELSE [ps EXCEPT ![i].val = val]
RECURSIVE PairsAssign(_, _)
PairsAssign(ps, qs) == IF qs = <<>> THEN ps ELSE PairsAssign(PairSet(ps, Head(qs).key, Head(qs).val), Tail(qs))

\* first / last index (1-based position) at or after / before from with Compare = 0; 0 if none
FirstEq(s, val, from, heap) ==
    IF \E i \in from..Len(s) : Compare(s[i], val, heap) = 0
    THEN CHOOSE i \in from..Len(s) : Compare(s[i], val, heap) = 0 /\ \A j \in from..(i - 1) : Compare(s[j], val, heap) # 0
    ELSE 0
LastEq(s, val, upto, heap) ==
    IF \E i \in 1..upto : Compare(s[i], val, heap) = 0
    THEN CHOOSE i \in 1..upto : Compare(s[i], val, heap) = 0 /\ \A j \in (i + 1)..upto : Compare(s[j], val, heap) # 0
    ELSE 0

\* objectNew(k1, v1, k2, v2, ...): every key must be a string, missing last value = null
RECURSIVE ObjNewPairs(_, _, _)
ObjNewPairs(args, i, acc) ==
    IF i > Len(args) THEN [ok |-> TRUE, ps |-> acc]
    ELSE IF args[i].t # "str" THEN [ok |-> FALSE, ps |-> <<>>]
    ELSE ObjNewPairs(args, i + 2, PairSet(acc, args[i].v, IF i + 1 <= Len(args) THEN args[i + 1] ELSE Null))

RECURSIVE JoinTexts(_, _, _, _, _)
JoinTexts(s, i, sep, heap, off) ==
    IF i > Len(s) THEN OK(<<>>)
    ELSE LET a == ToText(s[i], heap, off)
             r == JoinTexts(s, i + 1, sep, heap, off)
         IN IF a.ok /\ r.ok THEN OK((IF i > 1 THEN sep ELSE <<>>) \o a.s \o r.s) ELSE NoText

(***************************** string helpers *****************************)
IsPrefixAt(s, sub, p) ==      \* sub occurs in s at 1-based position p
    p >= 1 /\ p + Len(sub) - 1 <= Len(s) /\ \A k \in 1..Len(sub) : s[p + k - 1] = sub[k]
\* Python str.find(sub, start): lowest 0-based index >= start, -1 if none
Find(s, sub, start) ==
    LET cands == { p \in (start + 1)..(Len(s) - Len(sub) + 1) : IsPrefixAt(s, sub, p) } IN
    IF cands = {} THEN -1 ELSE (CHOOSE p \in cands : \A q \in cands : p <= q) - 1
\* Python str.rfind(sub, 0, end): highest 0-based index with occurrence ending <= end
RFind(s, sub, end) ==
    LET e == Min2(end, Len(s))
        cands == { p \in 1..(e - Len(sub) + 1) : IsPrefixAt(s, sub, p) } IN
    IF cands = {} THEN -1 ELSE (CHOOSE p \in cands : \A q \in cands : p >= q) - 1
RECURSIVE DigitsToIntRadix(_, _, _)
DigitsToIntRadix(ds, radix, acc) == IF ds = <<>> THEN acc ELSE DigitsToIntRadix(Tail(ds), radix, acc * radix + Head(ds))
RECURSIVE RepeatSeq(_, _)
RepeatSeq(s, k) == IF k <= 0 THEN <<>> ELSE s \o RepeatSeq(s, k - 1)
\* str.replace(old, new): left to right, non overlapping; empty old inserts new around every character
RECURSIVE StrReplaceAll(_, _, _)
StrReplaceAll(s, old, new) ==
    IF old = <<>> THEN
        IF s = <<>> THEN new ELSE new \o <<Head(s)>> \o StrReplaceAll(Tail(s), old, new)
    ELSE IF Len(s) < Len(old) THEN s
    ELSE IF IsPrefixAt(s, old, 1) THEN new \o StrReplaceAll(SubSeq(s, Len(old) + 1, Len(s)), old, new)
    ELSE <<Head(s)>> \o StrReplaceAll(Tail(s), old, new)
\* str.split(sep) for a non-empty separator: sequence of pieces
RECURSIVE SplitBy(_, _, _)
SplitBy(s, sep, cur) ==
    IF Len(s) < Len(sep) \/ s = <<>> THEN <<cur \o s>>
    ELSE IF IsPrefixAt(s, sep, 1) THEN <<cur>> \o SplitBy(SubSeq(s, Len(sep) + 1, Len(s)), sep, <<>>)
    ELSE SplitBy(Tail(s), sep, Append(cur, Head(s)))
\* whitespace stripped by str.strip() within the ASCII / Latin-1 range used by the generators
IsSpaceCP(c) == c \in {9, 10, 11, 12, 13, 28, 29, 30, 31, 32, 133, 160}
RECURSIVE LStrip(_), RStrip(_)
LStrip(s) == IF s # <<>> /\ IsSpaceCP(Head(s)) THEN LStrip(Tail(s)) ELSE s
RStrip(s) == IF s # <<>> /\ IsSpaceCP(s[Len(s)]) THEN RStrip(SubSeq(s, 1, Len(s) - 1)) ELSE s
\* case mapping is specified on ASCII only (DESIGN limit); any other code point makes the result unmodelled
AsciiOnly(s) == \A i \in 1..Len(s) : s[i] < 128
LowerCase(s) == [i \in 1..Len(s) |-> IF s[i] >= 65 /\ s[i] <= 90 THEN s[i] + 32 ELSE s[i]]
UpperCase(s) == [i \in 1..Len(s) |-> IF s[i] >= 97 /\ s[i] <= 122 THEN s[i] - 32 ELSE s[i]]

\* percent-encoding (RFC 3986 unreserved + the function's safe set), UTF-8
UTF8(c) ==
    IF c < 128 THEN <<c>>
    ELSE IF c < 2048 THEN <<192 + (c \div 64), 128 + (c % 64)>>
    ELSE IF c < 65536 THEN <<224 + (c \div 4096), 128 + ((c \div 64) % 64), 128 + (c % 64)>>
    ELSE <<240 + (c \div 262144), 128 + ((c \div 4096) % 64), 128 + ((c \div 64) % 64), 128 + (c % 64)>>
HexU(n) == IF n < 10 THEN 48 + n ELSE 65 + n - 10
Pct(b) == <<37, HexU(b \div 16), HexU(b % 16)>>
Unreserved(c) == (c >= 65 /\ c <= 90) \/ (c >= 97 /\ c <= 122) \/ (c >= 48 /\ c <= 57) \/ c \in {45, 46, 95, 126}
RECURSIVE PctBytes(_)
PctBytes(bs) == IF bs = <<>> THEN <<>> ELSE Pct(Head(bs)) \o PctBytes(Tail(bs))
RECURSIVE UrlQuote(_, _)
UrlQuote(s, safe) ==
    IF s = <<>> THEN <<>>
    ELSE (IF Unreserved(Head(s)) \/ Head(s) \in safe THEN <<Head(s)>> ELSE PctBytes(UTF8(Head(s)))) \o UrlQuote(Tail(s), safe)
\* re.escape: backslash before every special character
ReSpecial == {40, 41, 91, 93, 123, 125, 63, 42, 43, 45, 124, 94, 36, 92, 46, 38, 126, 35, 32, 9, 10, 13, 11, 12}
RECURSIVE ReEscape(_)
ReEscape(s) == IF s = <<>> THEN <<>> ELSE (IF Head(s) \in ReSpecial THEN <<92, Head(s)>> ELSE <<Head(s)>>) \o ReEscape(Tail(s))

S_typeName(v) ==
    CASE v.t = "null"   -> <<110, 117, 108, 108>>
      [] v.t = "bool"   -> <<98, 111, 111, 108, 101, 97, 110>>
      [] v.t = "num"    -> <<110, 117, 109, 98, 101, 114>>
      [] v.t = "str"    -> <<115, 116, 114, 105, 110, 103>>
      [] v.t = "dt"     -> <<100, 97, 116, 101, 116, 105, 109, 101>>
      [] v.t = "array"  -> <<97, 114, 114, 97, 121>>
      [] v.t = "object" -> <<111, 98, 106, 101, 99, 116>>
      [] v.t = "fn"     -> <<102, 117, 110, 99, 116, 105, 111, 110>>
      [] OTHER          -> <<114, 101, 103, 101, 120>>

(***************************** numbers, JSON and datetimes *****************************)
\* canonical abstract number of a decimal s * 0.ds * 10^e : exact dyadic when representable, else the decimal itself
Pow10(k) == CASE k = 0 -> 1 [] k = 1 -> 10 [] k = 2 -> 100 [] k = 3 -> 1000 [] k = 4 -> 10000 [] k = 5 -> 100000
              [] k = 6 -> 1000000 [] k = 7 -> 10000000 [] k = 8 -> 100000000 [] OTHER -> 1000000000
DecToNum(sg, ds, e) ==
    IF ds = <<>> THEN (IF sg < 0 THEN ZeroNeg ELSE IntV(0))
    ELSE LET k == Len(ds)  nfrac == k - e IN
         IF k <= 9 /\ nfrac <= 0 /\ e <= 9 THEN Q(sg * DigitsToInt(ds, 0) * Pow10(e - k), 1)
         ELSE IF k <= 9 /\ nfrac > 0 /\ nfrac <= 9 THEN
              LET num == DigitsToInt(ds, 0)
                  den == Pow10(nfrac)
                  g == GCD(num, den) IN
              IF IsPow2(den \div g) /\ num \div g <= Bound THEN Q(sg * (num \div g), den \div g)
              ELSE [t |-> "num", f |-> "d", s |-> sg, ds |-> ds, e |-> e]
         ELSE IF k <= 15 THEN [t |-> "num", f |-> "d", s |-> sg, ds |-> ds, e |-> e]
         ELSE AnyFinite                                   \* more digits than a double keeps: some finite number
\* value of a parsed JSON text (BareJson tree with jnum tokens) as heap values: [v, heap]
RECURSIVE JsonToValue(_, _), JsonSeqToValues(_, _, _), JsonPairsToValues(_, _, _)
JsonSeqToValues(s, i, heap) ==
    IF i > Len(s) THEN [vs |-> <<>>, heap |-> heap]
    ELSE LET a == JsonToValue(s[i], heap)  r == JsonSeqToValues(s, i + 1, a.heap) IN [vs |-> <<a.v>> \o r.vs, heap |-> r.heap]
JsonPairsToValues(s, i, heap) ==
    IF i > Len(s) THEN [vs |-> <<>>, heap |-> heap]
    ELSE LET a == JsonToValue(s[i].val, heap)  r == JsonPairsToValues(s, i + 1, a.heap) IN
         [vs |-> <<[key |-> s[i].key, val |-> a.v]>> \o r.vs, heap |-> r.heap]
JsonToValue(p, heap) ==
    IF p.t = "jnum" THEN [v |-> DecToNum(p.s, p.ds, p.e), heap |-> heap]
    ELSE IF p.t = "array" THEN LET r == JsonSeqToValues(p.v, 1, heap) IN
         [v |-> ARef(Len(r.heap) + 1), heap |-> Append(r.heap, [k |-> "array", v |-> r.vs])]
    ELSE IF p.t = "object" THEN LET r == JsonPairsToValues(p.v, 1, heap) IN
         \* a repeated key keeps its first position and its last value
         [v |-> ORef(Len(r.heap) + 1), heap |-> Append(r.heap, [k |-> "object", v |-> PairsAssign(<<>>, r.vs)])]
    ELSE [v |-> p, heap |-> heap]
\* fixed-point text of an exact number with `digits` decimals (only when the expansion is exact and short)
FixedText(q, digits) ==
    LET m == Abs(q.n)
        ip == NatDigits(m \div q.d)
        fr == FracDigits(m % q.d, q.d, 12)
    IN IF Len(fr) > digits \/ digits > 20 \/ Len(ip) > 15 THEN NoText
       ELSE OK((IF q.n < 0 THEN <<cMinus>> ELSE <<>>) \o DigitChars(ip)
               \o (IF digits > 0 THEN <<cDot>> \o DigitChars(fr \o Zeros(digits - Len(fr))) ELSE <<>>))
DtParts(v) == LET c == CivilFromDays(v.d) IN
    [year |-> c.y, month |-> c.m, day |-> c.d, hour |-> v.ms \div 3600000, minute |-> (v.ms \div 60000) % 60,
     second |-> (v.ms \div 1000) % 60, ms |-> v.ms % 1000]
SmallInt(v) == IsQ(v) /\ v.d = 1 /\ Abs(v.n) <= 100000

(***************************** the pure functions *****************************)
\* skip marker: the result cannot be determined inside the exact domain
SkipR(heap) == [m |-> TRUE, v |-> [t |-> "skip"], heap |-> heap, f |-> FALSE]

LibPureOK(name, a, heap, off) ==     \* a = validated arguments
    CASE name = "arrayCopy" -> LET r == Alloc("array", heap[a[1].r].v, heap) IN R(r.v, r.heap)
      [] name = "arrayDelete" ->
            IF Ix(a[2]) >= Len(heap[a[1].r].v) THEN RF(Null, heap)
            ELSE R(AnyVal, SetCell(heap, a[1].r, DropAt(heap[a[1].r].v, Ix(a[2]) + 1)))
      [] name = "arrayExtend" -> R(a[1], SetCell(heap, a[1].r, heap[a[1].r].v \o heap[a[2].r].v))
      [] name = "arrayGet" ->
            IF Ix(a[2]) >= Len(heap[a[1].r].v) THEN RF(Null, heap) ELSE R(heap[a[1].r].v[Ix(a[2]) + 1], heap)
      [] name = "arrayIndexOf" ->       \* non-function value only (callbacks: BareEval)
            IF Ix(a[3]) >= Len(heap[a[1].r].v) THEN RF(IntV(-1), heap)
            ELSE R(IntV(FirstEq(heap[a[1].r].v, a[2], Ix(a[3]) + 1, heap) - 1), heap)
      [] name = "arrayLastIndexOf" ->
            LET s == heap[a[1].r].v
                ix == IF a[3].t = "null" THEN Len(s) - 1 ELSE Ix(a[3]) IN
            IF ix >= Len(s) THEN RF(IntV(-1), heap) ELSE R(IntV(LastEq(s, a[2], ix + 1, heap) - 1), heap)
      [] name = "arrayJoin" ->
            LET t == JoinTexts(heap[a[1].r].v, 1, a[2].v, heap, off) IN IF t.ok THEN R(Str(t.s), heap) ELSE SkipR(heap)
      [] name = "arrayLength" -> R(IntV(Len(heap[a[1].r].v)), heap)
      [] name = "arrayNewSize" ->
            IF Ix(a[1]) > 10000 THEN SkipR(heap)
            ELSE LET r == Alloc("array", [i \in 1..Ix(a[1]) |-> a[2]], heap) IN R(r.v, r.heap)
      [] name = "arrayPop" ->
            LET s == heap[a[1].r].v IN
            IF s = <<>> THEN RF(Null, heap) ELSE R(s[Len(s)], SetCell(heap, a[1].r, SubSeq(s, 1, Len(s) - 1)))
      [] name = "arrayPush" -> R(a[1], SetCell(heap, a[1].r, heap[a[1].r].v \o a[2].v))
      [] name = "arraySet" ->
            IF Ix(a[2]) >= Len(heap[a[1].r].v) THEN RF(Null, heap)
            ELSE R(a[3], [heap EXCEPT ![a[1].r].v[Ix(a[2]) + 1] = a[3]])
      [] name = "arrayShift" ->
            LET s == heap[a[1].r].v IN
            IF s = <<>> THEN RF(Null, heap) ELSE R(s[1], SetCell(heap, a[1].r, Tail(s)))
      [] name = "arraySlice" ->
            LET s == heap[a[1].r].v
                st == Ix(a[2])
                en == IF a[3].t = "null" THEN Len(s) ELSE Ix(a[3]) IN
            IF st > Len(s) \/ en > Len(s) THEN RF(Null, heap)
            ELSE LET r == Alloc("array", SubSeq(s, st + 1, en), heap) IN R(r.v, r.heap)
      [] name = "objectAssign" -> R(a[1], SetCell(heap, a[1].r, PairsAssign(heap[a[1].r].v, heap[a[2].r].v)))
      [] name = "objectCopy" -> LET r == Alloc("object", heap[a[1].r].v, heap) IN R(r.v, r.heap)
      [] name = "objectDelete" ->
            LET i == PairIndex(heap[a[1].r].v, a[2].v) IN
            R(Null, IF i = 0 THEN heap ELSE SetCell(heap, a[1].r, DropAt(heap[a[1].r].v, i)))
      [] name = "objectGet" ->
            LET i == PairIndex(heap[a[1].r].v, a[2].v) IN R(IF i = 0 THEN a[3] ELSE heap[a[1].r].v[i].val, heap)
      [] name = "objectHas" -> R(Bool(PairIndex(heap[a[1].r].v, a[2].v) # 0), heap)
      [] name = "objectKeys" ->
            LET ps == heap[a[1].r].v
                r == Alloc("array", [i \in 1..Len(ps) |-> Str(ps[i].key)], heap) IN R(r.v, r.heap)
      [] name = "objectSet" -> R(a[3], SetCell(heap, a[1].r, PairSet(heap[a[1].r].v, a[2].v, a[3])))
      [] name = "stringCharCodeAt" -> IF Ix(a[2]) >= Len(a[1].v) THEN RF(Null, heap) ELSE R(IntV(a[1].v[Ix(a[2]) + 1]), heap)
      [] name = "stringEndsWith" -> R(Bool(IsPrefixAt(a[1].v, a[2].v, Len(a[1].v) - Len(a[2].v) + 1)), heap)
      [] name = "stringStartsWith" -> R(Bool(IsPrefixAt(a[1].v, a[2].v, 1)), heap)
      [] name = "stringIndexOf" ->
            IF Ix(a[3]) >= Len(a[1].v) THEN RF(IntV(-1), heap) ELSE R(IntV(Find(a[1].v, a[2].v, Ix(a[3]))), heap)
      [] name = "stringLastIndexOf" ->
            IF a[2].v = <<>> /\ a[3].t = "null" THEN R(AnyVal, heap)     \* empty search string: position unspecified
            ELSE
            LET ix == IF a[3].t = "null" THEN Len(a[1].v) - 1 ELSE Ix(a[3]) IN
            IF ix >= Len(a[1].v) THEN RF(IntV(-1), heap) ELSE R(IntV(RFind(a[1].v, a[2].v, ix + Len(a[2].v))), heap)
      [] name = "stringLength" -> R(IntV(Len(a[1].v)), heap)
      [] name = "stringLower" -> IF AsciiOnly(a[1].v) THEN R(Str(LowerCase(a[1].v)), heap) ELSE SkipR(heap)
      [] name = "stringUpper" -> IF AsciiOnly(a[1].v) THEN R(Str(UpperCase(a[1].v)), heap) ELSE SkipR(heap)
      [] name = "stringNew" -> LET t == ToText(a[1], heap, off) IN IF t.ok THEN R(Str(t.s), heap) ELSE SkipR(heap)
      [] name = "stringRepeat" ->
            IF a[1].v = <<>> THEN R(Str(<<>>), heap)                     \* (any count of nothing is nothing - and costs nothing to specify)
            ELSE IF Ix(a[2]) > 100000 \/ Ix(a[2]) * Len(a[1].v) > 100000 THEN SkipR(heap) ELSE R(Str(RepeatSeq(a[1].v, Ix(a[2]))), heap)
      [] name = "stringReplace" -> R(Str(StrReplaceAll(a[1].v, a[2].v, a[3].v)), heap)
      [] name = "stringSlice" ->
            LET s == a[1].v
                en == IF a[3].t = "null" THEN Len(s) ELSE Ix(a[3]) IN
            IF Ix(a[2]) > Len(s) \/ en > Len(s) THEN RF(Null, heap) ELSE R(Str(SubSeq(s, Ix(a[2]) + 1, en)), heap)
      [] name = "stringSplit" ->
            IF a[2].v = <<>> THEN RF(Null, heap)            \* empty separator: the call fails -> null
            ELSE LET ps == SplitBy(a[1].v, a[2].v, <<>>)
                     r == Alloc("array", [i \in 1..Len(ps) |-> Str(ps[i])], heap) IN R(r.v, r.heap)
      [] name = "stringTrim" ->
            IF \A i \in 1..Len(a[1].v) : a[1].v[i] < 256 THEN R(Str(RStrip(LStrip(a[1].v))), heap) ELSE SkipR(heap)
      [] name = "systemBoolean" -> R(Bool(Truthy(a[1], heap)), heap)
      [] name = "systemCompare" ->
            IF Concrete(a[1]) /\ Concrete(a[2]) THEN R(IntV(Compare(a[1], a[2], heap)), heap) ELSE SkipR(heap)
      [] name = "systemIs" ->
            R(Bool(IF a[1].t = "num" /\ a[2].t = "num" THEN CmpNum(a[1], a[2]) = 0
                   ELSE IF a[1].t # a[2].t THEN FALSE
                   ELSE IF a[1].t \in {"array", "object"} THEN a[1] = a[2]
                   ELSE IF a[1].t \in {"null", "bool"} THEN a[1] = a[2]
                   ELSE FALSE), heap)          \* strings / datetimes / functions: identity is unspecified -> see SystemIsOpen
      [] name = "systemType" -> R(Str(S_typeName(a[1])), heap)
      [] name = "mathAbs" -> R(IF IsQ(a[1]) THEN Q(Abs(a[1].n), a[1].d) ELSE IF IsD(a[1]) THEN [a[1] EXCEPT !.s = 1] ELSE AnyNum, heap)
      [] name = "mathSign" -> R(IF IsQ(a[1]) THEN (IF a[1].n = 0 THEN ZeroAny ELSE IntV(Sgn(a[1].n))) ELSE IF IsD(a[1]) THEN IntV(a[1].s) ELSE AnyNum, heap)
      [] name = "mathFloor" -> R(IF IsQ(a[1]) THEN IntV(FloorQ(a[1])) ELSE AnyNum, heap)
      [] name = "mathCeil" -> R(IF IsQ(a[1]) THEN IntV(-FloorQ(Q(-a[1].n, a[1].d))) ELSE AnyNum, heap)
      [] name = "mathRound" ->
            IF ~IsQ(a[1]) THEN SkipR(heap)
            ELSE IF Ix(a[2]) > 300 THEN R(W({"null", "fin"}), heap)                 \* 10^digits leaves the double range: null or the number
            \* beyond 15 digits x * 10^digits is no longer exact in doubles: the result is the number up to rounding error
            \* (mathRound(2024, 100) = 2024.0000000000002); numeric accuracy is not what this specification decides
            ELSE IF Ix(a[2]) > 15 THEN R(AnyFinite, heap)
            \* an integer rounds to itself (stated where n * 10^digits is certainly exact: up to 3 digits, or a small integer)
            ELSE IF a[1].d = 1 /\ (Ix(a[2]) <= 3 \/ Abs(a[1].n) < 9) THEN R(a[1], heap)
            ELSE IF a[1].d = 1 THEN R(AnyFinite, heap)
            ELSE IF Abs(a[1].n) > 500000000 THEN R(AnyFinite, heap)
            ELSE IF Ix(a[2]) = 0 THEN                                               \* halves away from zero
                R(IF a[1].n >= 0 THEN IntV(FloorQ(Q(2 * a[1].n + a[1].d, 2 * a[1].d))) ELSE IntV(-FloorQ(Q(-2 * a[1].n + a[1].d, 2 * a[1].d))), heap)
            ELSE R(AnyFinite, heap)
      [] name = "numberToFixed" ->
            IF ~IsQ(a[1]) \/ Ix(a[2]) > 20 THEN SkipR(heap)
            ELSE LET t == FixedText(a[1], Ix(a[2])) IN
                 IF ~t.ok THEN R(AnyVal, heap)                                     \* rounding needed: the digits are not specified here
                 ELSE IF a[1].n = 0 /\ "z" \in DOMAIN a[1] THEN R(AnyVal, heap)
                 ELSE R(Str(IF a[3].v THEN Cleanup(t.s) ELSE t.s), heap)
      [] name = "numberParseFloat" ->
            LET d == DecOfText(a[1].v) IN
            IF \E i \in 1..Len(a[1].v) : a[1].v[i] = 95 \/ a[1].v[i] >= 128 THEN R(AnyVal, heap)      \* A25: liberal forms
            ELSE IF ~d.ok THEN R(Null, heap)
            ELSE IF d.ds # <<>> /\ (d.e > 305 \/ d.e < -300) THEN R(W({"null", "fin"}), heap)
            ELSE R(DecToNum(d.s, d.ds, d.e), heap)
      [] name = "numberParseInt" ->
            LET i == IntOfText(a[1].v, Ix(a[2])) IN
            IF (\E k \in 1..Len(a[1].v) : a[1].v[k] = 95 \/ a[1].v[k] >= 128) THEN R(AnyVal, heap)
            ELSE IF Len(LTrim(a[1].v)) >= 2 /\ LET t == LTrim(a[1].v)  b == IF t[1] \in {cPlus, cMinus} THEN 2 ELSE 1 IN
                                                  b + 1 <= Len(t) /\ t[b] = cZero /\ t[b + 1] \in {120, 88, 98, 66, 111, 79} THEN R(AnyVal, heap)
            ELSE IF ~i.ok THEN R(Null, heap)
            ELSE IF Len(i.ds) > 6 THEN R(AnyFinite, heap)
            ELSE LET n == DigitsToIntRadix(i.ds, Ix(a[2]), 0) IN IF n > Bound THEN R(AnyFinite, heap) ELSE R(IntV(i.s * n), heap)
      [] name = "jsonStringify" ->
            IF a[2].t # "null" THEN R(AnyVal, heap)                  \* indented text: judged by C14 (whitespace is free)
            ELSE LET t == JsonText(a[1], heap, off) IN IF t.ok THEN R(Str(t.s), heap) ELSE SkipR(heap)
      [] name = "jsonParse" ->
            LET r == ParseJson(a[1].v) IN
            IF ~r.ok THEN
                \* not JSON: the call fails -> null; texts with the NaN / Infinity tokens some parsers accept are not judged
                (IF \E i \in 1..Len(a[1].v) : a[1].v[i] \in {78, 73} THEN SkipR(heap) ELSE RF(Null, heap))
            ELSE LET x == JsonToValue(r.v, heap) IN R(x.v, x.heap)
      [] name \in {"datetimeYear", "datetimeMonth", "datetimeDay", "datetimeHour", "datetimeMinute", "datetimeSecond", "datetimeMillisecond"} ->
            LET p == DtParts(a[1]) IN
            R(IntV(CASE name = "datetimeYear" -> p.year [] name = "datetimeMonth" -> p.month [] name = "datetimeDay" -> p.day
                     [] name = "datetimeHour" -> p.hour [] name = "datetimeMinute" -> p.minute [] name = "datetimeSecond" -> p.second
                     [] OTHER -> p.ms), heap)
      [] name = "datetimeISOFormat" ->
            IF ~DtTextDefined(a[1]) THEN SkipR(heap)
            ELSE IF a[2].v THEN R(Str(SubSeq(DtText(a[1].d, 0, 0), 1, 10)), heap)
            ELSE R(Str(DtText(a[1].d, a[1].ms, off)), heap)
      [] name = "datetimeISOParse" ->
            LET p == IsoOf(a[1].v) IN
            IF ~p.ok THEN (IF a[1].v # <<>> /\ a[1].v[Len(a[1].v)] = 10 THEN R(AnyVal, heap) ELSE R(Null, heap))
            ELSE IF p.isDate THEN R(Dt(p.d, 0), heap)
            ELSE LET l == Shift(p.d, p.ms, off - p.off) IN
                 IF l.d < MinDay + 2 \/ l.d > MaxDay - 2 THEN SkipR(heap) ELSE R(Dt(l.d, l.ms), heap)
      [] name = "datetimeNew" ->
            IF \E k \in 1..7 : ~SmallInt(a[k]) THEN SkipR(heap)
            ELSE LET n == Normalize(a[1].n, a[2].n, a[3].n, a[4].n, a[5].n, a[6].n, a[7].n) IN
                 IF n.ok THEN R(Dt(n.d, n.ms), heap) ELSE RF(Null, heap)
      [] OTHER -> Unmodelled(heap)

\* identity of immutable values (two equal strings) is not specified
SystemIsOpen(a) == Len(a) >= 2 /\ a[1].t = a[2].t /\ a[1].t \in {"str", "dt", "fn", "regex"}

PureNames == SigNames \ {"arraySort", "systemGlobalGet", "systemGlobalSet", "systemLog", "systemLogDebug",
                         "systemPartial"}

LibPure(name, args, heap, off) ==
    \* datetimes with a sub-millisecond residue only arise from fractional offsets; the library's treatment of them is left open
    IF \E i \in 1..Len(args) : args[i].t = "dt" /\ UsOf(args[i]) # 0 /\ name \notin {"arrayNew", "objectNew", "systemCompare"} THEN SkipR(heap)
    ELSE IF name = "arrayNew" THEN LET r == Alloc("array", args, heap) IN R(r.v, r.heap)
    ELSE IF name = "objectNew" THEN
        LET p == ObjNewPairs(args, 1, <<>>) IN
        IF p.ok THEN LET r == Alloc("object", p.ps, heap) IN R(r.v, r.heap) ELSE RF(Null, heap)
    ELSE IF name = "stringFromCharCode" THEN
        IF \A i \in 1..Len(args) : args[i].t = "num" /\ IsQ(args[i]) /\ args[i].d = 1 /\ args[i].n >= 0 /\ args[i].n < 1114112
        THEN R(Str([i \in 1..Len(args) |-> args[i].n]), heap)
        ELSE IF \A i \in 1..Len(args) : args[i].t # "num" \/ IsQ(args[i]) THEN RF(Null, heap) ELSE SkipR(heap)
    ELSE IF name \in {"mathMax", "mathMin"} THEN
        IF args = <<>> THEN R(Null, heap)
        ELSE IF \E i \in 1..Len(args) : ~Concrete(args[i]) THEN SkipR(heap)
        ELSE LET sgn == IF name = "mathMax" THEN 1 ELSE -1
                 best == CHOOSE i \in 1..Len(args) :
                            /\ \A j \in 1..Len(args) : sgn * Compare(args[i], args[j], heap) >= 0
                            /\ \A j \in 1..(i - 1) : sgn * Compare(args[j], args[i], heap) < 0
             IN R(args[best], heap)
    ELSE IF name \notin PureNames THEN Unmodelled(heap)
    ELSE IF \E i \in 1..Len(args) : ~Concrete(args[i]) THEN SkipR(heap)
    ELSE LET sig == Signatures[name]
             val == Validate(sig, args, heap)
             fail == IF name = "objectGet" /\ Len(args) >= 3 THEN args[3] ELSE sig.fail
         IN IF ~val.ok THEN RF(fail, heap)
            ELSE IF name = "systemIs" /\ SystemIsOpen(val.vs) THEN R(AnyVal, heap)
            ELSE IF name \in {"arrayIndexOf", "arrayLastIndexOf"} /\ val.vs[2].t = "fn" THEN Unmodelled(heap)
            ELSE LibPureOK(name, val.vs, heap, off)
=============================================================================
