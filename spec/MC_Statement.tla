---------------------------- MODULE MC_Statement ----------------------------
(* Leg A of X05: BareStatement.Classify on EVERY line over a small character alphabet up to MaxLen characters:
   the classification is total, the spans it hands to the expression parser lie inside the line and never contain the
   syntax around them, names are identifiers, and the form does not depend on blanks at either end of the line.     *)
EXTENDS BareStatement, TLC

CONSTANT MaxLen
\* i f e l s : = ( ) a blank #        ("if", "else", "elif", labels, assignments, calls, comments)
Chars == {105, 102, 101, 108, 115, 58, 61, 40, 41, 97, 32, 35}
Lines == UNION { [1..n -> Chars] : n \in 0..MaxLen }
VARIABLE l
Init == l \in Lines
Next == UNCHANGED l
Spec == Init /\ [][Next]_l

K == Classify(l)
Forms21 == {"comment", "assign", "function", "endfunction", "if", "elif", "else", "endif", "while", "endwhile", "for", "endfor",
            "break", "continue", "label", "jump", "jumpif", "return", "include", "includesys", "expr"}
Total == K.k \in Forms21
IsIdent(s) == s # <<>> /\ IsAlpha(s[1]) /\ \A i \in 1..Len(s) : IsWord(s[i])
SpanInside == (K.s = 0 /\ K.e = 0) \/ (1 <= K.s /\ K.s <= K.e /\ K.e <= Len(l))
NamesAreIdentifiers == (K.k \in {"assign", "label", "jump", "jumpif", "for", "function"} => IsIdent(K.name))
\* a block header ends in ":" (after optional blanks) and its expression does not include that colon
HeaderShape == K.k \in {"if", "elif", "while", "for"} =>
                   (LastNonBlank(l) > K.e /\ l[LastNonBlank(l)] = 58 /\ (~IsSp(l[K.s]) \/ K.s = K.e))
\* an assignment's expression starts after the "="
AssignShape == K.k = "assign" => \E j \in 1..(K.s - 1) : l[j] = 61
\* blanks at the ends do not change the form (the span may move)
Padded(x) == <<32>> \o x \o <<32, 9>>
\* (one corner: "a=" is an expression statement, " a= " an assignment of the text " " - a syntax error either way)
EndsWithEq == LastNonBlank(l) > 0 /\ l[LastNonBlank(l)] = 61
BlankInsensitive == ~EndsWithEq => Classify(Padded(l)).k = K.k
\* a comment is exactly a blank line or a line whose first non-blank character is "#"
CommentIff == (K.k = "comment") <=> (Sp(l, 1) > Len(l) \/ l[Sp(l, 1)] = 35)
=============================================================================
