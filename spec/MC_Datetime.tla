---------------------------- MODULE MC_Datetime ----------------------------
(* C16 leg A: the calendar arithmetic of the reference layer is self-consistent:
   CivilFromDays inverts DaysFromCivil on every day of a range of years that contains leap years, century
   non-leap years and a 400-year leap year; the code-shaped roll-over of datetimeNew (borrow / carry one
   month at a time) equals Normalize on a boundary grid; ISO format / parse round-trip around every
   transition of a zone with a gap, a fold and a 30-minute rule.                                       *)
EXTENDS BareText
Years == {100, 1900, 1999, 2000, 2023, 2024, 2100, 2400, 9000, 9999}
VARIABLES y, m, d, k
vars == <<y, m, d, k>>
Init == y \in Years /\ m \in -3..16 /\ d \in {-400, -31, -1, 0, 1, 28, 29, 30, 31, 32, 60, 366, 400} /\ k \in {-5000, -25, -1, 0, 1, 23, 24, 25, 59, 60, 61, 999, 1000, 5000}
Next == UNCHANGED vars
Spec == Init /\ [][Next]_vars
\* code-shaped roll-over (as datetimeNew does it): month into year, then days one month at a time
RECURSIVE RollDays(_, _, _, _)
RollDays(yy, mm, dd, fuel) ==
    IF fuel = 0 THEN [y |-> yy, m |-> mm, d |-> dd]
    ELSE IF dd < 1 THEN LET py == IF mm = 1 THEN yy - 1 ELSE yy  pm == IF mm = 1 THEN 12 ELSE mm - 1 IN
                        IF py < 1 THEN [y |-> 0, m |-> 1, d |-> 1] ELSE RollDays(py, pm, dd + DaysInMonth(py, pm), fuel - 1)
    ELSE IF dd > DaysInMonth(yy, mm) THEN LET ny == IF mm = 12 THEN yy + 1 ELSE yy  nm == IF mm = 12 THEN 1 ELSE mm + 1 IN
                        IF ny > 9999 THEN [y |-> 0, m |-> 1, d |-> 1] ELSE RollDays(ny, nm, dd - DaysInMonth(yy, mm), fuel - 1)
    ELSE [y |-> yy, m |-> mm, d |-> dd]
RollOver ==
    LET hcarry == k \div 24
        mz == m - 1
        yy == y + (mz \div 12)
        mm == (mz % 12) + 1
        r == IF yy >= 1 /\ yy <= 9999 THEN RollDays(yy, mm, d + hcarry, 800) ELSE [y |-> 0, m |-> 1, d |-> 1]
        n == Normalize(y, m, d, k, 0, 0, 0)
    IN IF r.y = 0 THEN TRUE
       ELSE n.ok /\ CivilFromDays(n.d) = r /\ n.ms = (k % 24) * 3600000
Inverse == LET n == Normalize(y, 1, d, 0, 0, 0, 0) IN n.ok => DaysFromCivil(CivilFromDays(n.d).y, CivilFromDays(n.d).m, CivilFromDays(n.d).d) = n.d
\* a synthetic zone: +60 until 2024-03-10T01:00Z, then +120 (gap), back to +60 at 2024-11-03T00:00Z (fold), then +90
D0 == DaysFromCivil(2024, 3, 10)
D1 == DaysFromCivil(2024, 11, 3)
D2 == DaysFromCivil(2025, 1, 1)
ZoneT == << [fromD |-> 0, fromMs |-> 0, off |-> 60], [fromD |-> D0, fromMs |-> 3600000, off |-> 120],
            [fromD |-> D1, fromMs |-> 0, off |-> 60], [fromD |-> D2, fromMs |-> 0, off |-> 90] >>
ZoneRoundTrip ==
    \A base \in {D0, D1, D2} : \A mins \in {-181, -121, -61, -60, -1, 0, 1, 59, 60, 61, 119, 120, 121, 181} :
        LET l == Shift(base, 0, mins + (k % 7)) IN
        \A o \in ValidOffsets(ZoneT, l.d, l.ms) :
            LET u == Shift(l.d, l.ms, -o)
                back == Shift(u.d, u.ms, OffsetAtUTC(ZoneT, 1, u.d, u.ms))
            IN back = l
=============================================================================
