---------------------------- MODULE ScopeAlphabet ----------------------------
(* Alphabet for the exhaustive scoping / calling-convention instance (C04): statement lists
   over assignments, calls with 0..4 arguments, functions with 0..3 parameters (optionally a
   trailing "..." parameter), name collisions between locals, globals, library names and
   script-defined functions.                                                              *)
EXTENDS BareCore, Json

V(n) == [k |-> "var", v |-> n]
Nm(n) == [k |-> "num", v |-> IntV(n)]
Bin(op, l, r) == [k |-> "bin", op |-> op, l |-> l, r |-> r]
CallE(name, args) == [k |-> "call", name |-> name, args |-> args, noargs |-> FALSE]
ExprS(e) == [k |-> "expr", name |-> "", e |-> e]
Assign(n, e) == [k |-> "expr", name |-> n, e |-> e]
RetE(e) == [k |-> "return", hasE |-> TRUE, e |-> e]
Fun(name, args, last, body) == [k |-> "function", name |-> name, args |-> args, last |-> last, body |-> body]
P(id, e) == CallE("probe", <<Nm(id), e>>)

\* function bodies observe their parameters, a global (gv) and assign a local that shadows a global
BodyXY == << Assign("x", Bin("+", V("x"), Nm(10))), ExprS(P(1, V("x"))), ExprS(P(2, V("y"))),
             ExprS(P(16, CallE("if", <<V("x"), V("x"), V("gv")>>))), ExprS(P(17, CallE("if", <<V("y"), V("gv"), V("x")>>))),   \* if() branches read the locals
             ExprS(P(3, V("gv"))), Assign("gv", Nm(99)), ExprS(P(4, V("gv"))), RetE(V("x")) >>
BodyRest == << ExprS(P(5, V("p"))), ExprS(P(6, CallE("arrayLength", <<V("rest")>>))), ExprS(P(7, V("rest"))), RetE(V("rest")) >>
BodyNone == << Assign("loc", Nm(1)), ExprS(P(8, V("loc"))), ExprS(P(9, V("x"))) >>
BodyCallsFf == << Assign("x", Nm(5)), Assign("r", CallE("ff", <<V("x"), V("x"), V("x")>>)), ExprS(P(10, V("x"))), RetE(V("r")) >>
BodyLib == << ExprS(P(11, Nm(0))), RetE(Nm(42)) >>
\* the "..." array belongs to the call: what one call pushes onto it is not there in the next call
BodyRestPush == << ExprS(P(12, CallE("arrayLength", <<V("rest")>>))), ExprS(CallE("arrayPush", <<V("rest"), Nm(7)>>)),
                   RetE(CallE("arrayLength", <<V("rest")>>)) >>

\* a function that re-enters the global partial of itself: every call through a partial gets ITS OWN argument list
\* (bound arguments first, then the arguments of that call)
BodyRp == << ExprS(P(13, V("pa"))), ExprS(P(14, V("pb"))),
             [k |-> "jump", label |-> "Ld", hasE |-> TRUE, e |-> Bin(">=", V("pb"), Nm(2))],
             Assign("t", CallE("pp", <<Bin("+", V("pb"), Nm(1)), Nm(77)>>)), ExprS(P(15, V("pb"))),
             [k |-> "label", v |-> "Ld"], RetE(V("pa")) >>

Alphabet == <<
    Assign("x", Nm(1)), Assign("gv", Nm(7)),
    Assign("r", CallE("ff", <<>>)), Assign("r", CallE("ff", <<V("x")>>)),
    Assign("r", CallE("ff", <<Nm(1), Nm(2)>>)), Assign("r", CallE("ff", <<Nm(1), Nm(2), Nm(3), Nm(4)>>)),
    Assign("r", CallE("gg", <<Nm(1)>>)),
    Assign("r", CallE("arrayNew", <<CallE("ff", <<>>), CallE("ff", <<>>), CallE("ff", <<Nm(1)>>)>>)),      \* three calls in one statement
    Assign("r", CallE("arrayLength", <<CallE("arrayNew", <<Nm(1), Nm(2)>>)>>)),
    Assign("fv", V("ff")), Assign("r", CallE("fv", <<Nm(3)>>)),
    ExprS(P(20, V("x"))), ExprS(P(21, V("r"))), ExprS(P(22, V("gv"))), ExprS(P(23, V("loc"))),
    Assign("arrayLength", Nm(5)),
    Fun("ff", <<"x", "y">>, FALSE, BodyXY),
    Fun("ff", <<"p", "rest">>, TRUE, BodyRest),
    Fun("ff", <<"rest">>, TRUE, BodyRest),
    Fun("ff", <<>>, FALSE, BodyNone),
    Fun("ff", <<"rest">>, TRUE, BodyRestPush),
    Fun("gg", <<"x">>, FALSE, BodyCallsFf),
    Fun("rp", <<"pa", "pb">>, FALSE, BodyRp),
    Assign("r", CallE("arrayNew", <<CallE("systemGlobalSet", <<[k |-> "str", v |-> <<112, 112>>], CallE("systemPartial", <<V("rp"), Nm(10)>>)>>),
                                    CallE("pp", <<Nm(0)>>)>>)),
    Fun("arrayLength", <<"a">>, FALSE, BodyLib) >>

Tuples(n) == UNION { [1..k -> 1..Len(Alphabet)] : k \in 1..n }
ProgOf(ix) == [j \in 1..Len(ix) |-> Alphabet[ix[j]]]
G0 == ("gv" :> IntV(0)) @@ ("probe" :> HostFn("probe"))
Names0 == [gv |-> <<103, 118>>, pp |-> <<112, 112>>]
PrintAlphabet == PrintT(<<"ALPHABET", ToJson(Alphabet)>>)
=============================================================================
