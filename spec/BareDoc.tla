---------------------------- MODULE BareDoc ----------------------------
(* The documentation tool (src/bare_script/baredoc.py main) - coverage beyond the listed properties (check id X03).

   Two layers:
     Classify(line)   character level: what a source line is for the tool
                        [k "key", key, text] | [k "arg", name, text] | [k "unknown", what] | [k "other"]
                      ( "#" or "//" comment, "$function:" "$group:" "$doc:" "$return:" "$arg NAME:" ; ONE blank after the
                        colon belongs to the syntax, the rest of the line is the text; any other "$...:" comment is an
                        invalid documentation comment )
     DocStep          the tool's state machine, one action per line; the state is (functions, current function, errors)
                      and is carried from one file to the next (FunctionCarriesAcrossFiles - a keyword at the top of the
                      second file attaches to the last function of the first file; modelled as the code does it)
     Finish           validation: no functions / missing group / missing documentation; the output is either the error
                      list (exit status 1) or the model sorted by function name (exit status 0)

   Functions are records [name, hasGroup, group, doc, ret, args] with doc / ret sequences of text lines (empty = absent)
   and args a sequence of [name, doc].  Errors are records [file, line, kind, arg] (file <<>> / line 0 for the final ones);
   every text, name and file name is a sequence of code points. *)
EXTENDS Integers, Sequences, FiniteSets

IsSpace(c) == c \in {32, 9}
RECURSIVE SkipSp(_, _)
SkipSp(l, i) == IF i <= Len(l) /\ IsSpace(l[i]) THEN SkipSp(l, i + 1) ELSE i
From(l, i) == IF i > Len(l) THEN <<>> ELSE SubSeq(l, i, Len(l))
StartsWith(l, p) == Len(l) >= Len(p) /\ SubSeq(l, 1, Len(p)) = p
Trim(t) == LET a == SkipSp(t, 1) IN
           IF a > Len(t) THEN <<>>
           ELSE LET b == CHOOSE j \in a..Len(t) : ~IsSpace(t[j]) /\ \A k \in (j + 1)..Len(t) : IsSpace(t[k]) IN SubSeq(t, a, b)
\* one optional blank after the colon is syntax
AfterColon(raw) == IF raw # <<>> /\ IsSpace(raw[1]) THEN Tail(raw) ELSE raw

KwFunction == <<102, 117, 110, 99, 116, 105, 111, 110, 58>>       \* "function:"
KwGroup    == <<103, 114, 111, 117, 112, 58>>
KwDoc      == <<100, 111, 99, 58>>
KwReturn   == <<114, 101, 116, 117, 114, 110, 58>>
KwArg      == <<97, 114, 103>>
IsAlpha(c) == (c >= 65 /\ c <= 90) \/ (c >= 97 /\ c <= 122) \/ c = 95
IsAlnum(c) == IsAlpha(c) \/ (c >= 48 /\ c <= 57)
RECURSIVE NameEnd(_, _)
NameEnd(l, i) == IF i <= Len(l) /\ IsAlnum(l[i]) THEN NameEnd(l, i + 1) ELSE i     \* first index after the identifier
FirstColon(l) == IF \E i \in 1..Len(l) : l[i] = 58 THEN CHOOSE i \in 1..Len(l) : l[i] = 58 /\ \A j \in 1..(i - 1) : l[j] # 58 ELSE 0

KeyCps(key) == CASE key = "group" -> <<103, 114, 111, 117, 112>> [] key = "doc" -> <<100, 111, 99>>
                 [] key = "return" -> <<114, 101, 116, 117, 114, 110>> [] OTHER -> <<102, 117, 110, 99, 116, 105, 111, 110>>
Other == [k |-> "other"]
ClassifyRest(r) ==      \* r: what follows the "$"
    IF StartsWith(r, KwFunction) THEN [k |-> "key", key |-> "function", text |-> AfterColon(From(r, Len(KwFunction) + 1))]
    ELSE IF StartsWith(r, KwGroup) THEN [k |-> "key", key |-> "group", text |-> AfterColon(From(r, Len(KwGroup) + 1))]
    ELSE IF StartsWith(r, KwDoc) THEN [k |-> "key", key |-> "doc", text |-> AfterColon(From(r, Len(KwDoc) + 1))]
    ELSE IF StartsWith(r, KwReturn) THEN [k |-> "key", key |-> "return", text |-> AfterColon(From(r, Len(KwReturn) + 1))]
    ELSE LET a == IF StartsWith(r, KwArg) /\ Len(r) >= 4 /\ IsSpace(r[4]) THEN SkipSp(r, 4) ELSE 0        \* start of the name
             e == IF a > 0 /\ a <= Len(r) /\ IsAlpha(r[a]) THEN NameEnd(r, a) ELSE 0
             e2 == IF e > 0 /\ e + 2 <= Len(r) /\ r[e] = 46 /\ r[e + 1] = 46 /\ r[e + 2] = 46 THEN e + 3 ELSE e   \* optional "..."
         IN IF e > 0 /\ e2 <= Len(r) /\ r[e2] = 58
            THEN [k |-> "arg", name |-> SubSeq(r, a, e2 - 1), text |-> AfterColon(From(r, e2 + 1))]
            ELSE IF FirstColon(r) >= 2 THEN [k |-> "unknown", what |-> SubSeq(r, 1, FirstColon(r) - 1)]
            ELSE Other
Classify(l) ==
    LET i0 == SkipSp(l, 1)
        i1 == IF i0 <= Len(l) /\ l[i0] = 35 THEN i0 + 1
              ELSE IF i0 + 1 <= Len(l) /\ l[i0] = 47 /\ l[i0 + 1] = 47 THEN i0 + 2 ELSE 0
        i2 == IF i1 > 0 THEN SkipSp(l, i1) ELSE 0
    IN IF i1 > 0 /\ i2 <= Len(l) /\ l[i2] = 36 THEN ClassifyRest(From(l, i2 + 1)) ELSE Other

(* ---- the state machine ---- *)
Doc0 == [funcs |-> <<>>, cur |-> 0, errors |-> <<>>]       \* funcs in definition order; cur = index into funcs (0: none)
Err(file, line, kind, arg) == [file |-> file, line |-> line, kind |-> kind, arg |-> arg]
AddErr(d, e) == [d EXCEPT !.errors = Append(@, e)]
FuncIndex(funcs, name) == IF \E i \in 1..Len(funcs) : funcs[i].name = name THEN CHOOSE i \in 1..Len(funcs) : funcs[i].name = name ELSE 0
ArgIndex(args, name) == IF \E i \in 1..Len(args) : args[i].name = name THEN CHOOSE i \in 1..Len(args) : args[i].name = name ELSE 0

DocStep(d, file, n, line) ==
    LET c == Classify(line) IN
    IF c.k = "key" THEN
        LET tt == Trim(c.text) IN
        IF c.key # "function" /\ d.cur = 0 THEN AddErr(d, Err(file, n, "outside", KeyCps(c.key)))
        ELSE IF c.key = "group" THEN
            IF tt = <<>> THEN AddErr(d, Err(file, n, "badgroup", <<>>))
            ELSE IF d.funcs[d.cur].hasGroup THEN AddErr(d, Err(file, n, "groupredef", d.funcs[d.cur].name))
            ELSE [d EXCEPT !.funcs[d.cur].hasGroup = TRUE, !.funcs[d.cur].group = tt]
        ELSE IF c.key = "doc" THEN
            \* leading blank documentation lines are dropped; the text is kept as written (not trimmed)
            IF d.funcs[d.cur].doc = <<>> /\ tt = <<>> THEN d ELSE [d EXCEPT !.funcs[d.cur].doc = Append(@, c.text)]
        ELSE IF c.key = "return" THEN
            IF d.funcs[d.cur].ret = <<>> /\ tt = <<>> THEN d ELSE [d EXCEPT !.funcs[d.cur].ret = Append(@, c.text)]
        ELSE \* function
            IF tt = <<>> THEN AddErr(d, Err(file, n, "badname", <<>>))
            ELSE IF FuncIndex(d.funcs, tt) # 0 THEN AddErr(d, Err(file, n, "redef", tt))
            ELSE [d EXCEPT !.funcs = Append(@, [name |-> tt, hasGroup |-> FALSE, group |-> <<>>, doc |-> <<>>, ret |-> <<>>, args |-> <<>>]),
                           !.cur = Len(d.funcs) + 1]
    ELSE IF c.k = "arg" THEN
        IF d.cur = 0 THEN AddErr(d, Err(file, n, "argoutside", c.name))
        ELSE LET ai == ArgIndex(d.funcs[d.cur].args, c.name) IN
             IF ai = 0 /\ Trim(c.text) = <<>> THEN d
             ELSE IF ai = 0 THEN [d EXCEPT !.funcs[d.cur].args = Append(@, [name |-> c.name, doc |-> <<c.text>>])]
             ELSE [d EXCEPT !.funcs[d.cur].args[ai].doc = Append(@, c.text)]
    ELSE IF c.k = "unknown" THEN AddErr(d, Err(file, n, "unknown", c.what))
    ELSE d

RECURSIVE DocLines(_, _, _, _)
DocLines(d, file, lines, n) == IF n > Len(lines) THEN d ELSE DocLines(DocStep(d, file, n, lines[n]), file, lines, n + 1)
\* files: sequence of [name, missing, lines]
RECURSIVE DocFiles(_, _, _)
DocFiles(d, files, k) ==
    IF k > Len(files) THEN d
    ELSE IF files[k].missing THEN DocFiles(AddErr(d, Err(files[k].name, 0, "load", files[k].name)), files, k + 1)
    ELSE DocFiles(DocLines(d, files[k].name, files[k].lines, 1), files, k + 1)

\* lexicographic order of code point sequences
RECURSIVE Less(_, _)
Less(a, b) == IF a = <<>> THEN b # <<>> ELSE IF b = <<>> THEN FALSE
              ELSE IF a[1] # b[1] THEN a[1] < b[1] ELSE Less(Tail(a), Tail(b))
RECURSIVE SortedFuncs(_)
SortedFuncs(S) == IF S = {} THEN <<>>
                  ELSE LET m == CHOOSE f \in S : \A g \in S : g = f \/ Less(f.name, g.name) IN <<m>> \o SortedFuncs(S \ {m})
FuncSet(d) == { d.funcs[i] : i \in 1..Len(d.funcs) }
RECURSIVE FinalErrs(_, _)
FinalErrs(fs, i) ==
    IF i > Len(fs) THEN <<>>
    ELSE (IF ~fs[i].hasGroup THEN <<Err(<<>>, 0, "missinggroup", fs[i].name)>> ELSE <<>>)
         \o (IF fs[i].doc = <<>> THEN <<Err(<<>>, 0, "missingdoc", fs[i].name)>> ELSE <<>>) \o FinalErrs(fs, i + 1)
Finish(d) ==
    LET fs == SortedFuncs(FuncSet(d))
        errs == d.errors \o (IF fs = <<>> THEN <<Err(<<>>, 0, "nofuncs", <<>>)>> ELSE <<>>) \o FinalErrs(fs, 1)
    IN [status |-> IF errs = <<>> THEN 0 ELSE 1, errors |-> errs, funcs |-> fs]
DocRun(files) == Finish(DocFiles(Doc0, files, 1))
=============================================================================
