#!/usr/bin/env python3
"""Writes seeded/README.md from seeded/*/meta.json (fields: property, summary, needs, files, detection)."""
import glob
import json
import os

VERIF = os.path.dirname(os.path.dirname(os.path.abspath(__file__)))
rows = []
for p in sorted(glob.glob(os.path.join(VERIF, 'seeded', '*', 'meta.json'))):
    m = json.load(open(p))
    d = m.get('detection', {})
    rows.append((os.path.basename(os.path.dirname(p)), m.get('property', '?'), m.get('summary', ''), m.get('needs', ''),
                 (', '.join(f"{k}: {v}" for k, v in sorted(d.items())) or 'not run') + (' — ' + m['history'] if m.get('history') else '')))
with open(os.path.join(VERIF, 'seeded', 'README.md'), 'w') as fh:
    fh.write('# Seeded changes and which check catches them\n\n'
             'Each directory holds a change to craigahobbs/bare-script-py written by a fresh sub-agent that saw only the property text\n'
             '(`patch.diff`), its demonstration (`demo.py`: exit 0 without the change, 1 with it) and `meta.json`. The unedited test suite\n'
             'passes with every change applied. `detection` records the quick-tier result of the named checks with the patch applied to /repo\n'
             '(`bin/try_seed`): exit 1 = VIOLATION reported.\n\n| dir | property | change | needs | detection |\n|---|---|---|---|---|\n')
    for r in rows:
        fh.write('| ' + ' | '.join(str(x).replace('|', '/').replace('\n', ' ') for x in r) + ' |\n')
print(len(rows), 'seeded changes')
