#!/usr/bin/env python3
"""Writes /verif/MANIFEST.json from the table below (single source of truth for the interface)."""
import json
import os

VERIF = os.path.dirname(os.path.dirname(os.path.abspath(__file__)))
ALL = [f'C{i:02d}' for i in range(1, 21)]

CHECKS = {
    'C08': dict(
        technique='TLA+ spec BareCore (definitional jump machine) + TLC exhaustive model checking of MC_Jump + '
                  'TLC trace validation (Trace_Core) of recorded real execute_script runs',
        text='TLC explores every statement list up to length N over a fixed alphabet as behaviours of the BareCore '
             'statement machine (invariants PcInRange/BudgetInv/EndInv, action properties, liveness); the same family '
             '(exhaustive) plus sampled longer lists and random 40-statement models are executed twice by the real '
             'execute_script and every recorded run (events with statement counters, result, error class, final '
             'globals, model deep-equality, rerun equality) must be a behaviour of the specification.',
        note='Trusted: TLC/SANY, CommunityModules Json, harness/abstraction.py (alpha/gamma), harness/realrun.py. '
             'Runs whose values leave the exact dyadic number domain are SKIPped (counted), never judged.',
        ref='DESIGN.md 5 C08'),
    'C09': dict(
        technique='TLC self-composition model checking (MC_Budget) and liveness (MC_Jump) + Apalache inductive invariant (BudgetInd) + TLC trace validation of '
                  'real runs under every limit (Trace_Core) + budget laws evaluated by TLC on recorded run families '
                  '(Trace_Budget)',
        text='MC_Budget runs every statement list <= N under a limit and without one in lock step and checks Exact, '
             'SameWhileRunning, PrefixInv, SameWhenWithin, AbortJustified; MC_Jump checks termination under fairness for '
             'positive limits; Apalache discharges the inductive invariant of the abstract counter machine BudgetInd (unbounded). Real programs (jump lists, loops, recursion, library callbacks, data-helper expressions '
             'with and without variables, nested includes) are executed under every limit 1..N+2 and 0; each run must be a '
             'behaviour of BareCore with the exact counter at every probe, and each family must satisfy the budget laws.',
        note='Trusted: TLC, alpha/gamma, the real parser for the structured C09 programs (their lowering is C01\'s '
             'subject). Programs using functions without a functional model are judged by the family laws only.',
        ref='DESIGN.md 5 C09'),
    'C03': dict(
        technique='TLA+ definitional evaluator (BareCore.Eval/BinOp/UnOp) + TLC exhaustive operator-matrix and effect-order '
                  'model checking (MC_Expr) + TLC trace validation of real evaluate_expression / execute_script runs '
                  '(Trace_Core) + alias law (Trace_Alias)',
        text='MC_Expr checks closure, sign-test and null-for-unsupported-type laws on the full operator x representative^2 '
             'matrix and the left-to-right / at-most-once / laziness laws on all depth-2 trees with numbered probe leaves. '
             'The same matrix and trees, plus random depth-6 trees over operands of all nine types with probes, are '
             'evaluated by the real code in expression and statement mode; every recorded run (probe order and values, '
             'result) must be a behaviour of the specification. Each of the 46 expression built-ins is compared with the '
             'library function the documented table names.'
             ' Dedicated families: datetime arithmetic at millisecond and microsecond distances and with far-out-of-range offsets, array ordering, objects with permuted keys, calls of non-functions with effectful arguments.',
        note='Numeric accuracy of / % ** outside the exact dyadic domain is not judged (type-level wildcard); % with a '
             'negative operand and division by zero are allowed sets (DESIGN Appendix A5).',
        ref='DESIGN.md 5 C03'),
    'C04': dict(
        technique='TLA+ frames/lookup/binding semantics (BareCore) + TLC exhaustive model checking of MC_Scope (action '
                  'properties GlobalsFrame, FunctionBinds) + TLC trace validation of real runs under host configurations',
        text='MC_Scope explores every statement list <= N over an alphabet of assignments, functions with 0-3 parameters '
             '(optional "..."), calls with 0-4 arguments and local/global/library name collisions and checks that globals '
             'change only by top-level assignment or function definition. The same family under four host configurations '
             '(pre-populated globals shadowing library names with values and functions), random programs with up to 4 '
             'functions, partials, match-function callbacks and systemGlobalGet/Set, and expression-mode cases with locals '
             'and globals shadowing built-ins are run by the real code; probes and the final globals object must match.'
             ' Random programs also go through source text with free blanks in function headers; host configurations bind library names to null and shadow single library names; the alphabet has a rest-array mutator, a re-entrant partial and if() over locals.',
        note='arraySort comparison callbacks are outside the functional model (call pattern unspecified, A28): such runs are '
             'SKIPped. Reserved names (if/true/false/null) are never used as bindings.',
        ref='DESIGN.md 5 C04'),
    'C05': dict(
        technique='TLC trace validation (Trace_Core): the finish event of every recorded real run must be producible by the '
                  'specification (documented exception classes only, no alien values); functional comparison where modelled',
        text='Operators over adversarial operand pairs, every function of the real SCRIPT_FUNCTIONS table x argument tuples '
             'of length 0..2 (3 in the thorough tier) over one representative per type plus boundary numbers with debug '
             'on/off, and random programs with failing host functions are executed by the real code; a run is rejected '
             'when any exception other than BareScriptRuntimeError/BareScriptParserError escapes, when a non-BareScript '
             'value (e.g. complex) is returned, or - where BareCore models the function - when result, failure value or '
             'debug-mode failure report differ from the specification.'
             ' Comparison operators are applied to the adversarial operands too; systemFetch is called on every short list of good / missing / throwing locations; host functions fail with six exception types (with and without arguments).',
        note='Functions without a functional model (regex*, schema*, data*, datetime*, json*, math transcendentals, fetch) '
             'are judged for containment only. Library arguments are capped at 1e6 and integer powers with astronomically '
             'large integer exponents are excluded (resource exhaustion is not part of C05).',
        ref='DESIGN.md 5 C05'),
    'C01': dict(
        technique='TLA+ two-layer spec: structured big-step meaning (BareCore.ExecBlock) vs lowering + jump machine '
                  '(BareLower.Lower, BareCore.Run); TLC equivalence model checking over the exhaustive program family '
                  '(MC_Struct) + TLC trace validation of real parse_script+execute_script runs against ExecBlock (Trace_Struct)',
        text='TLC checks on every program of StructFamily (all chains of the 16 positioned constructs - 8 if forms, 3 forms with EMPTY arms before else / elif, while, for, for with index, value-conditioned while - x loop tails x 7 contexts incl. functions defined inside blocks, '
             'depth 2; depth 3 in the thorough tier) x inputs that the structured meaning and the jump machine on the lowering '
             'agree on result, probe sequence and globals. Every program of the family under a covering input set, and random '
             'programs to depth 5 with up to 3 functions, are rendered to source text, parsed and executed by the real code; '
             'each recorded run must be a behaviour of the structured meaning (probes inside conditions make the number of '
             'condition evaluations observable). A rejected trace is attributed to the open finding F7 only if the '
             'implementation-shaped layer with exactly the WhileContinueSkipsTest deviation accepts it.',
        note='Bodies that mutate the iterated array are left to C15; the index variable after an exhausted for loop is an '
             'allowed set (A20). Known finding F7 (while+continue) is reported as KNOWN-FINDING, see KNOWN_FINDINGS.txt.',
        ref='DESIGN.md 5 C01'),
    'C07': dict(
        technique='TLC model checking of WellFormed(Lower(p)) over the program family (MC_Struct invariant WF) + TLC evaluation of '
                  'WellFormed on the REAL parse_script output (Trace_WF) with validate_script / lint_script observations',
        text='WellFormed (per scope: every reserved-prefix jump target defined exactly once in that scope, every reserved label '
             'targeted) is an invariant of the lowering for every program of StructFamily; the real parser\'s model of every '
             'enumerated program and of random deeper programs is converted by alpha and WellFormed is evaluated on it by TLC; '
             'the real validate_script must accept it and lint_script must report no label warning.',
        note='Depth 2 family in the quick tier (4.7k programs incl. contexts), depth 3 (innermost level: 7 representative constructs) in the thorough tier; random programs '
             'to depth 6 / 7. Label names are classified as reserved by their __bareScript prefix in alpha.',
        ref='DESIGN.md 5 C07'),
    'C02': dict(
        technique='TLA+ two-layer spec of expression syntax (reference PrecTree vs the parser\'s ReorderStep fold) + TLC model '
                  'checking over all operator chains (MC_ExprSyntax) + TLC comparison of real parse_expression trees with '
                  'Denote(flat) and of accept/reject with the token grammar (Trace_Expr)',
        text='TLC takes the parser\'s fold-with-rotation one operator per step over all 14^k chains (k <= 4; 5 thorough) and checks '
             'SpineOrdered, equality with PrecTree on every prefix and at the end. Every chain up to length 3 (4 thorough) x operand '
             'forms (atom, -a, !a, group, call) x layouts, sampled longer chains, random flat expressions to depth 8 (number '
             'spellings, both string quotings with escapes, bracketed names, calls, groups) are parsed by the real '
             'parse_expression and the tree must equal Denote(flat) computed by TLC; random token strings must be accepted iff '
             'the token-level grammar accepts them, rejections must be BareScriptParserError.',
        note='Lexing is specified at token level with a fixed rendering (unary minus binds before a signed number literal; a '
             'name of >= 2 characters followed by "(" opens a call).',
        ref='DESIGN.md 5 C02'),
    'C17': dict(
        technique='TLA+ include machine in BareCore (resolution against the containing file, include stack) vs a structural '
                  'statement of the property (MC_Include.Expected) checked by TLC over all trees of a small VFS family + TLC '
                  'trace validation of real runs with a recording fetchFn (Trace_Core)',
        text='TLC enumerates include trees over a VFS with nested directories, absolute path, URL and system targets, missing / '
             'throwing / broken files, early returns and merged adjacent includes and checks that the machine agrees with the '
             'structural recursion Expected (fetch order = program order, one fetch per statement, return ends only the included '
             'script, errors name the resolved location) and that BaseRestored holds on every step. The same trees and random '
             'trees to depth 4 / fan-out 3 (URL / path / absolute / no base, system prefix variants, includes inside function '
             'bodies) run in the real code; fetch sequence, probes, globals, error class and named location must match.',
        note='Paths are POSIX; "." and ".." segments are not generated (the code does not normalise them and the property does '
             'not ask it to).',
        ref='DESIGN.md 5 C17'),
    'C11': dict(
        technique='TLA+ total preorder BareValues.Compare + TLC exhaustive law checking over all pairs/triples of an abstract pool '
                  '(MC_Compare) + TLC judgement of the recorded systemCompare matrix (entries and laws) and of consumer results '
                  '(Trace_Compare)',
        text='TLC checks reflexivity, antisymmetry, transitivity, null-first and type-name ordering on every pair and triple of a '
             '48-value abstract pool. A pool of 120 (300 thorough) real values (nested containers to depth 3, date / datetime / '
             'tz-aware datetimes, int / float / bool, empty containers, huge and tiny numbers) is compared pairwise by the real '
             'systemCompare; every entry must equal Compare on the abstract values and the laws are re-checked directly on the '
             'recorded matrix (all triples). The six operators, arraySort, dataSort with directions, mathMin/Max and '
             'arrayIndexOf/LastIndexOf are checked against their contracts stated with Compare.',
        note='NaN is outside the property. Datetimes are compared at millisecond precision (BareScript datetimes carry '
             'milliseconds); int and float spellings of a number map to one abstract number, so the specification cannot '
             'distinguish them.',
        ref='DESIGN.md 5 C11'),
    'C15': dict(
        technique='TLA+ reference model of the array / object / string library on a heap of aliased cells (BareLib: signature table, '
                  'validation, one action per function, frame condition on failure) + TLC trace validation of real call histories '
                  '(Trace_Core) + TLC-judged relations for regexEscape / URL encoding (Trace_LibLaw)',
        text='A history is one script over a pool of aliased containers (alias, copy, nested reference); after every library call a '
             'probe snapshots the result and the whole pool, so results, mutation through aliases, freshness of copies and slices '
             'and unchanged-on-failure are observable. Histories of up to 30 calls over 42 functions with indices -2..len+2 as float '
             'literals (also fractional), wrong-typed / missing / surplus arguments of every type, plus one-call histories per '
             'function, are parsed and executed by the real code and validated step by step against the specification, including '
             'documented failure values and debug-mode failure reports. regexEscape and urlEncode/urlEncodeComponent are judged '
             'as relations (matches exactly s; percent-decoding gives back the UTF-8 of s).'
             ' Every function with index / count parameters is called with ALL combinations of boundary values (and non-number values), every function with one surplus argument, the two-container mutators with aliased arguments.',
        note='Case mapping is specified on ASCII, trim on Latin-1 whitespace (other inputs are SKIPped); Python re is the matcher '
             'for the regexEscape clause; containers are never inserted into themselves (cyclic values are outside the model); '
             'arrayDelete\'s return value and systemIs on equal immutable values are left unspecified.',
        ref='DESIGN.md 5 C15'),
    'C12': dict(
        technique='TLA+ value domain with a single number type + TLC-judged twin law (Trace_Twin: equal outcome, result and '
                  'post-call arguments under the abstraction) + TLC trace validation of script-literal calls (Trace_Core)',
        text='The abstraction maps host int and float spellings of an integral number to one abstract number, so the '
             'specification cannot express a difference. Every library function except clock/random/fetch/log is called with '
             'argument lists generated from its own argument model (index, count, size, radix and digit parameters at their '
             'boundaries; values of all types, also inside containers), with ints, with floats and with a mixed spelling (fresh int objects), through '
             'execute_script; TLC judges each triple. Modelled functions are additionally called from rendered source text '
             '(number literals are parser floats) and validated against BareCore.'
             ' All 16 operators are run as twins too (operands as host ints / floats / mixed; results compared as doubles), and script-function callbacks pass the number spelling of their operands back into the library.',
        note='For functions without a functional model TLC contributes only the equality under the abstraction (a differential '
             'comparison whose comparator is the specification\'s abstraction), as stated in DESIGN.md.',
        ref='DESIGN.md 5 C12'),
    'C14': dict(
        technique='TLA+ char-level RFC 8259 recogniser/evaluator (BareJson.ParseJson, Acceptable) + TLC model checking of the '
                  'reference serialiser (MC_Json: round trip, injectivity) + TLC judgement of real jsonStringify texts and parse-backs '
                  '(Trace_Json)',
        text='For every string of length <= 4 over {a . 0 , ] }} (1555 strings) as value, key and nested element, with indent none '
             'and 1..8, and for random values to depth 5 over an alphabet with quotes, backslashes, slashes, control and non-BMP '
             'characters and boundary numbers, the text produced by the real jsonStringify is parsed by the JSON grammar written '
             'in TLA+ and must denote exactly the value (no character altered), with sorted unique keys and integral numbers '
             'without a fraction; the real jsonParse and Python json.loads must map the text back to the value.'
             ' The result of jsonParse must be fresh (a changed result does not change what parsing the same text gives next); number-like strings and keys, zero-leading fractions and string-free containers are enumerated.',
        note='Injectivity on real outputs follows from the parse-back clause (the text determines the value) and is model-checked '
             'for the reference serialiser; CPython float repr is trusted for the digits of non-integral numbers.',
        ref='DESIGN.md 5 C14'),
    'C13': dict(
        technique='TLA+ spec of the number text layer (BareNumText: repr layout, Cleanup, decimal denotation, literal / float / integer '
                  'grammars) + TLC model checking over all short decimals x all exponents (MC_NumText) + TLC judgement of real '
                  'stringifications and parse results (Trace_NumText)',
        text='TLC checks for every decimal with <= 2 (3) significant digits and every exponent -323..309 that the clean-up of '
             'Python\'s repr layout keeps the denotation, removes the fraction exactly for integral fixed-notation values and yields '
             'a valid source literal and JSON number. Real doubles (boundary values, powers of ten over the whole range, integers '
             'around 2^53 / 1e15 / 1e16 / 1e21, subnormals, -0, uniform random bit patterns, short decimals) are stringified by '
             'concatenation, stringNew, arrayJoin and systemLog; TLC checks that the four texts agree, denote the number, carry no '
             'zero fraction, parse back to the number with numberParseFloat and, for x >= 0, as a source literal. Random strings and '
             'numeric near-misses go through numberParseFloat / numberParseInt (radix 2..36 and invalid radices): number texts must '
             'give their value, everything else null, never a non-finite value.',
        note='That float(repr(x)) == x and that repr is the shortest such text is CPython\'s guarantee (trusted base). Texts with '
             'underscores / non-ASCII digits / 0x-style prefixes are an allowed set (A25).',
        ref='DESIGN.md 5 C13'),
    'C20': dict(
        technique='TLA+ statement of Reconstructs and transcription of the diffLines algorithm (BareDiff) + TLC model checking over '
                  'all pairs of short line lists (MC_Diff) + TLC judgement of the values returned by the real shipped diff.bare '
                  '(Trace_Diff)',
        text='TLC checks that the transcribed algorithm satisfies Reconstructs for all pairs of line lists <= 4 (5) over 3 letters. '
             'The shipped diff.bare is loaded through the CLI system-include fetcher, parsed and executed by the real parser and '
             'runtime for all 14 641 (132 496) pairs as arrays, LF texts, CRLF texts and mixed parts, plus random pairs up to 40 '
             'lines; TLC splits the inputs into lines itself and decides Reconstructs (block types, non-empty blocks, Identical+Remove '
             '= left, Identical+Add = right, identical inputs give no Add/Remove). Every shipped include script must parse, validate '
             'against the schema and be lint-clean.'
             ' Array inputs are built from distinct string objects; a third of the exhaustive pairs use multi-character lines and the empty line.',
        note='The shipped script is executed by the real interpreter, so the check also exercises while/continue/break lowering on a '
             'real program.',
        ref='DESIGN.md 5 C20'),
    'C16': dict(
        technique='TLA+ proleptic-Gregorian calendar and zone arithmetic (BareDatetime: Normalize, CivilFromDays, ValidOffsets) + TLC '
                  'model checking of its self-consistency (MC_Datetime) + TLC judgement of real datetime results recorded in one '
                  'subprocess per time zone (Trace_Datetime)',
        text='TLC checks that the code-shaped month-by-month roll-over equals Normalize on a boundary grid, that CivilFromDays inverts '
             'DaysFromCivil, and that zone conversion round-trips around a gap, a fold and a 30-minute rule. For each of 8 time zones '
             'a subprocess (TZ set, tzset) records datetimeNew over boundary and random components with all seven getters (int and '
             'float spellings), d + n - d for |n| <= 1e12 ms, datetimeISOFormat / datetimeISOParse at +-3 h around every transition '
             '1921-2099 and at random instants, and datetimeISOParse on valid and invalid ISO texts; TLC judges every record against '
             'Normalize, AddMs, the ISO layout at an offset valid for the local time in the extracted zone table, and the ISO grammar.',
        note='The tz database and zoneinfo supply the transition tables (trusted); offsets with seconds (pre-standard-time LMT) are '
             'outside the property; local times in a gap are not judged; one trailing line feed after an ISO text is an allowed set.',
        ref='DESIGN.md 5 C16'),
    'C19': dict(
        technique='TLA+ relational definitions of the data functions (Trace_Data: filter, calculated field, top, aggregate, join, CSV '
                  'round trip) with expressions evaluated by the BareCore evaluator; TLC judges recorded calls of the real functions',
        text='Tables up to 12 rows x 5 fields with duplicate keys, nulls, mixed key types (a datetime next to the string of its ISO '
             'text, 1 / "1" / true, arrays), colliding field names (a, a2, a3), key strings containing JSON punctuation, float counts, '
             'all six aggregate functions and expression pools with and without variables go through the real dataFilter, '
             'dataCalculatedField, dataTop, dataAggregate, dataJoin; typed tables are written as CSV (quoted commas and quotes, '
             'date-like invalid text such as 2024-02-30) and read by the real dataParseCSV. TLC evaluates the relational meaning '
             '(categories = equality under Compare, left-major join with fresh right names, aggregates over non-null values, '
             'order rules) on the recorded inputs and outputs, evaluating row expressions with the specification\'s own evaluator. '
             'dataSort calls (multi-key, directions, python-equal values of different types) are judged with the Compare preorder (Trace_Compare: sorted, stable, a permutation).',
        note='stddev and non-dyadic averages are judged at type level only; whether unmatched left rows are kept is an allowed '
             'set (the isLeftJoin flag is pinned by the suite in the opposite sense of its documentation); CSV cells contain no '
             'line breaks or leading blanks.',
        ref='DESIGN.md 5 C19'),
    'C18': dict(
        technique='TLA+ lint rules as sets and edits (BareLint) + TLC model checking that acting on a warning preserves the specified '
                  'run (MC_Lint) + TLC judgement of the real lint_script output (exact label / redefinition sets, purity) and of '
                  'real runs before / after acting on each actionable warning (Trace_Lint)',
        text='TLC checks on every statement list <= 3 (4) over the jump alphabet that deleting an unused label or pointless statement '
             'and renaming an unused variable or argument leaves result, probe sequence and globals of the specified run unchanged, '
             'and that no unknown label implies no "Unknown jump label" error. The real lint_script runs on every alphabet model, '
             'random jump models with duplicate labels / dangling jumps / duplicate functions and arguments, parsed random '
             'structured programs and the shipped scripts: it must not raise, not modify the model, be deterministic; its '
             'unknown-label and redefinition warnings must equal the sets BareLint defines and its unused-* warnings must be '
             'justified by the rules; for every actionable warning the edit is applied to the real model and both models are run by '
             'the real runtime - status, result, output and final globals must be identical.'
             ' A sample of models with several warnings is linted again in four fresh processes with other string-hash seeds: the ordered warning lists must be identical.',
        note='Used-before-assignment and empty-script warnings are parsed but not judged (the property does not constrain them); '
             'edits are skipped when the function name is defined twice (the warning does not identify the statement).',
        ref='DESIGN.md 5 C18'),
    'C06': dict(
        technique='TLA+ line-level spec (BareLines: char-level LogicalLines, block stack machine vs block grammar, elision / caret '
                  'relation) + TLC model checking (MC_Lines: machine = grammar on all kind sequences, layout invariance) + TLC judgement '
                  'of real parse outcomes and error records (Trace_Lines)',
        text='TLC checks that the parser-shaped block stack machine accepts exactly the sequences of line kinds the block grammar '
             'derives (<= 4, 5 thorough) and that logical-line construction accounts for every code line. All kind sequences up to length '
             '3 (4) with and without a dangling continuation, sampled longer ones and nesting to depth 50 are rendered and parsed: '
             'model iff derivable, else BareScriptParserError. Faults injected at known token gaps of the 8 statement kinds that carry '
             'an expression, in lines of length 0..400 with unique tokens: TLC recomputes the logical lines of the text and requires '
             'the error to name one (text and 1-based number offset by start_line_number), the column to lie between the end of the '
             'last good token + 1 and the fault, and the caret of the (possibly elided) message to sit under that column; prepending '
             'k lines or raising start_line_number must move only the line number, by k. Mutated programs and token soup: totality.'
             ' Structural errors are judged like injected faults (named line, start offsets 1 / 7 / 100); texts of simple statements (repeated lines and includes, continuations, exotic characters inside strings and comments) must yield exactly one statement or include entry per logical line.',
        note='For token soup the specification does not predict which error is raised, only that one is and that it names a '
             'logical line of the text. Statement recognition (which regex a line matches) is taken from the generator\'s line kinds.',
        ref='DESIGN.md 5 C06'),
    'C10': dict(
        technique='TLA+ char-level logical-line construction (BareLines.LogicalLines / LogicalOfChunks / Norm) + TLC model checking of '
                  'layout invariance (MC_Lines) + TLC decides from the two texts that a rewrite is layout-only and then requires equal '
                  'real models (Trace_Lines kind layout)',
        text='Random structured programs and every shipped .bare script are rewritten by random combinations of LF->CRLF, chunking at '
             'line boundaries (<= 6 cuts, passed as an iterable), blank / comment line insertion with probability 0.3 per line (also '
             'inside continued lines, also comments ending in a backslash), indentation changes, trailing blanks and continuation '
             'backslashes at blanks outside quotes and brackets. TLC computes the logical lines of both texts char by char; when they '
             'agree up to blanks the two real parse_script results must be deep-equal, and repeated / interleaved parses must agree.',
        note='A continuation is only inserted where a blank already exists (outside string literals and bracketed names); rewrites '
             'TLC judges not layout-only are counted as SKIP (none on the pinned tree).',
        ref='DESIGN.md 5 C10'),
}

NOT_YET = 'check not built yet in this round (work in progress; see DESIGN.md section 9 build order)'


def main():
    checks = []
    for pid in ALL:
        if pid not in CHECKS:
            continue
        c = CHECKS[pid]
        checks.append({
            'property_id': pid,
            'quick_cmd': f'bin/check {pid} --tier quick',
            'thorough_cmd': f'bin/check {pid} --tier thorough',
            'evidence_file': f'/verif/evidence/{pid}.json',
            'replay_cmd_template': f'bin/check {pid} --replay {{path}}',
            'engine': 'tlc',
            'level_claimed': {'category': 'model_checking', 'text': c['text'], 'design_ref': c['ref']},
            'level_note': c['note'],
            'technique': c['technique'],
        })
    man = {
        'version': 1,
        'setup_cmd': 'bin/setup',
        'hooks': {
            'guard': 'BARE_SCRIPT_PY_VERIF',
            'enable': 'none needed: every observation point is on the public API (return values, exception types, '
                      'logFn, fetchFn, urlFn, globals, statementCount, host functions in globals); bin/check exports '
                      'BARE_SCRIPT_PY_VERIF=1 for uniformity but /repo contains no guarded code',
            'baseline_off_cmd': 'bin/baseline',
            'source_commits': [],
            'add_only': True,
        },
        'engines': [
            {'name': 'tlc', 'path': '/opt/veriftools/tla/tla2tools.jar', 'serves_properties': sorted(CHECKS),
             'kind_free_text': 'TLC 1.8 explicit-state model checker: exhaustive checking of MC_*.tla instances and '
                               'batch trace validation of Trace_*.tla against recorded executions of /repo'},
            {'name': 'apalache', 'path': '/opt/veriftools/apalache', 'serves_properties': ['C09'],
             'kind_free_text': 'Apalache 0.58: inductive invariant of the abstract budget machine (spec/BudgetInd.tla), thorough tier of C09'},
            {'name': 'extras', 'path': 'bin/check X01..X06', 'serves_properties': [],
             'kind_free_text': 'specification coverage beyond the listed properties, same technique (DESIGN.md 12): X01 command-line '
                               'driver (BareCli), X02 regex functions (BareRegex), X03 documentation tool (BareDoc), X04 exact lint rule set '
                               '(BareLintExact), X05 statement recognition (BareStatement), X06 exact URL / regex escapes (Trace_Encode); evidence under evidence/extra/'},
        ],
        'checks': checks,
        'not_applicable': [{'property_id': p, 'reason': NOT_YET} for p in ALL if p not in CHECKS],
        'notes': 'One TLA+ specification of BareScript under /verif/spec; see DESIGN.md (12: coverage beyond the listed properties, bin/check X01..X06). Repairs of genuine defects '
                 'are "fix:" commits in /repo listed in KNOWN_FINDINGS.txt.',
    }
    with open(os.path.join(VERIF, 'MANIFEST.json'), 'w') as fh:
        json.dump(man, fh, indent=1)
    print('MANIFEST.json:', len(checks), 'checks,', len(man['not_applicable']), 'not claimed')


if __name__ == '__main__':
    main()
